"""Reference decoder: the Jelly specification's state machine over *abstract* frames.

Independent of pyjelly (shares no code with it, reads nothing from /repo): it consumes the
abstract protobuf messages the analysed writer produced, checks every validity rule of the
format and decodes by the specification's rules alone.  It also audits the compression contract
(C19).  String equality is structural equality of symbolic strings.
"""
from __future__ import annotations

from dataclasses import dataclass, field
from typing import Any

from .freeze import freeze
from .schema import Schema
from .values import AList, Msg, SStr, is_strlike, sstr
from . import spec


@dataclass
class Table:
    size: int
    slots: dict = field(default_factory=dict)  # id -> value
    last_set: int = 0
    last_used: int = 0


@dataclass
class RefResult:
    items: list = field(default_factory=list)  # ('triple', s, p, o) | ('quad', s, p, o, g) | ('ns', prefix, iri)
    errors: list = field(default_factory=list)
    options: dict | None = None
    frames: int = 0
    rows: int = 0
    per_frame: list = field(default_factory=list)  # number of statements decoded per frame
    graph_starts: int = 0
    # audit (C19)
    entries: dict = field(default_factory=lambda: {"name": 0, "prefix": 0, "datatype": 0})
    redundant_entries: list = field(default_factory=list)
    missed_elisions: list = field(default_factory=list)
    missed_elision_terms: list = field(default_factory=list)  # (slot, term) parallel to missed_elisions
    missed_zero: list = field(default_factory=list)
    elided_terms: int = 0
    zero_forms: int = 0


class RefDecoder:
    def __init__(self, schema: Schema):
        self.schema = schema
        self.res = RefResult()
        self.opts: Msg | None = None
        self.opts_frozen: Any = None
        self.names = self.prefixes = self.datatypes = None
        self.prev: dict[str, Any] = {}
        self.in_graph: Any = None
        self.graph_open = False
        self.first_row_seen = False

    def err(self, msg: str) -> None:
        if len(self.res.errors) < 20:
            self.res.errors.append(msg)

    # -- presence helpers on abstract messages
    def which(self, m: Msg, oneof: str) -> str | None:
        for f in self.schema.messages[m.mtype].oneofs[oneof]:
            if f in m.present:
                return f
        return None

    def scalar(self, m: Msg, name: str) -> Any:
        if name in m.fields:
            return m.fields[name]
        return self.schema.messages[m.mtype].fields[name].default()

    # -- driver
    def feed(self, frames: list) -> RefResult:
        for fr in frames:
            self.frame(fr)
        if self.graph_open:
            self.err("stream ends inside an open graph (graph_start without graph_end)")
        return self.res

    def frame(self, fr: Msg) -> None:
        self.res.frames += 1
        before = len([i for i in self.res.items if i[0] != "ns"])
        rows = fr.fields.get("rows")
        for row in rows.items if isinstance(rows, AList) else []:
            self.row(row)
        self.res.per_frame.append(len([i for i in self.res.items if i[0] != "ns"]) - before)

    def row(self, row: Msg) -> None:
        self.res.rows += 1
        kind = self.which(row, "row")
        if kind is None:
            self.err("row with no content")
            return
        body = row.fields[kind]
        if not self.first_row_seen:
            self.first_row_seen = True
            if kind != "options":
                self.err(f"first row of the stream is '{kind}', not the options row")
        if kind == "options":
            self.options(body)
            return
        if self.opts is None:
            self.err(f"row '{kind}' before any options row")
            return
        phys = self.res.options["physical_type"]
        if kind in ("triple", "quad", "graph_start", "graph_end") and kind not in spec.ROW_KINDS.get(phys, set()):
            self.err(f"row kind '{kind}' is not allowed in a stream of physical type {phys}")
        getattr(self, "r_" + kind)(body)

    def options(self, o: Msg) -> None:
        vals = {f: self.scalar(o, f) for f in self.schema.messages["RdfStreamOptions"].fields}
        fz = freeze(vals)
        if self.opts is not None:
            if fz != self.opts_frozen:
                self.err(f"options row repeated with different content: {vals} vs {self.res.options}")
            return
        self.opts = o
        self.opts_frozen = fz
        self.res.options = vals
        if vals["max_name_table_size"] < spec.MIN_NAME_TABLE:
            self.err(f"max_name_table_size {vals['max_name_table_size']} < 8")
        if not spec.compatible(vals["physical_type"], vals["logical_type"]):
            self.err(f"physical type {vals['physical_type']} incompatible with logical type {vals['logical_type']}")
        if vals["physical_type"] == 0:
            self.err("physical type UNSPECIFIED")
        if vals["version"] not in (1, 2):
            self.err(f"version {vals['version']}")
        self.names = Table(vals["max_name_table_size"])
        self.prefixes = Table(vals["max_prefix_table_size"])
        self.datatypes = Table(vals["max_datatype_table_size"])

    # -- entries
    def entry(self, table: Table, role: str, e: Msg) -> None:
        wire = self.scalar(e, "id")
        value = self.scalar(e, "value")
        ident = wire if wire != 0 else table.last_set + 1
        self.res.entries[role] += 1
        if wire == 0:
            self.res.zero_forms += 1
        elif wire == table.last_set + 1:
            self.res.missed_zero.append(f"{role} entry id {wire} written explicitly although it equals last+1")
        if not (1 <= ident <= table.size):
            self.err(f"{role} entry id {ident} (wire {wire}) outside the declared table size {table.size}")
            return
        fv = freeze(value)
        for k, v in table.slots.items():
            if freeze(v) == fv:
                self.res.redundant_entries.append(f"{role} entry {value!r} sent while resident at id {k}")
                break
        table.slots[ident] = value
        table.last_set = ident

    def r_name(self, e: Msg) -> None:
        self.entry(self.names, "name", e)

    def r_prefix(self, e: Msg) -> None:
        self.entry(self.prefixes, "prefix", e)

    def r_datatype(self, e: Msg) -> None:
        self.entry(self.datatypes, "datatype", e)

    # -- terms
    def iri(self, m: Msg) -> Any:
        pid = self.scalar(m, "prefix_id")
        nid = self.scalar(m, "name_id")
        # name
        if nid == 0:
            n_id = self.names.last_used + 1
            self.res.zero_forms += 1
        else:
            n_id = nid
            if nid == self.names.last_used + 1:
                self.res.missed_zero.append(f"name id {nid} written explicitly although it equals last used + 1")
        if n_id not in self.names.slots:
            self.err(f"name reference {n_id} (wire {nid}) does not refer to a defined entry (table size {self.names.size})")
            name = sstr("?")
        else:
            name = self.names.slots[n_id]
        self.names.last_used = n_id
        # prefix
        if pid == 0:
            p_id = self.prefixes.last_used
            if p_id == 0:
                prefix: Any = ""
            else:
                self.res.zero_forms += 1
                prefix = self.prefixes.slots.get(p_id, "")
        else:
            p_id = pid
            if pid == self.prefixes.last_used:
                self.res.missed_zero.append(f"prefix id {pid} written explicitly although it equals the last used prefix")
            if p_id not in self.prefixes.slots:
                self.err(f"prefix reference {p_id} does not refer to a defined entry (table size {self.prefixes.size})")
                prefix = sstr("?")
            else:
                prefix = self.prefixes.slots[p_id]
            self.prefixes.last_used = p_id
        return ("iri", sstr(prefix, name))

    def literal(self, m: Msg) -> Any:
        lex = self.scalar(m, "lex")
        kind = self.which(m, "literalKind")
        if kind == "langtag":
            return ("lit", lex, self.scalar(m, "langtag"), None)
        if kind == "datatype":
            did = self.scalar(m, "datatype")
            if self.datatypes.size == 0:
                self.err("datatype reference while the datatype table is disabled")
                return ("lit", lex, None, sstr("?"))
            if did == 0 or did not in self.datatypes.slots:
                self.err(f"datatype reference {did} does not refer to a defined entry")
                return ("lit", lex, None, sstr("?"))
            self.datatypes.last_used = did
            return ("lit", lex, None, self.datatypes.slots[did])
        return ("lit", lex, None, None)

    def term(self, holder: Msg, field_name: str, quoted: bool = False) -> Any:
        v = holder.fields.get(field_name)
        suffix = field_name.split("_", 1)[1]
        if suffix == "iri":
            return self.iri(v)
        if suffix == "bnode":
            return ("bnode", v)
        if suffix == "literal":
            return self.literal(v)
        if suffix == "default_graph":
            return ("default",)
        if suffix == "triple_term":
            if not self.res.options.get("rdf_star"):
                self.err("quoted triple in a stream that does not declare rdf_star")
            return self.quoted(v)
        self.err(f"unknown term field {field_name}")
        return ("?",)

    def quoted(self, t: Msg) -> Any:
        out = []
        for oneof in ("subject", "predicate", "object"):
            f = self.which(t, oneof)
            if f is None:
                self.err(f"quoted triple without a {oneof} (repeated terms are not allowed inside quoted triples)")
                out.append(("?",))
            else:
                out.append(self.term(t, f, quoted=True))
        return ("triple",) + tuple(out)

    def statement(self, st: Msg, oneofs: tuple) -> list:
        terms = []
        for oneof in oneofs:
            f = self.which(st, oneof)
            if f is None:
                if oneof not in self.prev:
                    self.err(f"repeated {oneof} in a statement with no previous {oneof}")
                    terms.append(("?",))
                else:
                    self.res.elided_terms += 1
                    terms.append(self.prev[oneof])
            else:
                t = self.term(st, f)
                if oneof in self.prev and freeze(self.prev[oneof]) == freeze(t):
                    self.res.missed_elisions.append(f"{oneof} {t!r} written although equal to the previous statement's {oneof}")
                    self.res.missed_elision_terms.append((oneof, t))
                self.prev[oneof] = t
                terms.append(t)
        if not self.res.options.get("generalized_statements"):
            s, p = terms[0], terms[1]
            if s[0] == "lit" or p[0] != "iri":
                self.err(f"generalized statement (subject {s[0]}, predicate {p[0]}) in a stream that does not declare generalized_statements")
        return terms

    def r_triple(self, t: Msg) -> None:
        terms = self.statement(t, ("subject", "predicate", "object"))
        if self.res.options["physical_type"] == 3:
            if not self.graph_open:
                self.err("triple outside any graph in a GRAPHS stream")
                g: Any = ("?",)
            else:
                g = self.in_graph
            self.res.items.append(("quad",) + tuple(terms) + (g,))
        else:
            self.res.items.append(("triple",) + tuple(terms))

    def r_quad(self, q: Msg) -> None:
        terms = self.statement(q, ("subject", "predicate", "object", "graph"))
        self.res.items.append(("quad",) + tuple(terms))

    def r_graph_start(self, g: Msg) -> None:
        if self.graph_open:
            self.err("graph_start inside an open graph")
        f = self.which(g, "graph")
        if f is None:
            self.err("graph_start without a graph name")
            self.in_graph = ("?",)
        else:
            self.in_graph = self.term(g, f)
        self.graph_open = True
        self.res.graph_starts += 1

    def r_graph_end(self, _g: Msg) -> None:
        if not self.graph_open:
            self.err("graph_end without graph_start")
        self.graph_open = False

    def r_namespace(self, d: Msg) -> None:
        if self.res.options["version"] < spec.VERSION_NAMESPACES:
            self.err("namespace declaration in a version-1 stream")
        name = self.scalar(d, "name")
        if "value" not in d.present:
            self.err("namespace declaration without an IRI")
            return
        self.res.items.append(("ns", name, self.iri(d.fields["value"])[1]))


def decode(schema: Schema, frames: list) -> RefResult:
    return RefDecoder(schema).feed(frames)
