"""Structural, hashable rendering of abstract values (for comparing results across runs)."""
from __future__ import annotations

from typing import Any

from .values import ADict, AList, ASet, ClassInfo, EnumInt, ExtObj, ExtRef, FuncRef, GenObj, Msg, MsgClass, Obj, SStr, Unknown


ONEOF_FIELDS: dict[str, frozenset] = {}  # message type -> names of fields that belong to a oneof (filled by Interp)


def _is_default_scalar(x: Any) -> bool:
    return x is None or (isinstance(x, (bool, int, float, str, bytes)) and not x)


def freeze(v: Any, seen: dict | None = None) -> Any:
    if seen is None:
        seen = {}
    if v is None or isinstance(v, (bool, float, bytes, str)):
        return v
    if isinstance(v, EnumInt):
        return int(v)
    if isinstance(v, int):
        return v
    if isinstance(v, SStr):
        return ("S",) + tuple(p if isinstance(p, str) else ("atom", p.name) for p in v.parts)
    if isinstance(v, (tuple, list)):
        return tuple(freeze(x, seen) for x in v)
    if isinstance(v, Unknown):
        return ("unknown", repr(v.key))
    if id(v) in seen:
        return ("ref", seen[id(v)])
    seen[id(v)] = len(seen)
    if isinstance(v, Obj):
        if v.tuple_items is not None:
            return ("obj", v.cls.qualname, tuple(freeze(x, seen) for x in v.tuple_items))
        return ("obj", v.cls.qualname, tuple((k, freeze(x, seen)) for k, x in sorted(v.attrs.items())))
    if isinstance(v, ExtObj):
        skip = {"store", "ns"} if v.kind.startswith("rdflib") else set()
        return ("ext", v.kind, tuple((k, freeze(x, seen)) for k, x in sorted(v.attrs.items()) if k not in skip))
    if isinstance(v, AList):
        return (v.kind, tuple(freeze(x, seen) for x in v.items))
    if isinstance(v, ADict):
        return (v.kind, tuple((freeze(a, seen), freeze(b, seen)) for a, b in v.pairs))
    if isinstance(v, ASet):
        return ("set", tuple(sorted((freeze(x, seen) for x in v.items), key=repr)))
    if isinstance(v, Msg):
        # wire-faithful: a proto3 scalar that holds its default value is not serialised unless it belongs to a oneof
        # (members of a oneof have presence); sub-messages count when present; empty repeated/map fields do not exist
        oneof = ONEOF_FIELDS.get(v.mtype, ())
        items = []
        for k, x in sorted(v.fields.items()):
            if isinstance(x, Msg):
                if k in v.present:
                    items.append((k, freeze(x, seen)))
            elif isinstance(x, AList):
                if x.items:
                    items.append((k, freeze(x, seen)))
            elif isinstance(x, ADict):
                if x.pairs:
                    items.append((k, freeze(x, seen)))
            elif (k in oneof and k in v.present) or not _is_default_scalar(x):
                items.append((k, freeze(x, seen)))
        return ("msg", v.mtype, tuple(items))
    if isinstance(v, ClassInfo):
        return ("class", v.qualname)
    if isinstance(v, (ExtRef, MsgClass)):
        return repr(v)
    if isinstance(v, FuncRef):
        return ("fn", v.info.qualname)
    if isinstance(v, GenObj):
        return ("gen", v.label)
    return repr(v)
