"""Structural, hashable rendering of abstract values (for comparing results across runs)."""
from __future__ import annotations

from typing import Any

from .values import ADict, AList, ASet, ClassInfo, EnumInt, ExtObj, ExtRef, FuncRef, GenObj, Msg, MsgClass, Obj, SStr, Unknown


def freeze(v: Any, seen: dict | None = None) -> Any:
    if seen is None:
        seen = {}
    if v is None or isinstance(v, (bool, float, bytes, str)):
        return v
    if isinstance(v, EnumInt):
        return int(v)
    if isinstance(v, int):
        return v
    if isinstance(v, SStr):
        return ("S",) + tuple(p if isinstance(p, str) else ("atom", p.name) for p in v.parts)
    if isinstance(v, (tuple, list)):
        return tuple(freeze(x, seen) for x in v)
    if isinstance(v, Unknown):
        return ("unknown", repr(v.key))
    if id(v) in seen:
        return ("ref", seen[id(v)])
    seen[id(v)] = len(seen)
    if isinstance(v, Obj):
        if v.tuple_items is not None:
            return ("obj", v.cls.qualname, tuple(freeze(x, seen) for x in v.tuple_items))
        return ("obj", v.cls.qualname, tuple((k, freeze(x, seen)) for k, x in sorted(v.attrs.items())))
    if isinstance(v, ExtObj):
        skip = {"store", "ns"} if v.kind.startswith("rdflib") else set()
        return ("ext", v.kind, tuple((k, freeze(x, seen)) for k, x in sorted(v.attrs.items()) if k not in skip))
    if isinstance(v, AList):
        return (v.kind, tuple(freeze(x, seen) for x in v.items))
    if isinstance(v, ADict):
        return (v.kind, tuple((freeze(a, seen), freeze(b, seen)) for a, b in v.pairs))
    if isinstance(v, ASet):
        return ("set", tuple(sorted((freeze(x, seen) for x in v.items), key=repr)))
    if isinstance(v, Msg):
        return ("msg", v.mtype, tuple((k, freeze(x, seen)) for k, x in sorted(v.fields.items()) if not isinstance(x, Msg) or k in v.present))
    if isinstance(v, ClassInfo):
        return ("class", v.qualname)
    if isinstance(v, (ExtRef, MsgClass)):
        return repr(v)
    if isinstance(v, FuncRef):
        return ("fn", v.info.qualname)
    if isinstance(v, GenObj):
        return ("gen", v.label)
    return repr(v)
