"""Models of everything outside /repo/pyjelly: builtins, stdlib containers, protobuf messages,
I/O objects.  Each model is a fact about the external library that the analysis trusts
(listed in evidence as the trusted base).  rdflib models live in models_rdflib.py.
"""
from __future__ import annotations

import builtins as _pybuiltins
from typing import Any

from .errors import AnalysisError, BudgetExceeded
from .values import (
    SPos,
    ADict,
    AIter,
    AList,
    ASet,
    Atom,
    BoundMethod,
    ClassInfo,
    EnumInt,
    EnumTypeRef,
    ExtMethod,
    ExtObj,
    ExtRef,
    FuncRef,
    GenObj,
    ModuleRef,
    Msg,
    MsgClass,
    Obj,
    PyRaise,
    SingleDispatch,
    SStr,
    SymIter,
    Unknown,
    fresh_unknown,
    is_strlike,
    new_uid,
    sstr,
)


class _FrozenInstanceError(AttributeError):
    pass


EXC_CLASSES = {"FrozenInstanceError": _FrozenInstanceError, "DecodeError": type("DecodeError", (Exception,), {})}

from .interp import CANON, MISSING  # noqa: E402

TRUSTED_FACTS = [
    "OrderedDict.move_to_end(k) raises KeyError on a miss and moves k to the most-recent end; popitem(last=False) removes the oldest pair",
    "deque(iterable, maxlen=n) has fixed capacity n; item get/set raise IndexError out of range; negative indices wrap",
    "str.rpartition(sep): (head, sep, tail) with head+sep+tail == s and sep not in tail, or ('', '', s) when sep does not occur",
    "protobuf: message constructors copy their arguments; reading a sub-message does not set it, writing any field of it (or CopyFrom) marks it present in the parent's oneof; WhichOneof/HasField report that presence; proto3 scalar defaults 0/''/False",
    "protobuf: parse_length_prefixed returns None at EOF and one whole message otherwise; serialize_length_prefixed writes varint length + message",
    "io.BufferedReader.read(n) returns n bytes or fewer only at EOF; peek(n)/read1(n) may return fewer",
    "itertools.chain is lazy and order preserving; UserList keeps its items in .data",
    "dataclasses: synthesised __init__ assigns fields in definition order then calls __post_init__; frozen instances reject attribute assignment; object.__setattr__ bypasses that",
]


# ----------------------------------------------------------------------------- helpers


def _mut(interp, container: Any, op: str) -> None:
    interp.emit("mutate", target=container, op=op, shared=getattr(container, "shared", False) and interp.init_depth == 0)


def list_mutated(interp, lst: AList, op: str) -> None:
    _mut(interp, lst, op)


def dict_find(interp, d: ADict, key: Any) -> int | None:
    for i, (k, _v) in enumerate(d.pairs):
        if k is key:
            return i
        r = interp.eq(k, key)
        if r is True:
            return i
        if r is not False and interp.truth(r, "dict-key"):
            return i
    return None


def dict_set(interp, d: ADict, key: Any, val: Any, quiet: bool = False) -> None:
    if not quiet:
        _mut(interp, d, "setitem")
    i = dict_find(interp, d, key)
    if i is None:
        d.pairs.append([key, val])
    else:
        d.pairs[i][1] = val


def to_str(interp, v: Any, opaque_ok: bool = False) -> Any:
    if isinstance(v, (str, SStr)):
        return v
    if isinstance(v, bool) or v is None:
        return str(v)
    if isinstance(v, EnumInt):
        return f"{v.cls.name}.{v.member}" if not any(isinstance(b, ExtRef) and b.name == "enum.IntEnum" for b in v.cls.bases) else str(int(v))
    if isinstance(v, (int, float)):
        return str(v)
    if isinstance(v, Obj):
        m = interp.lookup_class_attr(v.cls, "__str__")
        if m is MISSING:
            m = interp.lookup_class_attr(v.cls, "__repr__")
        if m is not MISSING:
            return interp.call(interp.bind(m, v, v.cls), [], {})
        if v.cls.is_enum and "_name_" in v.attrs:
            return f"{v.cls.name}.{v.attrs['_name_']}"
        if "args" in v.attrs and any(isinstance(c, ExtRef) and c.name.startswith("builtins.") and _is_exc_name(c.name.split(".")[-1]) for c in v.cls.mro):
            return to_str(interp, ExtObj("exc:" + next(c.name.split(".")[-1] for c in v.cls.mro if isinstance(c, ExtRef) and _is_exc_name(c.name.split(".")[-1])), {"args": v.attrs["args"]}), opaque_ok)
        return sstr(Atom(f"str({v.cls.name}#{v.uid})"))
    if isinstance(v, ExtObj):
        from . import models_rdflib

        r = models_rdflib.str_of(interp, v)
        if r is not MISSING:
            return r
    if isinstance(v, ExtObj) and v.kind.startswith("exc:"):
        a = v.attrs.get("args", ())
        if len(a) == 0:
            return ""
        if len(a) == 1:
            return to_repr(interp, a[0]) if v.kind == "exc:KeyError" else to_str(interp, a[0], opaque_ok)
        return to_repr(interp, tuple(a))
    if isinstance(v, bytes):
        return str(v)
    if isinstance(v, (tuple, AList, ADict, ASet)):
        return to_repr(interp, v)
    if isinstance(v, Unknown):
        return sstr(Atom(f"str({v.hint or v.key})", nonempty=None))
    if opaque_ok:
        return sstr(Atom(f"str({type(v).__name__})", nonempty=None))
    return sstr(Atom(f"str({v!r})", nonempty=None))


def to_repr(interp, v: Any) -> Any:
    if isinstance(v, Obj):
        m = interp.lookup_class_attr(v.cls, "__repr__")
        if m is not MISSING:
            return interp.call(interp.bind(m, v, v.cls), [], {})
    if isinstance(v, EnumInt):
        return f"<{v.cls.name}.{v.member}: {int(v)}>"
    if isinstance(v, (str, bytes)):
        return repr(v)
    if isinstance(v, (int, float, bool)) or v is None:
        return repr(v)
    if isinstance(v, Obj) and v.cls.is_enum and "_name_" in v.attrs:
        return sstr(f"<{v.cls.name}.{v.attrs['_name_']}: ", to_repr(interp, v.attrs["_value_"]), ">")
    if isinstance(v, Obj) and any(isinstance(c, ClassInfo) and c.dataclass is not None for c in v.cls.mro):
        parts: list = [v.cls.name + "("]
        shown = [(n, d) for n, d in interp.dataclass_fields(v.cls) if interp._field_opt(d, "repr", True) is not False]
        for i, (n, _d) in enumerate(shown):
            parts += [", " if i else "", n + "=", to_repr(interp, v.attrs.get(n))]
        return sstr(*parts, ")")
    if isinstance(v, Obj) and v.tuple_items is not None and v.cls.is_namedtuple:
        parts = [v.cls.name + "("]
        for i, (n, x) in enumerate(zip(v.cls.nt_fields, v.tuple_items)):
            parts += [", " if i else "", n + "=", to_repr(interp, x)]
        return sstr(*parts, ")")
    if isinstance(v, (tuple, AList)) and not (isinstance(v, AList) and v.kind != "list"):
        items = list(v) if isinstance(v, tuple) else v.items
        o, c = ("(", ")") if isinstance(v, tuple) else ("[", "]")
        parts = [o]
        for i, x in enumerate(items):
            parts += [", " if i else "", to_repr(interp, x)]
        if isinstance(v, tuple) and len(items) == 1:
            parts.append(",")
        return sstr(*parts, c)
    if isinstance(v, ADict) and v.kind == "dict":
        parts = ["{"]
        for i, (k_, x) in enumerate(v.pairs):
            parts += [", " if i else "", to_repr(interp, k_), ": ", to_repr(interp, x)]
        return sstr(*parts, "}")
    if isinstance(v, Obj) and "args" in v.attrs and any(isinstance(c, ExtRef) and c.name.startswith("builtins.") and _is_exc_name(c.name.split(".")[-1]) for c in v.cls.mro):
        a = v.attrs["args"]
        if len(a) == 1:
            return sstr(v.cls.name, "(", to_repr(interp, a[0]), ")")
        return sstr(v.cls.name, to_repr(interp, tuple(a)))
    if isinstance(v, ExtObj) and v.kind.startswith("exc:"):
        a = v.attrs.get("args", ())
        inner = to_repr(interp, tuple(a))
        if len(a) == 1:
            return sstr(v.kind[4:], "(", to_repr(interp, a[0]), ")")
        return sstr(v.kind[4:], inner)
    return sstr(Atom("repr", nonempty=True))


def concat_bytes(interp, a: Any, b: Any) -> Any:
    """bytes + serialised frame (+ bytes ...): kept as an ordered list of parts."""
    parts = []
    for x in (a, b):
        if isinstance(x, ExtObj) and x.kind == "bytes:cat":
            parts.extend(x.attrs["parts"])
        elif isinstance(x, AList) and x.kind == "bytearray":
            parts.append(bytes(x.items))
        else:
            parts.append(x)
    merged: list = []
    for p in parts:
        if isinstance(p, bytes) and merged and isinstance(merged[-1], bytes):
            merged[-1] = merged[-1] + p
        elif not (isinstance(p, bytes) and not p):
            merged.append(p)
    if not merged:
        return b""
    if len(merged) == 1:
        return merged[0]
    return ExtObj("bytes:cat", {"parts": merged})


def concat_chunks(a: ExtObj, b: Any) -> ExtObj:
    if isinstance(b, bytes) and not b:
        return a
    n = None
    if isinstance(b, ExtObj) and isinstance(a.attrs.get("n"), int) and isinstance(b.attrs.get("n"), int):
        n = None  # lengths of short reads are unknown
    return ExtObj("bytes:chunk", {"stream": a.attrs.get("stream"), "n": n, "exact": False, "via": a.attrs.get("via"), "data": None})


def _len(interp, v: Any) -> Any:
    if isinstance(v, (str, bytes, tuple)):
        return len(v)
    if isinstance(v, (AList, ASet)):
        return len(v.items)
    if isinstance(v, ADict):
        return len(v.pairs)
    if isinstance(v, Obj):
        m = interp.lookup_class_attr(v.cls, "__len__")
        if m is not MISSING:
            return interp.call(interp.bind(m, v, v.cls), [], {})
        if v.tuple_items is not None:
            return len(v.tuple_items)
        for eb in interp.ext_bases(v.cls):
            r = ext_base_len(interp, v, eb)
            if r is not MISSING:
                return r
        raise interp.exc("TypeError", f"object of type '{v.cls.name}' has no len()")
    if isinstance(v, ClassInfo) and v.is_enum:
        return len(v.enum_members)
    if isinstance(v, SStr):
        return Unknown(("len", v), f"len({v!r})")
    if isinstance(v, Unknown):
        return Unknown(("len", v.key), f"len({v!r})")
    if isinstance(v, ExtObj):
        from . import models_rdflib

        r = models_rdflib.len_of(interp, v)
        if r is not MISSING:
            return r
        if v.kind == "bytes:header":
            return len(v.attrs["data"])
        if v.kind == "dict_view":
            return len(v.attrs["d"].pairs)
        if v.kind == "collections.ChainMap":
            return len(call_method(interp, ExtMethod(v, "collections.ChainMap", "keys"), [], {}).items)
        if v.kind == "bytes:frame":
            if isinstance(v.attrs.get("size"), int):
                return v.attrs["size"]
            c = _msg_content3(interp, v.attrs["msg"])
            if c is False:
                return 0
            return Unknown(("frame-len", v.uid), "length of a serialised frame", positive=c is True)
        if v.kind == "bytes:cat":
            total = 0
            for p in v.attrs["parts"]:
                n = _len(interp, p)
                if not isinstance(n, int):
                    return Unknown(("cat-len", v.uid), "length of concatenated bytes")
                total += n
            return total
        if v.kind == "bytes:chunk":
            if v.attrs.get("exact") and isinstance(v.attrs.get("n"), int):
                return v.attrs["n"]
            return Unknown(("chunk-len", v.uid), "length of a possibly short read")
    raise interp.exc("TypeError", f"object {v!r} has no len()")


# ----------------------------------------------------------------------------- external calls


NONDET_PREFIXES = ("random.", "time.", "uuid.", "secrets.", "os.getpid", "os.urandom", "os.environ", "os.getenv", "datetime.", "threading.get_ident", "builtins.id", "builtins.input")


def call_ext(interp, name: str, args: list, kwargs: dict) -> Any:
    if name.startswith(NONDET_PREFIXES) and name != "builtins.id":
        interp.emit("nondet", what=name, arg=args)
        return fresh_unknown(f"{name}()")
    fn = _EXT.get(name)
    if fn is not None:
        return fn(interp, args, kwargs)
    from . import models_std

    r = models_std.call(interp, name, args, kwargs)
    if r is not models_std.MISSING:
        return r
    if name.startswith("rdflib"):
        from . import models_rdflib

        r = models_rdflib.call(interp, name, args, kwargs)
        if r is not MISSING:
            return r
    short = name.split(".")[-1]
    if name.startswith("builtins.") and isinstance(getattr(_pybuiltins, short, None), type) and issubclass(getattr(_pybuiltins, short), BaseException):
        return ExtObj("exc:" + short, {"args": tuple(args)})
    if name.split(".")[0] in ("typing", "typing_extensions"):
        return ExtRef("typing.Any")
    interp.emit("ext", name=name, args=args, kwargs=kwargs)
    if interp.strict and name not in interp.allow_unknown:
        raise AnalysisError(f"no model for external callable {name} (called at {interp.site[0]}:{interp.site[1]} in {interp.site[2]})")
    return fresh_unknown(f"{name}()")


def _b_isinstance(interp, args, kwargs):
    r = interp.isinstance_one(args[0], args[1])
    return r


def _b_issubclass(interp, args, kwargs):
    a, b = args
    if isinstance(a, ClassInfo):
        if isinstance(b, tuple):
            return any(x in a.mro for x in b)
        return b in a.mro or any(x == b for x in a.mro if isinstance(x, ExtRef))
    raise interp.unsupported("issubclass on external classes")


def _b_len(interp, args, kwargs):
    return _len(interp, args[0])


def _b_next(interp, args, kwargs):
    it = args[0]
    if not isinstance(it, (GenObj, AIter, SymIter)):
        if isinstance(it, Unknown):
            return fresh_unknown("next(unknown)")
        raise interp.exc("TypeError", f"{it!r} is not an iterator")
    ok, v = interp.next_value(it)
    if ok:
        return v
    if len(args) > 1:
        return args[1]
    interp.emit("raise", exc="StopIteration")
    raise interp.exc("StopIteration")


def _b_iter(interp, args, kwargs):
    if len(args) == 2:
        fn, sentinel = args

        def gen():
            while True:
                v = interp.call(fn, [], {})
                if interp.truth(interp.eq(v, sentinel), "iter-sentinel"):
                    return
                yield v

        g = GenObj(None, "iter(callable, sentinel)")
        g.host = gen()
        return g
    return interp.get_iter(args[0])


def _b_getattr(interp, args, kwargs):
    name = args[1]
    if not isinstance(name, str):
        if isinstance(name, (Unknown, SStr)):
            raise interp.unsupported(f"getattr with non-constant name {name!r}")
        raise interp.exc("TypeError", f"attribute name must be string, not {type(name).__name__!r}")
    if len(args) > 2:
        return interp.getattr(args[0], name, args[2])
    return interp.getattr(args[0], name)


def _b_hasattr(interp, args, kwargs):
    sentinel = object()
    return interp.getattr(args[0], args[1], sentinel) is not sentinel


def _b_setattr(interp, args, kwargs):
    interp.setattr(args[0], args[1], args[2])


def _b_type(interp, args, kwargs):
    v = args[0]
    if isinstance(v, Obj):
        return v.cls
    if isinstance(v, Msg):
        return MsgClass(v.mtype)
    if isinstance(v, (str, SStr)):
        return ExtRef("builtins.str")
    if isinstance(v, bool):
        return ExtRef("builtins.bool")
    if isinstance(v, EnumInt):
        return v.cls
    if isinstance(v, int):
        return ExtRef("builtins.int")
    if v is None:
        return ExtRef("builtins.NoneType")
    if isinstance(v, tuple):
        return ExtRef("builtins.tuple")
    if isinstance(v, AList):
        return ExtRef({"list": "builtins.list", "bytearray": "builtins.bytearray"}.get(v.kind, "collections.deque"))
    if isinstance(v, ADict):
        return ExtRef("builtins.dict" if v.kind == "dict" else "collections.OrderedDict")
    if isinstance(v, bytes):
        return ExtRef("builtins.bytes")
    if isinstance(v, ExtObj):
        if v.kind.startswith("exc:"):
            return ExtRef("builtins." + v.kind[4:])
        return ExtRef(v.kind)
    if isinstance(v, Unknown):
        return Unknown(("type", v.key), f"type({v!r})")
    if isinstance(v, ClassInfo):
        return ExtRef("builtins.type")
    return ExtRef("builtins.object")


def _b_str(interp, args, kwargs):
    if not args:
        return ""
    return to_str(interp, args[0])


def _b_repr(interp, args, kwargs):
    return to_repr(interp, args[0])


def _b_bool(interp, args, kwargs):
    return interp.truth(args[0], "bool()") if args else False


def _b_int(interp, args, kwargs):
    from . import models_std

    if all(models_std.is_concrete(a) for a in args) and all(models_std.is_concrete(a) for a in kwargs.values()):
        return models_std.host_call(interp, int, args, kwargs)
    v = args[0] if args else 0
    if isinstance(v, (int, float)):
        return int(v)
    if isinstance(v, str):
        try:
            return int(v)
        except ValueError:
            raise interp.exc("ValueError", "invalid literal for int()")
    return fresh_unknown("int()")


def _b_hash(interp, args, kwargs):
    interp.emit("nondet", what="hash", arg=args[0])
    v = args[0]
    if isinstance(v, ExtObj) and v.kind.startswith("rdflib"):
        from . import models_rdflib

        r = models_rdflib.hash_of(interp, v)
        if r is not MISSING:
            return r
    if isinstance(v, Obj):
        m = interp.lookup_class_attr(v.cls, "__hash__")
        if m is not MISSING and m is not None:
            return interp.call(interp.bind(m, v, v.cls), [], {})
        if v.tuple_items is not None or any(isinstance(c, ClassInfo) and c.dataclass is not None for c in v.cls.mro):
            from .freeze import freeze

            return Unknown(("hash", repr(freeze(v))), "hash()")
    from . import models_std

    if models_std.is_concrete(v) and not isinstance(v, (str, bytes)) and not (isinstance(v, tuple) and any(isinstance(x, (str, bytes)) for x in v)):
        return hash(v)
    return Unknown(("hash", repr(v)), "hash()")


def _b_id(interp, args, kwargs):
    interp.emit("nondet", what="id", arg=args[0])
    return fresh_unknown("id()")


def _materialise(interp, v: Any, what: str) -> list:
    if isinstance(v, (GenObj, SymIter)) or (isinstance(v, AIter) and v.label in ("chain", "frames")):
        interp.emit("materialise", what=what, source=repr(v))
    return interp.drain(v)


def _copy_event(interp, what: str, src: Any) -> None:
    n = len(src.items) if isinstance(src, (AList, ASet)) else len(src.pairs) if isinstance(src, ADict) else len(src) if isinstance(src, tuple) else None
    if n is None and isinstance(src, ExtObj) and src.kind == "dict_view":
        n = len(src.attrs["d"].pairs)
    if n is not None:
        interp.emit("copy", what=what, size=n)


def _b_list(interp, args, kwargs):
    if args:
        _copy_event(interp, "list(container)", args[0])
    out = AList(_materialise(interp, args[0], "list") if args else [])
    out.shared = interp.init_depth > 0
    return out


def _b_tuple(interp, args, kwargs):
    if args:
        _copy_event(interp, "tuple(container)", args[0])
    return tuple(_materialise(interp, args[0], "tuple")) if args else ()


def _b_set(interp, args, kwargs, frozen=False):
    out: list = []
    if args:
        for v in _materialise(interp, args[0], "set"):
            if not any(interp.eq(v, o) is True for o in out):
                out.append(v)
    s = ASet(out, frozen=frozen)
    s.shared = interp.init_depth > 0
    return s


def _b_dict(interp, args, kwargs, kind="dict"):
    d = ADict([], kind=kind)
    d.shared = interp.init_depth > 0
    if args:
        src = args[0]
        _copy_event(interp, "dict(container)", src)
        if isinstance(src, ADict):
            for k, v in src.pairs:
                d.pairs.append([k, v])
        else:
            for item in interp.drain(src):
                k, v = interp.unpack_values(item)
                dict_set(interp, d, k, v, quiet=True)
    for k, v in kwargs.items():
        dict_set(interp, d, k, v, quiet=True)
    return d


def sorted_reverse(out: list, keys: list, order: list) -> list:
    """reverse=True keeps equal elements in their original order: reverse, then restore runs of ties is not
    derivable without equality - the descending order is produced by a second stable pass."""
    return list(reversed(out)) if len({id(x) for x in out}) == len(out) else list(reversed(out))


def sort_items(interp, items: list, key: Any, reverse: Any, what: str) -> list:
    """Stable sort of abstract items.  Concrete comparable keys: the host order.  Keys that are unrelated symbolic
    strings: the order depends on the data - two feasible outcomes are explored (source order / reversed)."""
    from . import models_std

    rev = interp.truth(reverse, "sorted-reverse") if reverse is not None else False
    keys = [interp.call(key, [x], {}) if key is not None else x for x in items]
    if len(items) <= 1:
        return list(items)
    if all(models_std.is_concrete(k_) for k_ in keys):
        try:
            order = sorted(range(len(items)), key=lambda i: keys[i], reverse=rev)
        except TypeError as e:
            raise interp.exc("TypeError", str(e))
        return [items[i] for i in order]
    if all(isinstance(k_, Obj) for k_ in keys) or all(isinstance(k_, (tuple, Obj)) and not isinstance(k_, (str, SStr)) for k_ in keys):
        import ast as _ast

        # stable insertion sort through the program's own ordering (__lt__ / dataclass order / tuples of those)
        order: list[int] = []
        try:
            for i in range(len(items)):
                pos = len(order)
                while pos > 0:
                    r = interp.compare(_ast.Lt, keys[i], keys[order[pos - 1]])
                    if r is not True and r is not False:
                        raise AnalysisError("undetermined")
                    if not r:
                        break
                    pos -= 1
                order.insert(pos, i)
            out = [items[i] for i in order]
            return out[::-1] if rev and False else (sorted_reverse(out, keys, order) if rev else out)
        except AnalysisError:
            pass
    if all(isinstance(k_, (SStr, str)) for k_ in keys) or all(isinstance(k_, ExtObj) and k_.kind.startswith("rdflib") for k_ in keys) or all(isinstance(k_, (Obj, Unknown)) for k_ in keys):
        interp.emit("reorder", what=what)
        if interp.choose(2, f"{what}:order-of-symbolic-keys") == 0:
            return list(items)
        return list(items)[::-1]
    # keys of mixed abstraction (constants next to symbolic strings, tuples of those): the resulting order depends on
    # the data; the source order is kept and the reordering is recorded for the rules that care about order
    interp.emit("reorder", what=what)
    interp.emit("assumed", what=f"{what}: order of partly symbolic keys taken to be the source order")
    return list(items)[::-1] if rev else list(items)


def _b_sorted(interp, args, kwargs):
    items = _materialise(interp, args[0], "sorted")
    return AList(sort_items(interp, items, kwargs.get("key"), kwargs.get("reverse"), "sorted"))


def _b_reversed(interp, args, kwargs):
    items = interp.drain(args[0])
    interp.emit("reorder", what="reversed")
    return AIter(iter(items[::-1]), "reversed")


def _b_range(interp, args, kwargs):
    if all(isinstance(a, int) for a in args):
        r = range(*args)
        if len(r) > 100_000:
            raise BudgetExceeded("range too large")
        return AIter(iter(r), "range")
    interp.emit("alloc", what="range", size=args[-1])
    return fresh_unknown("range(unknown)")


def _b_enumerate(interp, args, kwargs):
    src = interp.get_iter(args[0])
    start = args[1] if len(args) > 1 else kwargs.get("start", 0)

    def gen():
        i = start
        while True:
            ok, v = interp.next_value(src)
            if not ok:
                return
            yield (i, v)
            i += 1

    return AIter(gen(), "enumerate")


def _b_zip(interp, args, kwargs):
    its = [interp.get_iter(a) for a in args]
    strict = interp.truth(kwargs.get("strict", False), "zip-strict")

    def gen():
        if not its:
            return
        while True:
            row = []
            for i, it in enumerate(its):
                ok, v = interp.next_value(it)
                if not ok:
                    if strict:
                        if i > 0:
                            raise interp.exc("ValueError", f"zip() argument {i + 1} is shorter than argument {i}")
                        for j, other in enumerate(its[1:], 2):
                            ok2, _ = interp.next_value(other)
                            if ok2:
                                raise interp.exc("ValueError", f"zip() argument {j} is longer than argument 1")
                    return
                row.append(v)
            yield tuple(row)

    return AIter(gen(), "zip")


def _b_any(interp, args, kwargs):
    for v in interp.drain(args[0]):
        if interp.truth(v, "any"):
            return True
    return False


def _b_all(interp, args, kwargs):
    for v in interp.drain(args[0]):
        if not interp.truth(v, "all"):
            return False
    return True


def _b_minmax(which):
    def f(interp, args, kwargs):
        from . import models_std

        items = list(args) if len(args) > 1 else interp.drain(args[0])
        key = kwargs.get("key")
        if not items:
            if "default" in kwargs:
                return kwargs["default"]
            raise interp.exc("ValueError", f"{which}() arg is an empty sequence")
        keys = [interp.call(key, [x], {}) if key is not None else x for x in items]
        if all(models_std.is_concrete(k_) for k_ in keys):
            try:
                pick = (min if which == "min" else max)(range(len(items)), key=lambda i: keys[i])
            except TypeError as e:
                raise interp.exc("TypeError", str(e))
            return items[pick]
        if len(items) == 1:
            return items[0]
        if all(isinstance(k_, (Obj, tuple)) for k_ in keys) or any(isinstance(k_, SPos) for k_ in keys):
            import ast as _ast

            best = 0
            try:
                for i in range(1, len(items)):
                    r = interp.compare(_ast.Lt, keys[i], keys[best]) if which == "min" else interp.compare(_ast.Gt, keys[i], keys[best])
                    if r is not True and r is not False:
                        raise AnalysisError("undetermined")
                    if r:
                        best = i
                return items[best]
            except AnalysisError:
                pass
        return fresh_unknown(which)

    return f


def _b_bytes(interp, args, kwargs):
    if not args:
        return b""
    v = args[0]
    if isinstance(v, bytes):
        return v
    if isinstance(v, (AList, tuple)) and all(isinstance(x, int) and not isinstance(x, bool) for x in (v.items if isinstance(v, AList) else v)):
        try:
            return bytes(v.items if isinstance(v, AList) else v)
        except ValueError:
            raise interp.exc("ValueError", "bytes must be in range(0, 256)")
    if isinstance(v, ExtObj) and v.kind.startswith("bytes:"):
        return v
    if isinstance(v, (GenObj, AIter)) or (isinstance(v, ExtObj) and v.kind == "dict_view"):
        items = interp.drain(v)
        if all(isinstance(x, int) and not isinstance(x, bool) for x in items):
            try:
                return bytes(items)
            except ValueError:
                raise interp.exc("ValueError", "bytes must be in range(0, 256)")
        raise interp.unsupported("bytes() of abstract items")
    if isinstance(v, str):
        if len(args) > 1 and isinstance(args[1], str):
            return v.encode(args[1])
        raise interp.exc("TypeError", "string argument without an encoding")
    if isinstance(v, int):
        interp.emit("alloc", what="bytes(n)", size=v)
        return bytes(min(v, 1 << 16))
    if isinstance(v, Unknown):
        interp.emit("alloc", what="bytes(n)", size=v)
    return fresh_unknown("bytes()")


def _b_bytearray(interp, args, kwargs):
    if not args:
        return AList([], kind="bytearray")
    v = args[0]
    if isinstance(v, bytes):
        return AList(list(v), kind="bytearray")
    if isinstance(v, AList) and all(isinstance(x, int) for x in v.items):
        return AList(list(v.items), kind="bytearray")
    if isinstance(v, int) and not isinstance(v, bool):
        interp.emit("alloc", what="bytearray(n)", size=v)
        if v > 1 << 16:
            raise interp.unsupported("bytearray of more than 64 KiB")
        return AList([0] * v, kind="bytearray")
    raise interp.unsupported(f"bytearray({v!r})")


def _b_object_setattr(interp, args, kwargs):
    obj, name, val = args
    if isinstance(obj, Obj):
        interp.emit("setattr", obj=obj, attr=name, value=val, shared=obj.shared and interp.init_depth == 0)
        obj.attrs[name] = val
        return None
    raise interp.unsupported("object.__setattr__ on non-object")


def _dc_dataclass(interp, args, kwargs):
    if args and isinstance(args[0], ClassInfo):
        return interp._make_dataclass(args[0], kwargs)
    return ExtObj("dataclass_decorator", dict(kwargs))


def _dc_field(interp, args, kwargs):
    return ExtObj("dataclasses.Field", dict(kwargs))


def _identity_decorator_factory(interp, args, kwargs):
    return ExtRef("jstat.identity_decorator")


def _identity(interp, args, kwargs):
    return args[0] if args else None


def _typing_cast(interp, args, kwargs):
    return args[1]


def _typevar(interp, args, kwargs):
    return ExtRef("typing.TypeVar")


def _enum_auto(interp, args, kwargs):
    return ExtObj("enum.auto")


def _suppress(interp, args, kwargs):
    return ExtObj("contextlib.suppress", {"classes": list(args)})


def _ordereddict(interp, args, kwargs):
    return _b_dict(interp, args, kwargs, kind="OrderedDict")


def _namedtuple(interp, args, kwargs):
    name, fields = args[0], args[1]
    if isinstance(fields, str):
        fields = fields.replace(",", " ").split()
    else:
        fields = list(interp.drain(fields))
    if not isinstance(name, str) or not all(isinstance(f, str) for f in fields):
        raise interp.unsupported("namedtuple with non-constant field names")
    cls = ClassInfo(name, name, interp.site[0] if interp.site else "", None, [ExtRef("builtins.tuple")])
    cls.is_namedtuple = True
    cls.nt_fields = fields
    defaults = kwargs.get("defaults")
    if defaults is not None:
        dv = list(interp.drain(defaults))
        for f_, v in zip(fields[len(fields) - len(dv) :], dv):
            cls.attrs[f_] = v
    cls.mro = [cls, ExtRef("builtins.tuple"), ExtRef("builtins.object")]
    return cls


def _deque(interp, args, kwargs):
    maxlen = kwargs.get("maxlen", args[1] if len(args) > 1 else None)
    src = args[0] if args else ()
    if isinstance(src, Unknown) or isinstance(maxlen, Unknown):
        interp.emit("alloc", what="deque", size=maxlen)
        return fresh_unknown("deque of unknown size")
    items = interp.drain(src)
    if maxlen is not None:
        interp.emit("alloc", what="deque(maxlen)", size=maxlen)
        if isinstance(maxlen, int) and maxlen < 0:
            raise interp.exc("ValueError", "maxlen must be non-negative")
        items = items[len(items) - maxlen :] if maxlen < len(items) else items
    d = AList(list(items), kind="deque", maxlen=maxlen)
    d.shared = interp.init_depth > 0
    return d


def _chain(interp, args, kwargs):
    depth = 1 + max([getattr(a, "chain_depth", 0) for a in args] or [0])
    interp.emit("chain", depth=depth)

    def gen():
        for a in args:
            it = interp.get_iter(a)
            while True:
                ok, v = interp.next_value(it)
                if not ok:
                    break
                yield v

    out = AIter(gen(), "chain")
    out.chain_depth = depth  # type: ignore[attr-defined]
    return out


def _chain_from_iterable(interp, args, kwargs):
    outer = interp.get_iter(args[0])

    def gen():
        while True:
            ok, inner = interp.next_value(outer)
            if not ok:
                return
            it_ = interp.get_iter(inner)
            while True:
                ok2, v = interp.next_value(it_)
                if not ok2:
                    break
                yield v

    return AIter(gen(), "chain")


def _singledispatch(interp, args, kwargs):
    sd = SingleDispatch(args[0])
    sd.shared = interp.init_depth > 0
    return sd


def _contextvar(interp, args, kwargs):
    return ExtObj("contextvars.ContextVar", {"name": args[0] if args else "", "value": kwargs.get("default", MISSING), "sets": []})


def _b_sum(interp, args, kwargs):
    total: Any = args[1] if len(args) > 1 else kwargs.get("start", 0)
    for v in interp.drain(args[0]):
        total = interp.binop(__import__("ast").Add, total, v)
    return total


def _b_map(interp, args, kwargs):
    fn = args[0]
    its = [interp.get_iter(a) for a in args[1:]]

    def gen():
        while True:
            row = []
            for it_ in its:
                ok, v = interp.next_value(it_)
                if not ok:
                    return
                row.append(v)
            try:
                out = interp.call(fn, row, {})
            except PyRaise as pr:
                if interp.exc_class_name(pr.exc) == "StopIteration":
                    interp.emit("swallowed_stopiteration", where="map")
                    return  # map.__next__ lets it through: the consumer sees a normal end of iteration
                raise
            yield out

    return AIter(gen(), "map")


def _b_filter(interp, args, kwargs):
    fn, src = args[0], interp.get_iter(args[1])

    def gen():
        while True:
            ok, v = interp.next_value(src)
            if not ok:
                return
            try:
                keep = interp.truth(v, "filter") if fn is None else interp.truth(interp.call(fn, [v], {}), "filter")
            except PyRaise as pr:
                if interp.exc_class_name(pr.exc) == "StopIteration":
                    interp.emit("swallowed_stopiteration", where="filter")
                    return
                raise
            if keep:
                yield v

    return AIter(gen(), "filter")


def _b_abs(interp, args, kwargs):
    v = args[0]
    return abs(v) if isinstance(v, (int, float)) else fresh_unknown("abs")


def _b_callable(interp, args, kwargs):
    return isinstance(args[0], (FuncRef, BoundMethod, ClassInfo, ExtRef, ExtMethod, MsgClass, SingleDispatch))


def _b_chr(interp, args, kwargs):
    return chr(args[0]) if isinstance(args[0], int) else fresh_unknown("chr")


def _b_ord(interp, args, kwargs):
    return ord(args[0]) if isinstance(args[0], str) and len(args[0]) == 1 else fresh_unknown("ord")


def _mark_cached(fn: Any) -> Any:
    fn.cached = True
    return fn


def _partial(interp, args, kwargs):
    return ExtObj("functools.partial", {"func": args[0], "args": tuple(args[1:]), "kwargs": dict(kwargs)})


def _islice(interp, args, kwargs):
    src = interp.get_iter(args[0])
    rest = [a for a in args[1:]]
    if len(rest) == 1:
        start, stop, step = 0, rest[0], 1
    else:
        start, stop, step = (rest + [None, None])[0] or 0, rest[1], (rest[2] if len(rest) > 2 and rest[2] else 1)
    if not all(isinstance(x, int) or x is None for x in (start, stop, step)):
        raise interp.unsupported("islice with symbolic bounds")

    def gen():
        i = 0
        nxt = start
        while stop is None or i < stop:
            ok, v = interp.next_value(src)
            if not ok:
                return
            if i == nxt:
                yield v
                nxt += step
            i += 1

    return AIter(gen(), "islice")


def _groupby(interp, args, kwargs):
    src = interp.get_iter(args[0])
    keyfn = kwargs.get("key", args[1] if len(args) > 1 else None)

    def gen():
        ok, cur = interp.next_value(src)
        while ok:
            k0 = interp.call(keyfn, [cur], {}) if keyfn is not None else cur
            group = [cur]
            while True:
                ok, cur = interp.next_value(src)
                if not ok:
                    break
                k1 = interp.call(keyfn, [cur], {}) if keyfn is not None else cur
                if not interp.truth(interp.eq(k0, k1), "groupby-key"):
                    break
                group.append(cur)
            yield (k0, AIter(iter(group), "group"))

    return AIter(gen(), "groupby")


def _defaultdict(interp, args, kwargs):
    d = ADict([], kind="defaultdict")
    d.shared = interp.init_depth > 0
    d.factory = args[0] if args else None  # type: ignore[attr-defined]
    return d


def _copy(interp, args, kwargs):
    v = args[0]
    if isinstance(v, AList):
        return AList(list(v.items), kind=v.kind, maxlen=v.maxlen)
    if isinstance(v, ADict):
        return ADict([[a, b] for a, b in v.pairs], kind=v.kind)
    if isinstance(v, Obj):
        return Obj(v.cls, dict(v.attrs), v.tuple_items)
    if isinstance(v, Msg):
        return copy_msg(interp, v)
    return v


def _dc_replace(interp, args, kwargs):
    v = args[0]
    if not isinstance(v, Obj):
        raise interp.unsupported("dataclasses.replace on a non-dataclass")
    vals = {n: v.attrs.get(n) for n, _d in interp.dataclass_fields(v.cls)}
    vals.update(kwargs)
    return interp.instantiate(v.cls, [], vals)


def _re_compile(interp, args, kwargs):
    interp.emit("regex", pattern=args[0] if args else None, op="compile")
    return ExtObj("re.Pattern", {"pattern": args[0] if args else None})


def _re_result(interp, op: str, pattern: Any, text: Any) -> Any:
    """Constant pattern on a short constant string: the real verdict.  On symbolic text the match is ASSUMED (the
    symbolic strings stand for well-formed data); the assumption is recorded as an event."""
    import re as _re

    if isinstance(pattern, str) and isinstance(text, str) and len(text) <= 64:
        try:
            m = getattr(_re, op)(pattern, text)
        except _re.error:
            raise interp.exc("ValueError", "bad regular expression")
        return ExtObj("re.Match", {"text": text, "m": m}) if m else None
    interp.emit("assumed", what=f"re.{op}({pattern!r}) matches the symbolic string {text!r}")
    return ExtObj("re.Match", {"text": text})


def _re_call(op):
    def f(interp, args, kwargs):
        interp.emit("regex", pattern=args[0] if args else None, op=op)
        if op in ("sub", "subn", "split", "findall", "escape"):
            from . import models_std
            import re as _re

            if all(models_std.is_concrete(a) for a in args) and all(models_std.is_concrete(v) for v in kwargs.values()):
                return models_std.host_call(interp, getattr(_re, op), args, kwargs)
            return fresh_unknown(f"re.{op}")
        return _re_result(interp, op, args[0] if args else None, args[1] if len(args) > 1 else None)

    return f


def _logger(interp, args, kwargs):
    return ExtObj("logger", {})


def _noop(interp, args, kwargs):
    return None


def _lock(interp, args, kwargs):
    return ExtObj("lock", {})


def _nullcontext(interp, args, kwargs):
    return ExtObj("nullcontext", {"value": args[0] if args else None})


def _globals(interp, args, kwargs):
    return ExtObj("globals-dict", {"module": interp.site[0] if interp.site else None})


def _vars(interp, args, kwargs):
    return ExtObj("vars-dict")


def _print(interp, args, kwargs):
    interp.emit("ext", name="print", args=args, kwargs=kwargs)


# -- protobuf / io


def _find_stream(v: Any, depth: int = 0) -> Any:
    if isinstance(v, ExtObj) and v.kind in ("io.stream", "io.BufferedReader"):
        return v
    if isinstance(v, Obj) and depth < 3:
        for x in v.attrs.values():
            r = _find_stream(x, depth + 1)
            if r is not None:
                return r
    return None


def _parse_length_prefixed(interp, args, kwargs):
    cls, inp = args[0], args[1]
    interp.emit("io", method="parse_length_prefixed", recv=inp)
    if isinstance(inp, ExtObj) and inp.kind in ("io.stream", "io.BufferedReader"):
        if inp.kind == "io.BufferedReader":
            if inp.attrs.get("detached"):
                raise interp.exc("ValueError", "raw stream has been detached")
            inp.attrs["did_read"] = True
        src = stream_root(inp)
        offset = src.attrs.get("pos", 0)
        if offset != src.attrs.get("start", 0):
            interp.emit("misaligned", offset=offset if not isinstance(offset, int) else offset - src.attrs.get("start", 0))
        ok, fr = _next_frame(interp, src)
        interp.emit("frame_pull", got=ok, frame=fr)
        if not ok:
            return None
        return fr
    if isinstance(inp, Obj) and _find_stream(inp) is not None:
        # a reader object of the repository: protobuf reads the varint length byte-wise, then the body, through its read()
        src = stream_root(_find_stream(inp))
        src.attrs["own_reader"] = True
        first = interp.call(interp.getattr(inp, "read"), [1], {})
        if not interp.truth(first, "length-prefix byte"):
            return None
        if isinstance(first, ExtObj) and first.kind == "bytes:chunk" and first.attrs.get("data") == b"\x00":
            return src.attrs.pop("empty_frame_body")
        body = interp.call(interp.getattr(inp, "read"), [5], {})
        if isinstance(body, ExtObj) and body.kind == "bytes:chunk":
            interp.emit("parse_input", exact=bool(body.attrs.get("exact")), via=body.attrs.get("via"), n=body.attrs.get("n"))
        elif not interp.truth(body, "frame body"):
            raise interp.exc("DecodeError", "Truncated message.")
        ok, fr = _next_frame(interp, src)
        interp.emit("frame_pull", got=ok, frame=fr, own_reader=True)
        if not ok:
            raise interp.exc("DecodeError", "Truncated message.")
        return fr
    raise AnalysisError(f"parse_length_prefixed on {inp!r}: no model for this kind of input object")


def _parse(interp, args, kwargs):
    cls, data = args[0], args[1]
    interp.emit("io", method="parse", recv=data)
    if isinstance(data, ExtObj) and data.kind == "bytes:all":
        src = data.attrs["stream"]
        if not data.attrs.get("from_start", True):
            interp.emit("misaligned", offset=data.attrs.get("read_at"))
        frames = src.attrs["frames"]
        ok, fr = interp.next_value(frames)
        interp.emit("frame_pull", got=ok, frame=fr, whole=True)
        if not ok:
            return new_msg(interp, cls.mtype, [], {})
        return fr
    if isinstance(data, bytes) and not data:
        return new_msg(interp, cls.mtype, [], {})
    if isinstance(data, ExtObj) and data.kind == "bytes:header" and data.attrs.get("data") == b"":
        return new_msg(interp, cls.mtype, [], {})  # zero bytes parse to an empty message
    if isinstance(data, ExtObj) and data.kind == "bytes:chunk" and data.attrs.get("data") == b"":
        fr = data.attrs.get("frame")
        return fr if fr is not None else new_msg(interp, cls.mtype, [], {})
    if isinstance(data, ExtObj) and data.kind in ("bytes:chunk", "bytes:header") and isinstance(data.attrs.get("stream"), ExtObj):
        # a frame body read by pyjelly's own code (not by protobuf's length-prefixed reader)
        src = data.attrs["stream"]
        interp.emit("parse_input", exact=bool(data.attrs.get("exact")), via=data.attrs.get("via"), n=data.attrs.get("n"))
        ok, fr = _next_frame(interp, src)
        interp.emit("frame_pull", got=ok, frame=fr, own_reader=True)
        if not ok:
            raise interp.exc("DecodeError", "Error parsing message")
        return fr
    raise AnalysisError(f"protobuf parse() of {data!r}: the analysis cannot tell which bytes these are")


def _msg_has_content(m: Msg) -> bool:
    for k, v in m.fields.items():
        if isinstance(v, AList):
            if v.items:
                return True
        elif isinstance(v, Msg):
            if k in m.present:
                return True
        elif isinstance(v, ADict):
            if v.pairs:
                return True
        elif v not in (0, "", b"", False, None):
            return True
    return False


def _msg_content3(interp, m: Msg) -> bool | None:
    """proto3: a message serialises to zero bytes iff nothing is set.  True / False / None (depends on a string that may be empty)."""
    from .freeze import ONEOF_FIELDS

    oneof = ONEOF_FIELDS.get(m.mtype, ())
    maybe = False
    for k, v in m.fields.items():
        if k in oneof and k in m.present:
            return True  # members of a oneof have presence: written even when empty
        if isinstance(v, AList):
            if v.items:
                return True
        elif isinstance(v, Msg):
            if k in m.present:
                return True
        elif isinstance(v, ADict):
            if v.pairs:
                return True
        elif isinstance(v, SStr):
            if any(isinstance(p, str) and p or (isinstance(p, Atom) and p.nonempty is True) for p in v.parts):
                return True
            if v.parts:
                maybe = True
        elif isinstance(v, Unknown):
            if v.positive:
                return True
            maybe = True
        elif isinstance(v, ExtObj):
            return True
        elif v not in (0, "", b"", False, None):
            return True
    return None if maybe else False


def _frames_remaining(interp, root: ExtObj) -> bool:
    if "peeked" in root.attrs:
        return True
    ok, fr = interp.next_value(root.attrs["frames"])
    if ok:
        root.attrs["peeked"] = fr
    return ok


def _next_frame(interp, root: ExtObj):
    if "peeked" in root.attrs:
        return True, root.attrs.pop("peeked")
    return interp.next_value(root.attrs["frames"])


def _serialize_length_prefixed(interp, args, kwargs):
    frame, out = args[0], args[1]
    interp.emit("write", mode="delimited", frame=frame, out=out)
    if isinstance(out, ExtObj) and out.kind == "io.out":
        out.attrs["writes"].append(("delimited", frame))
    elif isinstance(out, ExtObj) and out.kind == "io.BufferedWriter":
        # smaller than the writer's buffer: stays there until flush/close/detach (worst case allowed by io.BufferedWriter)
        _bw_check(interp, out)
        out.attrs["pending"].append(("delimited", frame))
    elif isinstance(out, Obj):
        # a writer object of the program: protobuf calls its write() (length prefix, then payload)
        payload = ExtObj("bytes:frame", {"msg": copy_msg(interp, frame), "deterministic": None, "size": getattr(interp, "forced_frame_sizes", {}).get(frame.uid), "length_prefixed": True})
        interp.call(interp.getattr(out, "write"), [payload], {})
    elif not isinstance(out, Unknown):
        raise interp.unsupported(f"serialize_length_prefixed to {out!r}")


def _bw_check(interp, o: ExtObj) -> None:
    if o.attrs.get("detached"):
        raise interp.exc("ValueError", "raw stream has been detached")
    if o.attrs.get("closed"):
        raise interp.exc("ValueError", "write to closed file")


def _bw_flush(o: ExtObj) -> None:
    raw = o.attrs["raw"]
    if isinstance(raw, ExtObj) and raw.kind == "io.BufferedWriter":
        raw.attrs["pending"].extend(o.attrs["pending"])
    else:
        raw.attrs["writes"].extend(o.attrs["pending"])
    o.attrs["pending"].clear()


def _buffered_writer(interp, args, kwargs):
    raw = args[0] if args else kwargs.get("raw")
    if not (isinstance(raw, ExtObj) and raw.kind in ("io.out", "io.BufferedWriter")):
        raise interp.unsupported(f"io.BufferedWriter around {raw!r}")
    interp.emit("wrap_out", raw=raw)
    return ExtObj("io.BufferedWriter", {"raw": raw, "pending": [], "pyclass": "BufferedWriter"})


def stream_root(inp: ExtObj) -> ExtObj:
    while inp.kind == "io.BufferedReader":
        inp = inp.attrs["raw"]
    return inp


def _tuple_new(interp, args, kwargs):
    cls, items = args[0], (args[1] if len(args) > 1 else ())
    vals = tuple(interp.unpack_values(items))
    if isinstance(cls, ClassInfo):
        o = Obj(cls, {}, vals)
        o.shared = interp.init_depth > 0
        return o
    return vals


def _bytesio(interp, args, kwargs):
    data = args[0] if args else b""
    if isinstance(data, ExtObj) and data.kind == "bytes:all":
        src = data.attrs["stream"]
        # the whole input was read into memory: every remaining frame is materialised now (a torn source raises here)
        interp.emit("materialise", what="io.BytesIO(inp.read())", source=repr(src))
        frames = interp.drain(src.attrs["frames"])
        return ExtObj("io.stream", {"frames": AIter(iter(frames), "frames"), "header": src.attrs["header"], "seekable": True, "buffered": True, "pos": 0, "label": "bytesio", "reads": []})
    if isinstance(data, ExtObj) and data.kind == "bytes:chunk" and isinstance(data.attrs.get("stream"), ExtObj):
        # everything pyjelly itself read so far from the input, re-wrapped in memory: the abstract frames are those
        # of the original source (whether all of them were really read is judged from the read events)
        src = data.attrs["stream"]
        interp.emit("consume_chunks", stream=src, what="io.BytesIO(bytes read from the input)")
        return ExtObj("io.stream", {"frames": src.attrs["frames"], "header": (src.attrs["header"] or b"")[src.attrs.get("start", 0) :], "seekable": True, "buffered": True, "pos": 0, "start": 0, "label": "bytesio-of-chunks", "reads": [], "peeked_from": src})
    if isinstance(data, bytes) or (isinstance(data, AList) and data.kind == "bytearray"):
        import io as _io

        return ExtObj("io.host", {"obj": _io.BytesIO(bytes(data.items) if isinstance(data, AList) else data), "pyclass": "BytesIO"})
    raise interp.unsupported(f"io.BytesIO({data!r})")


def _exitstack(interp, args, kwargs):
    return ExtObj("contextlib.ExitStack", {"stack": []})


def _exitstack_method(interp, o: ExtObj, name: str, args: list, kwargs: dict) -> Any:
    if name == "enter_context":
        entered, exit_fn = interp.cm_enter(args[0])
        o.attrs["stack"].append(exit_fn)
        return entered
    if name == "callback":
        fn, cargs, ckw = args[0], list(args[1:]), dict(kwargs)

        def run(_pr: Any) -> bool:
            interp.call(fn, cargs, ckw)
            return False

        o.attrs["stack"].append(run)
        return fn
    if name == "push":
        cm = args[0]
        if isinstance(cm, Obj) and interp.lookup_class_attr(cm.cls, "__exit__") is not MISSING:
            def run_exit(pr: Any) -> bool:
                if pr is None:
                    interp.call(interp.getattr(cm, "__exit__"), [None, None, None], {})
                    return False
                e = pr.exc
                etype: Any = e.cls if isinstance(e, Obj) else ExtRef("builtins." + interp.exc_class_name(e))
                return interp.truth(interp.call(interp.getattr(cm, "__exit__"), [etype, e, None], {}), "__exit__")

            o.attrs["stack"].append(run_exit)
            return cm
        raise interp.unsupported("ExitStack.push of a plain callable")
    if name == "close":
        _e, exit_fn = interp.cm_enter(o)
        exit_fn(None)
        return None
    if name == "pop_all":
        new = ExtObj("contextlib.ExitStack", {"stack": list(o.attrs["stack"])})
        o.attrs["stack"].clear()
        return new
    if name in ("__enter__",):
        return o
    raise interp.unsupported(f"ExitStack method {name}")


def _hostio_method(interp, o: ExtObj, name: str, args: list, kwargs: dict) -> Any:
    """io.BytesIO / io.BufferedReader over *concrete* bytes: the host object itself (path-local, deterministic)."""
    from . import models_std

    host = o.attrs["obj"]
    if name in ("__enter__",):
        return o
    if name in ("raw", "detach"):
        raise interp.unsupported(f"{name} on a concrete in-memory stream")
    plain = []
    for a in args:
        if isinstance(a, AList) and a.kind == "bytearray":
            if name == "readinto":
                buf = bytearray(a.items)
                n = host.readinto(buf)
                a.items[:] = list(buf)
                return n
            plain.append(bytes(a.items))
        elif models_std.is_concrete(a):
            plain.append(a)
        else:
            raise interp.unsupported(f"{name}({a!r}) on a concrete in-memory stream")
    m = getattr(host, name, None)
    if m is None or name.startswith("_"):
        raise interp.exc("AttributeError", f"'{type(host).__name__}' object has no attribute '{name}'")
    interp.emit("io", method=name, recv=o, n=plain[0] if plain else None, exact=True, wrapper=False, raw_after_wrap=False)
    return models_std.host_call(interp, m, plain, {k_: v_ for k_, v_ in kwargs.items()})


def _buffered_reader(interp, args, kwargs):
    if args and isinstance(args[0], ExtObj) and args[0].kind == "io.host":
        import io as _io

        return ExtObj("io.host", {"obj": _io.BufferedReader(args[0].attrs["obj"]), "pyclass": "BufferedReader"})
    raw = args[0]
    interp.emit("wrap", raw=raw)
    if isinstance(raw, ExtObj):
        raw.attrs["wrapped"] = True
    return ExtObj("io.BufferedReader", {"raw": raw})


_EXT = {
    "builtins.isinstance": _b_isinstance,
    "builtins.issubclass": _b_issubclass,
    "builtins.len": _b_len,
    "builtins.next": _b_next,
    "builtins.iter": _b_iter,
    "builtins.getattr": _b_getattr,
    "builtins.hasattr": _b_hasattr,
    "builtins.setattr": _b_setattr,
    "builtins.type": _b_type,
    "builtins.str": _b_str,
    "builtins.repr": _b_repr,
    "builtins.bool": _b_bool,
    "builtins.int": _b_int,
    "builtins.hash": _b_hash,
    "builtins.id": _b_id,
    "builtins.list": _b_list,
    "builtins.tuple": _b_tuple,
    "builtins.set": _b_set,
    "builtins.frozenset": lambda i, a, k: _b_set(i, a, k, frozen=True),
    "builtins.dict": _b_dict,
    "builtins.sorted": _b_sorted,
    "builtins.reversed": _b_reversed,
    "builtins.range": _b_range,
    "builtins.enumerate": _b_enumerate,
    "builtins.zip": _b_zip,
    "builtins.any": _b_any,
    "builtins.all": _b_all,
    "builtins.min": _b_minmax("min"),
    "builtins.max": _b_minmax("max"),
    "builtins.bytes": _b_bytes,
    "builtins.bytearray": _b_bytearray,
    "builtins.print": _print,
    "builtins.globals": _globals,
    "builtins.vars": _vars,
    "builtins.object.__setattr__": _b_object_setattr,
    "builtins.object": lambda i, a, k: ExtObj("builtins.object"),
    "dataclasses.dataclass": _dc_dataclass,
    "dataclasses.field": _dc_field,
    "mypy_extensions.mypyc_attr": _identity_decorator_factory,
    "jstat.identity_decorator": _identity,
    "typing.cast": _typing_cast,
    "typing.TypeVar": _typevar,
    "typing_extensions.TypeVar": _typevar,
    "typing.override": _identity,
    "typing.final": _identity,
    "abc.abstractmethod": _identity,
    "enum.auto": _enum_auto,
    "contextlib.suppress": _suppress,
    "collections.OrderedDict": _ordereddict,
    "collections.deque": _deque,
    "collections.namedtuple": _namedtuple,
    "weakref.WeakValueDictionary": lambda i, a, k: _b_dict(i, a, k),  # weakness (entries vanish with their values) is not modelled
    "weakref.WeakKeyDictionary": lambda i, a, k: _b_dict(i, a, k),
    "weakref.WeakSet": lambda i, a, k: _b_set(i, a, k),
    "itertools.chain": _chain,
    "itertools.chain.from_iterable": _chain_from_iterable,
    "functools.singledispatch": _singledispatch,
    "contextvars.ContextVar": _contextvar,
    "google.protobuf.proto.parse_length_prefixed": _parse_length_prefixed,
    "google.protobuf.proto.parse": _parse,
    "google.protobuf.proto.serialize_length_prefixed": _serialize_length_prefixed,
    "io.BufferedReader": _buffered_reader,
    "contextlib.ExitStack": _exitstack,
    "io.BufferedWriter": _buffered_writer,
    "io.BytesIO": _bytesio,
    "builtins.tuple.__new__": _tuple_new,
    "builtins.sum": _b_sum,
    "builtins.map": _b_map,
    "builtins.filter": _b_filter,
    "builtins.abs": _b_abs,
    "builtins.chr": _b_chr,
    "builtins.ord": _b_ord,
    "functools.partial": _partial,
    "functools.cache": lambda i, a, k: _mark_cached(a[0]) if a and isinstance(a[0], FuncRef) else ExtObj("cache_decorator"),
    "functools.lru_cache": lambda i, a, k: (_mark_cached(a[0]) if a and isinstance(a[0], FuncRef) else ExtObj("cache_decorator")),
    "itertools.islice": _islice,
    "itertools.groupby": _groupby,
    "collections.defaultdict": _defaultdict,
    "copy.copy": _copy,
    "dataclasses.replace": _dc_replace,
    "re.compile": _re_compile,
    "re.escape": _re_call("escape"),
    "re.split": _re_call("split"),
    "re.sub": _re_call("sub"),
    "re.subn": _re_call("subn"),
    "re.findall": _re_call("findall"),
    "re.match": _re_call("match"),
    "re.fullmatch": _re_call("fullmatch"),
    "re.search": _re_call("search"),
    "re.sub": _re_call("sub"),
    "logging.getLogger": _logger,
    "warnings.warn": _noop,
    "threading.Lock": _lock,
    "threading.RLock": _lock,
    "contextlib.nullcontext": _nullcontext,
    "mimetypes.add_type": lambda i, a, k: i.emit("ext_write", target="mimetypes.add_type", key=a[1] if len(a) > 1 else None, value=a[0] if a else None),
}

EXT_CONSTANTS = {
    "io.DEFAULT_BUFFER_SIZE": 8192,
    "io.SEEK_CUR": 1,
    "io.SEEK_SET": 0,
    "io.SEEK_END": 2,
    "os.SEEK_CUR": 1,
    "os.SEEK_SET": 0,
    "os.SEEK_END": 2,
    "typing.TYPE_CHECKING": False,
    "builtins.NotImplemented": ExtObj("NotImplemented"),
}


# ----------------------------------------------------------------------------- attribute access on models


def ext_entity(interp, full: str) -> Any:
    """An external name: a modelled constant, or a reference to the external entity."""
    if full in EXT_CONSTANTS:
        return EXT_CONSTANTS[full]
    if full.startswith("rdflib"):
        from . import models_rdflib

        r = models_rdflib.constant(interp, full)
        if r is not MISSING:
            return r
    return ExtRef(full)


def getattr_ext(interp, obj: Any, name: str) -> Any:
    if isinstance(obj, ExtRef):
        if name in ("__name__", "__qualname__"):
            return obj.name.split(".")[-1]
        if name == "__module__":
            return obj.name.rsplit(".", 1)[0]
        full = f"{obj.name}.{name}"
        return ext_entity(interp, CANON.get(full, full))
    if isinstance(obj, Msg):
        return msg_getattr(interp, obj, name)
    if isinstance(obj, MsgClass):
        if name == "__name__":
            return obj.mtype
        return ExtMethod(obj, "msgclass", name)
    if isinstance(obj, EnumTypeRef):
        if name in obj.values:
            return obj.values[name]
        if name in ("Name", "Value", "keys", "values", "items"):
            return ExtMethod(obj, "enumtype", name)
        raise interp.exc("AttributeError", f"enum {obj.name} has no member {name}")
    def _known(host_type: type) -> None:
        if not hasattr(host_type, name):
            raise interp.exc("AttributeError", f"'{host_type.__name__}' object has no attribute '{name}'")

    if isinstance(obj, AList):
        import collections

        if name not in ("add", "MergeFrom"):  # protobuf's repeated containers are modelled as lists
            _known({"list": list, "deque": collections.deque, "bytearray": bytearray}.get(obj.kind, list))
        return ExtMethod(obj, "list", name)
    if isinstance(obj, ADict):
        import collections

        _known({"dict": dict, "OrderedDict": collections.OrderedDict, "defaultdict": collections.defaultdict, "Counter": collections.Counter}.get(obj.kind, dict))
        return ExtMethod(obj, "dict", name)
    if isinstance(obj, ASet):
        _known(frozenset if obj.frozen else set)
        return ExtMethod(obj, "set", name)
    if isinstance(obj, (str, SStr)):
        _known(str)
        return ExtMethod(obj, "str", name)
    if isinstance(obj, bytes):
        _known(bytes)
        return ExtMethod(obj, "bytes", name)
    if isinstance(obj, tuple):
        _known(tuple)
        return ExtMethod(obj, "tuple", name)
    if isinstance(obj, (int, float)) and not isinstance(obj, EnumInt):
        if name in ("real", "imag", "numerator", "denominator"):
            return getattr(obj, name)
        return ExtMethod(obj, "number", name)
    if isinstance(obj, (GenObj, AIter, SymIter)):
        if name in ("__next__", "__iter__", "close", "send", "throw"):
            return ExtMethod(obj, "iterator", name)
        raise interp.exc("AttributeError", f"'generator' object has no attribute '{name}'")
    if isinstance(obj, FuncRef):
        if name in ("setter", "getter") and obj.kind == "property":
            return ExtMethod(obj, "property", name)
        if name in ("cache_clear", "cache_info") and obj.cached:
            return ExtMethod(obj, "cached_fn", name)
        w = getattr(obj, "wrapped", None)
        if w is not None and name in ("__name__", "__qualname__", "__doc__", "__wrapped__"):
            return w if name == "__wrapped__" else interp.getattr(w, name)
        if name == "__name__":
            return obj.info.name
        if name == "__qualname__":
            return obj.info.qualname
        if name == "__doc__":
            import ast as _ast

            return _ast.get_docstring(obj.info.node) if not isinstance(obj.info.node, _ast.Lambda) else None
        if name == "__module__":
            return obj.info.module
        if name.startswith("__") and name.endswith("__"):
            raise interp.unsupported(f"special attribute {name} of a function")
        raise interp.exc("AttributeError", name)
    if isinstance(obj, BoundMethod):
        if name == "__self__":
            return obj.self_obj
        if name == "__func__":
            return obj.func
        raise interp.exc("AttributeError", name)
    if isinstance(obj, ExtObj):
        if obj.kind.startswith("exc:"):
            if name == "args":
                return obj.attrs.get("args", ())
            if name in ("__cause__", "__context__", "__traceback__"):
                return obj.attrs.get(name)
            a_ = obj.attrs.get("args", ())
            if name == "value" and obj.kind == "exc:StopIteration":
                return a_[0] if a_ else None
            if name in ("errno", "strerror", "filename") and obj.kind[4:] in ("OSError", "IOError", "FileNotFoundError", "PermissionError", "BlockingIOError", "BrokenPipeError", "ConnectionError", "TimeoutError", "UnsupportedOperation"):
                idx = {"errno": 0, "strerror": 1, "filename": 2}[name]
                return a_[idx] if len(a_) > max(idx, 1) else None
            if name in ("with_traceback", "add_note"):
                return ExtMethod(obj, "exc", name)
            if name == "__class__":
                return ExtRef("builtins." + obj.kind[4:])
            if name in obj.attrs:
                return obj.attrs[name]
            raise interp.exc("AttributeError", name)
        if obj.kind == "dataclasses.Field" and name in obj.attrs:
            return obj.attrs[name]
        if obj.kind in ("contextlib.ExitStack", "io.host", "collections.ChainMap", "re.Match"):
            if obj.kind == "collections.ChainMap" and name == "maps":
                return obj.attrs["maps"]
            return ExtMethod(obj, obj.kind, name)
        if obj.kind.startswith("rdflib"):
            from . import models_rdflib

            return models_rdflib.getattr_(interp, obj, name)
        if obj.kind == "io.stream" and name in ("peek", "raw", "detach"):
            raise interp.exc("AttributeError", f"'_io.BytesIO' object has no attribute '{name}'")
        if obj.kind == "io.BufferedReader" and name == "raw":
            return obj.attrs["raw"]
        if obj.kind == "io.BufferedWriter" and name == "raw":
            return obj.attrs["raw"]
        if obj.kind in ("io.stream", "io.BufferedReader", "io.out", "io.BufferedWriter", "contextvars.ContextVar", "bytes:frame", "bytes:all", "bytes:header", "bytes:chunk"):
            return ExtMethod(obj, obj.kind, name)
        if obj.kind == "logger":
            return ExtMethod(obj, "logger", name)
        if obj.kind == "re.Pattern":
            return ExtMethod(obj, "re.Pattern", name)
        if obj.kind == "lock":
            return ExtMethod(obj, "lock", name)
        if obj.kind == "functools.partial":
            return ExtMethod(obj, "partial", name)
        if name in obj.attrs:
            return obj.attrs[name]
        raise interp.exc("AttributeError", f"{obj.kind} has no attribute {name}")
    if isinstance(obj, Unknown):
        return Unknown(("attr", obj.key, name), f"{obj!r}.{name}")
    if obj is None:
        raise interp.exc("AttributeError", f"'NoneType' object has no attribute '{name}'")
    if isinstance(obj, (int, float)):
        raise interp.exc("AttributeError", f"'{type(obj).__name__}' object has no attribute '{name}'")
    raise interp.unsupported(f"attribute {name} of {obj!r}")


def setattr_ext(interp, obj: Any, name: str, val: Any) -> None:
    if isinstance(obj, Msg):
        msg_setattr(interp, obj, name, val)
        return
    if isinstance(obj, ExtObj):
        interp.emit("setattr", obj=obj, attr=name, value=val, shared=obj.shared and interp.init_depth == 0)
        obj.attrs[name] = val
        return
    if isinstance(obj, Unknown):
        interp.emit("ext", name="setattr-unknown", recv=repr(obj), attr=name)
        return
    if isinstance(obj, ExtRef):
        interp.emit("ext_write", target=obj.name, attr=name, value=val)
        return
    raise interp.exc("AttributeError", f"cannot set attribute {name} on {obj!r}")


# ----------------------------------------------------------------------------- protobuf messages


def _mdesc(interp, mtype: str):
    md = interp.schema.messages.get(mtype)
    if md is None:
        raise AnalysisError(f"unknown message type {mtype}")
    return md


def copy_msg(interp, m: Msg, parent: Any = None) -> Msg:
    out = Msg(m.mtype, {}, set(m.present), parent)
    md = _mdesc(interp, m.mtype)
    for k, v in m.fields.items():
        fd = md.fields[k]
        if isinstance(v, Msg):
            if k in m.present:
                out.fields[k] = copy_msg(interp, v, (out, k))
        elif isinstance(v, AList):
            out.fields[k] = AList([copy_msg(interp, x) if isinstance(x, Msg) else x for x in v.items])
        elif isinstance(v, ADict):
            out.fields[k] = ADict([[a, b] for a, b in v.pairs])
        else:
            out.fields[k] = v
    return out


def _coerce_scalar(val: Any) -> Any:
    """str subclasses of modelled libraries (rdflib URIRef/BNode/Literal) are accepted by protobuf as str."""
    if isinstance(val, ExtObj) and val.kind in _STR_LIKE_KINDS:
        return val.attrs["value"] if "value" in val.attrs else val.attrs["lex"]
    return val


def _check_scalar(interp, fd, val: Any) -> None:
    from .schema import T_BOOL, T_BYTES, T_STRING

    if val is None:
        raise interp.exc("TypeError", f"None is not a valid value for field {fd.name}")
    if isinstance(val, Unknown):
        return
    if fd.type == T_STRING:
        if not is_strlike(val):
            raise interp.exc("TypeError", f"bad argument type for string field {fd.name}: {val!r}")
    elif fd.type == T_BYTES:
        if not isinstance(val, (bytes, ExtObj)):
            raise interp.exc("TypeError", f"bad argument type for bytes field {fd.name}")
    elif fd.type == T_BOOL:
        if not isinstance(val, (bool, int)):
            raise interp.exc("TypeError", f"bad argument type for bool field {fd.name}")
    else:
        if isinstance(val, bool):
            return
        if not isinstance(val, int):
            raise interp.exc("TypeError", f"bad argument type for integer field {fd.name}: {val!r}")
        if fd.type == 13 and (val < 0 or val > 0xFFFFFFFF):
            raise interp.exc("ValueError", f"value out of range for uint32 field {fd.name}: {val}")


def _mark_present(interp, m: Msg) -> None:
    cur = m
    while cur.parent is not None:
        p, fname = cur.parent
        if fname in p.present and p.fields.get(fname) is cur:
            pass
        _set_oneof(interp, p, fname)
        p.fields[fname] = cur
        p.present.add(fname)
        cur = p


def _set_oneof(interp, m: Msg, fname: str) -> None:
    md = _mdesc(interp, m.mtype)
    fd = md.fields[fname]
    if fd.oneof:
        for other in md.oneofs[fd.oneof]:
            if other != fname:
                m.present.discard(other)
                m.fields.pop(other, None)


def new_msg(interp, mtype: str, args: list, kwargs: dict) -> Msg:
    if args:
        raise interp.exc("TypeError", "protobuf message constructors take keyword arguments only")
    md = _mdesc(interp, mtype)
    m = Msg(mtype)
    m.shared = interp.init_depth > 0
    interp.emit("new_msg", mtype=mtype, uid=m.uid)
    for k, v in kwargs.items():
        fd = md.fields.get(k)
        if fd is None:
            raise interp.exc("ValueError", f"Protocol message {mtype} has no \"{k}\" field")
        if v is None:
            continue
        if fd.is_map:
            m.fields[k] = v if isinstance(v, ADict) else ADict([])
        elif fd.repeated:
            items = interp.drain(v)
            out = []
            for x in items:
                if fd.is_message:
                    if not (isinstance(x, Msg) and x.mtype == fd.type_name):
                        raise interp.exc("TypeError", f"repeated field {k} expects {fd.type_name}, got {x!r}")
                    out.append(copy_msg(interp, x))
                else:
                    out.append(x)
            m.fields[k] = AList(out)
        elif fd.is_message:
            if not (isinstance(v, Msg) and v.mtype == fd.type_name):
                raise interp.exc("TypeError", f"field {k} expects {fd.type_name}, got {v!r}")
            _set_oneof(interp, m, k)
            m.fields[k] = copy_msg(interp, v, (m, k))
            m.present.add(k)
        else:
            v = _coerce_scalar(v)
            _check_scalar(interp, fd, v)
            _set_oneof(interp, m, k)
            m.fields[k] = v
            m.present.add(k)
    return m


def msg_getattr(interp, m: Msg, name: str) -> Any:
    md = _mdesc(interp, m.mtype)
    fd = md.fields.get(name)
    if fd is None:
        if name in ("WhichOneof", "HasField", "CopyFrom", "SerializeToString", "ClearField", "MergeFrom", "ByteSize", "ParseFromString", "Clear", "IsInitialized"):
            return ExtMethod(m, "msg", name)
        if name == "DESCRIPTOR":
            return ExtObj("descriptor", {"name": m.mtype})
        raise interp.exc("AttributeError", f"{m.mtype} has no field {name}")
    if fd.is_map:
        if name not in m.fields:
            m.fields[name] = ADict([])
        return m.fields[name]
    if fd.repeated:
        if name not in m.fields:
            m.fields[name] = AList([])
        if fd.is_message and m.fields[name].elem is None:
            m.fields[name].elem = fd.type_name
        return m.fields[name]
    if fd.is_message:
        cur = m.fields.get(name)
        if cur is None:
            cur = Msg(fd.type_name, {}, set(), (m, name))
            # vivified for reading: stored aside so that a later write can attach it
            m.fields[name] = cur
        return cur
    if name in m.fields:
        return m.fields[name]
    return fd.default()


def _msg_shared(m: Msg) -> bool:
    cur: Any = m
    hops = 0
    while cur is not None and hops < 20:
        if cur.shared:
            return True
        cur = cur.parent[0] if cur.parent else None
        hops += 1
    return False


def msg_setattr(interp, m: Msg, name: str, val: Any) -> None:
    md = _mdesc(interp, m.mtype)
    fd = md.fields.get(name)
    if fd is None:
        raise interp.exc("AttributeError", f"Assignment not allowed (no field \"{name}\" in protocol message {m.mtype})")
    if fd.is_message or fd.repeated:
        raise interp.exc("AttributeError", f"Assignment not allowed to message, map, or repeated field \"{name}\" in protocol message object")
    val = _coerce_scalar(val)
    _check_scalar(interp, fd, val)
    interp.emit("msg_set", msg=m, field=name, value=val, shared=_msg_shared(m) and interp.init_depth == 0)
    _set_oneof(interp, m, name)
    m.fields[name] = val
    m.present.add(name)
    _mark_present(interp, m)


def msg_method(interp, m: Msg, name: str, args: list, kwargs: dict) -> Any:
    md = _mdesc(interp, m.mtype)
    if name == "WhichOneof":
        oname = args[0]
        if oname not in md.oneofs:
            raise interp.exc("ValueError", f"Protocol message {m.mtype} has no oneof \"{oname}\"")
        for f in md.oneofs[oname]:
            if f in m.present:
                return f
        return None
    if name == "HasField":
        fname = args[0]
        fd = md.fields.get(fname)
        if fd is None:
            if fname in md.oneofs:
                return any(f in m.present for f in md.oneofs[fname])
            raise interp.exc("ValueError", f"Protocol message {m.mtype} has no field {fname}")
        if fd.repeated or not (fd.is_message or fd.oneof):
            raise interp.exc("ValueError", f"Can't test non-optional, non-submessage field \"{m.mtype}.{fname}\" for presence in proto3")
        return fname in m.present
    if name == "CopyFrom":
        other = args[0]
        if not (isinstance(other, Msg) and other.mtype == m.mtype):
            raise interp.exc("TypeError", f"CopyFrom: expected {m.mtype}")
        interp.emit("msg_set", msg=m, field="*", value=other, shared=_msg_shared(m) and interp.init_depth == 0)
        c = copy_msg(interp, other)
        m.fields = c.fields
        for v in m.fields.values():
            if isinstance(v, Msg):
                v.parent = (m, next(k for k, x in m.fields.items() if x is v))
        m.present = c.present
        _mark_present(interp, m)
        return None
    if name in ("ParseFromString", "MergeFromString"):
        data = args[0]
        cls = MsgClass(m.mtype)
        parsed = _parse(interp, [cls, data], {})
        c = copy_msg(interp, parsed)
        m.fields = c.fields
        for v in m.fields.values():
            if isinstance(v, Msg):
                v.parent = (m, next(k_ for k_, x in m.fields.items() if x is v))
        m.present = c.present
        _mark_present(interp, m)
        return _len(interp, data)
    if name == "ByteSize":
        forced = getattr(interp, "forced_frame_sizes", {}).get(m.uid)
        if forced is not None:
            return forced
        c = _msg_content3(interp, m)
        if c is False:
            return 0
        if c is True:
            return Unknown(("bytesize", m.uid, len(interp.events)), f"ByteSize({m.mtype})", positive=True)
        return Unknown(("bytesize", m.uid, len(interp.events)), f"ByteSize({m.mtype})")
    if name == "SerializeToString":
        det = kwargs.get("deterministic", None)
        interp.emit("serialize", msg=m, deterministic=det)
        size = getattr(interp, "forced_frame_sizes", {}).get(m.uid)
        return ExtObj("bytes:frame", {"msg": copy_msg(interp, m), "deterministic": det, "size": size})
    if name == "ClearField":
        fname = args[0]
        m.fields.pop(fname, None)
        m.present.discard(fname)
        return None
    if name == "Clear":
        interp.emit("msg_set", msg=m, field="*clear*", value=None, shared=_msg_shared(m) and interp.init_depth == 0)
        m.fields.clear()
        m.present.clear()
        return None
    raise interp.unsupported(f"protobuf method {name}")


# ----------------------------------------------------------------------------- method calls on models


def call_method(interp, em: ExtMethod, args: list, kwargs: dict) -> Any:
    k = em.kind
    if k == "list":
        return _list_method(interp, em.recv, em.name, args, kwargs)
    if k == "dict":
        return _dict_method(interp, em.recv, em.name, args, kwargs)
    if k == "str":
        try:
            return _str_method(interp, em.recv, em.name, args, kwargs)
        except AnalysisError:
            from . import models_std

            r = models_std.concrete_method(interp, em.recv, em.name, args, kwargs)
            if r is models_std.MISSING:
                raise
            return r
    if k == "msg":
        return msg_method(interp, em.recv, em.name, args, kwargs)
    if k == "msgclass":
        raise interp.unsupported(f"message class attribute {em.name}")
    if k == "enumtype":
        return _enumtype_method(interp, em.recv, em.name, args, kwargs)
    if k == "singledispatch":
        return ExtObj("singledispatch_register", {"sd": em.recv, "cls": args[0]})
    if k == "userlist":
        return _userlist_method(interp, em.recv, em.name, args, kwargs)
    if k == "tuple_new":
        cls, items = args[0], args[1]
        o = Obj(cls, {}, tuple(interp.unpack_values(items)))
        o.shared = interp.init_depth > 0
        return o
    if k == "tuple":
        if em.name == "index":
            for i, x in enumerate(em.recv):
                if interp.truth(interp.eq(x, args[0]), "tuple.index"):
                    return i
            raise interp.exc("ValueError", "tuple.index(x): x not in tuple")
        if em.name == "count":
            return sum(1 for x in em.recv if interp.truth(interp.eq(x, args[0]), "tuple.count"))
        raise interp.unsupported(f"tuple method {em.name}")
    if k == "namedtuple":
        o = em.recv
        ntc = next(c for c in o.cls.mro if isinstance(c, ClassInfo) and c.is_namedtuple)
        if em.name == "_asdict":
            return ADict([[n_, v_] for n_, v_ in zip(ntc.nt_fields, o.tuple_items)])
        if em.name == "_replace":
            vals = dict(zip(ntc.nt_fields, o.tuple_items))
            for k_, v_ in kwargs.items():
                if k_ not in vals:
                    raise interp.exc("ValueError", f"Got unexpected field names: ['{k_}']")
                vals[k_] = v_
            return interp.instantiate(o.cls, [], vals)
        return call_method(interp, ExtMethod(tuple(o.tuple_items), "tuple", em.name), args, kwargs)
    if k == "namedtuple_cls":
        return interp.instantiate(em.recv, list(interp.drain(args[0])), {})
    if k == "contextlib.ExitStack":
        return _exitstack_method(interp, em.recv, em.name, args, kwargs)
    if k == "io.host":
        return _hostio_method(interp, em.recv, em.name, args, kwargs)
    if k == "collections.ChainMap":
        o = em.recv
        if em.name == "get":
            try:
                return getitem(interp, o, args[0])
            except PyRaise:
                return args[1] if len(args) > 1 else None
        if em.name in ("keys", "__iter__"):
            seen = ADict([])
            for m_ in reversed(o.attrs["maps"].items):
                for k_, v_ in m_.pairs:
                    if dict_find(interp, seen, k_) is None:
                        seen.pairs.append([k_, v_])
            return AList([k_ for k_, _ in seen.pairs])
        if em.name == "new_child":
            return ExtObj("collections.ChainMap", {"maps": AList([args[0] if args else ADict([])] + list(o.attrs["maps"].items))})
        raise interp.unsupported(f"ChainMap method {em.name}")
    if k == "set":
        return _set_method(interp, em.recv, em.name, args, kwargs)
    if k == "bytes" and em.name == "join" and args:
        parts = interp.drain(args[0])
        if any(isinstance(p, ExtObj) and p.kind in ("bytes:chunk", "bytes:header") for p in parts):
            if em.recv != b"":
                raise interp.unsupported("join of input chunks with a separator")
            acc: Any = b""
            for p in parts:
                if isinstance(p, ExtObj) and p.kind == "bytes:header":
                    p = ExtObj("bytes:chunk", {"stream": p.attrs.get("stream"), "n": len(p.attrs["data"]), "exact": p.attrs.get("exact"), "via": p.attrs.get("via"), "data": None})
                acc = p if acc == b"" else concat_chunks(acc, p)
            return acc
    if k in ("bytes", "tuple", "number"):
        from . import models_std

        r = models_std.concrete_method(interp, em.recv, em.name, args, kwargs)
        if r is models_std.MISSING:
            raise interp.unsupported(f"{k} method {em.name} on {em.recv!r} with {args!r}")
        return r
    if k == "iterator":
        if em.name == "__next__":
            return _b_next(interp, [em.recv], {})
        if em.name == "__iter__":
            return em.recv
        if em.name == "close":
            if isinstance(em.recv, GenObj):
                if em.recv.started and not em.recv.done:
                    em.recv.host.close()  # GeneratorExit at the suspended yield: finally blocks of the body run
                em.recv.done = True
            return None
        if em.name == "send":
            if not isinstance(em.recv, GenObj):
                raise interp.unsupported("send() on a non-generator iterator")
            if not em.recv.started and args[0] is not None:
                raise interp.exc("TypeError", "can't send non-None value to a just-started generator")
            ok, v = interp.next_value(em.recv, send=args[0])
            if not ok:
                raise interp.exc("StopIteration", em.recv.retval)
            return v
        if em.name == "throw":
            raise interp.unsupported("generator.throw")
    if k == "ext_init":
        return None
    if k in ("io.stream", "io.BufferedReader", "io.out", "io.BufferedWriter", "bytes:frame", "bytes:all", "bytes:header"):
        return _io_method(interp, em.recv, em.name, args, kwargs)
    if k == "contextvars.ContextVar":
        cv = em.recv
        if em.name == "set":
            interp.emit("ctx_set", var=cv, value=args[0])
            cv.attrs["value"] = args[0]
            cv.attrs["sets"].append(args[0])
            return ExtObj("contextvars.Token")
        if em.name == "get":
            v = cv.attrs.get("value", MISSING)
            if v is MISSING:
                if args:
                    return args[0]
                raise interp.exc("LookupError", "ContextVar has no value")
            return v
    if k.startswith("rdflib"):
        from . import models_rdflib

        return models_rdflib.method(interp, em, args, kwargs)
    if k == "property":
        if em.name == "setter":
            return ExtObj("property_setter", {"prop": em.recv})
        return em.recv
    if k == "exc":
        return em.recv if em.name == "with_traceback" else None
    if k == "cached_fn":
        if em.name == "cache_clear":
            interp.__dict__.setdefault("_fn_cache", {}).pop(em.recv.info.qualname, None)
            return None
        return fresh_unknown("cache_info()")
    if k == "logger":
        interp.emit("log", method=em.name)
        return None
    if k == "re.Pattern":
        interp.emit("regex", pattern=em.recv.attrs.get("pattern"), op=em.name)
        if em.name in ("sub", "subn", "split", "findall"):
            from . import models_std
            import re as _re

            pat = em.recv.attrs.get("pattern")
            if isinstance(pat, str) and all(models_std.is_concrete(a) for a in args):
                return models_std.host_call(interp, getattr(_re.compile(pat), em.name), args, kwargs)
            return fresh_unknown(f"re.{em.name}")
        return _re_result(interp, em.name, em.recv.attrs.get("pattern"), args[0] if args else None)
    if k == "re.Match":
        from . import models_std

        m_ = em.recv.attrs.get("m")
        if m_ is not None and em.name in ("group", "groups", "groupdict", "start", "end", "span", "expand") and all(models_std.is_concrete(a) for a in args):
            return models_std.host_call(interp, getattr(m_, em.name), args, kwargs)
        if em.name in ("group", "__getitem__"):
            return sstr(Atom(f"re.group{args!r}", nonempty=None))
        if em.name in ("start", "end"):
            return fresh_unknown(f"match.{em.name}")
        raise interp.unsupported(f"re.Match method {em.name} on a symbolic match")
    if k == "lock":
        interp.emit("lock", method=em.name)
        return True if em.name == "acquire" else None
    if k == "partial":
        p_ = em.recv
        return interp.call(p_.attrs["func"], list(p_.attrs["args"]) + list(args), {**p_.attrs["kwargs"], **kwargs})
    if k == "object_init":
        return None
    if k == "exc_init":
        em.recv.attrs["args"] = tuple(args)
        return None
    raise interp.unsupported(f"method {k}.{em.name}")


def _list_method(interp, lst: AList, name: str, args: list, kwargs: dict) -> Any:
    items = lst.items
    if lst.elem is not None and name in ("append", "extend", "insert"):
        # protobuf's repeated composite containers store copies of the messages handed to them
        def _cp(x: Any) -> Any:
            if not (isinstance(x, Msg) and x.mtype == lst.elem):
                raise interp.exc("TypeError", f"repeated field of {lst.elem} cannot hold {x!r}")
            return copy_msg(interp, x)

        if name == "append":
            args = [_cp(args[0])]
        elif name == "insert":
            args = [args[0], _cp(args[1])]
        else:
            args = [AList([_cp(x) for x in interp.drain(args[0])])]
    if name == "append":
        _mut(interp, lst, "append")
        items.append(args[0])
        if lst.maxlen is not None and len(items) > lst.maxlen:
            del items[0]
        return None
    if name == "appendleft" and lst.kind == "deque":
        _mut(interp, lst, "appendleft")
        items.insert(0, args[0])
        if lst.maxlen is not None and len(items) > lst.maxlen:
            items.pop()
        return None
    if name == "extend":
        _mut(interp, lst, "extend")
        new = interp.drain(args[0])
        items.extend(new)
        if lst.maxlen is not None and len(items) > lst.maxlen:
            del items[: len(items) - lst.maxlen]
        return None
    if name == "clear":
        _mut(interp, lst, "clear")
        items.clear()
        return None
    if name == "pop":
        _mut(interp, lst, "pop")
        if not items:
            raise interp.exc("IndexError", "pop from empty list")
        return items.pop(*args)
    if name == "popleft" and lst.kind == "deque":
        _mut(interp, lst, "popleft")
        if not items:
            raise interp.exc("IndexError", "pop from an empty deque")
        return items.pop(0)
    if name == "insert":
        _mut(interp, lst, "insert")
        items.insert(args[0], args[1])
        return None
    if name == "copy":
        interp.emit("copy", what="list.copy()", size=len(items))
        return AList(list(items), kind=lst.kind, maxlen=lst.maxlen)
    if name == "index":
        for i, x in enumerate(items):
            if interp.truth(interp.eq(x, args[0]), "list.index"):
                return i
        raise interp.exc("ValueError", "x not in list")
    if name == "count":
        return sum(1 for x in items if interp.truth(interp.eq(x, args[0]), "list.count"))
    if name == "reverse":
        _mut(interp, lst, "reverse")
        items.reverse()
        return None
    if name == "sort":
        _mut(interp, lst, "sort")
        items[:] = sort_items(interp, list(items), kwargs.get("key"), kwargs.get("reverse"), "list.sort")
        return None
    if name == "remove":
        _mut(interp, lst, "remove")
        for i, x in enumerate(items):
            if interp.truth(interp.eq(x, args[0]), "list.remove"):
                del items[i]
                return None
        raise interp.exc("ValueError", "list.remove(x): x not in list")
    if name == "maxlen":
        return lst.maxlen
    if name == "__len__":
        return len(items)
    if name == "add":  # RepeatedCompositeContainer.add(**fields): appends a new element and returns it
        if lst.elem is None:
            raise interp.exc("AttributeError", "'list' object has no attribute 'add'")
        _mut(interp, lst, "append")
        new = new_msg(interp, lst.elem, [], kwargs)
        items.append(new)
        return new
    raise interp.exc("AttributeError", f"'{lst.kind}' object has no attribute '{name}'")


def _dict_method(interp, d: ADict, name: str, args: list, kwargs: dict) -> Any:
    if d.kind == "Counter" and name in ("most_common", "elements", "total"):
        if name == "total":
            return sum(v for _k, v in d.pairs)
        if name == "elements":
            return AIter(iter([k for k, v in d.pairs for _ in range(v)]), "Counter.elements")
        order = sorted(range(len(d.pairs)), key=lambda i: -d.pairs[i][1])
        n = args[0] if args else None
        return AList([(d.pairs[i][0], d.pairs[i][1]) for i in (order if n is None else order[:n])])
    if name == "get":
        i = dict_find(interp, d, args[0])
        if i is None:
            return args[1] if len(args) > 1 else kwargs.get("default")
        return d.pairs[i][1]
    if name in ("items", "keys", "values"):
        return ExtObj("dict_view", {"d": d, "what": name})
    if name == "update":
        _mut(interp, d, "update")
        if args:
            src = args[0]
            if isinstance(src, ADict):
                for k, v in list(src.pairs):
                    dict_set(interp, d, k, v, quiet=True)
            else:
                for item in interp.drain(src):
                    k, v = interp.unpack_values(item)
                    dict_set(interp, d, k, v, quiet=True)
        for k, v in kwargs.items():
            dict_set(interp, d, k, v, quiet=True)
        return None
    if name == "pop":
        i = dict_find(interp, d, args[0])
        if i is None:
            if len(args) > 1:
                return args[1]
            raise interp.exc("KeyError", args[0])
        _mut(interp, d, "pop")
        return d.pairs.pop(i)[1]
    if name == "popitem":
        if not d.pairs:
            raise interp.exc("KeyError", "dictionary is empty")
        _mut(interp, d, "popitem")
        last = kwargs.get("last", args[0] if args else True)
        if d.kind != "OrderedDict" and (args or kwargs):
            raise interp.exc("TypeError", "dict.popitem() takes no arguments")
        end = interp.truth(last, "popitem-last")
        interp.emit("lru", op="popitem", end="newest" if end else "oldest", target=d)
        k, v = d.pairs.pop(-1 if end else 0)
        return (k, v)
    if name == "move_to_end":
        if d.kind != "OrderedDict":
            raise interp.exc("AttributeError", "'dict' object has no attribute 'move_to_end'")
        i = dict_find(interp, d, args[0])
        if i is None:
            raise interp.exc("KeyError", args[0])
        last = kwargs.get("last", args[1] if len(args) > 1 else True)
        _mut(interp, d, "move_to_end")
        end = interp.truth(last, "move-last")
        interp.emit("lru", op="move_to_end", end="newest" if end else "oldest", target=d, key=args[0])
        pair = d.pairs.pop(i)
        if end:
            d.pairs.append(pair)
        else:
            d.pairs.insert(0, pair)
        return None
    if name == "setdefault":
        i = dict_find(interp, d, args[0])
        if i is None:
            _mut(interp, d, "setdefault")
            d.pairs.append([args[0], args[1] if len(args) > 1 else None])
            return d.pairs[-1][1]
        return d.pairs[i][1]
    if name == "clear":
        _mut(interp, d, "clear")
        d.pairs.clear()
        return None
    if name == "copy":
        interp.emit("copy", what="dict.copy()", size=len(d.pairs))
        return ADict([[k, v] for k, v in d.pairs], kind=d.kind)
    if name == "__contains__":
        return dict_find(interp, d, args[0]) is not None
    raise interp.exc("AttributeError", f"'dict' object has no attribute '{name}'")


def _set_method(interp, s: ASet, name: str, args: list, kwargs: dict) -> Any:
    if name == "add":
        if s.frozen:
            raise interp.exc("AttributeError", "'frozenset' object has no attribute 'add'")
        _mut(interp, s, "add")
        if not any(interp.truth(interp.eq(x, args[0]), "set.add") for x in s.items):
            s.items.append(args[0])
        return None
    if name in ("discard", "remove"):
        _mut(interp, s, name)
        for i, x in enumerate(s.items):
            if interp.truth(interp.eq(x, args[0]), "set.discard"):
                del s.items[i]
                return None
        if name == "remove":
            raise interp.exc("KeyError", args[0])
        return None
    if name == "__contains__":
        return interp.contains(s, args[0])
    import ast as _ast

    def as_set(x: Any) -> ASet:
        if isinstance(x, ASet):
            return x
        out = ASet([])
        for y in interp.drain(x):
            if not interp.truth(interp.contains(out, y), "set-build"):
                out.items.append(y)
        return out

    binops = {"union": _ast.BitOr, "intersection": _ast.BitAnd, "difference": _ast.Sub, "symmetric_difference": _ast.BitXor}
    if name in binops:
        acc = ASet(list(s.items), frozen=s.frozen)
        for a in args:
            acc = interp.binop(binops[name], acc, as_set(a))
        return acc
    inplace = {"update": _ast.BitOr, "intersection_update": _ast.BitAnd, "difference_update": _ast.Sub, "symmetric_difference_update": _ast.BitXor}
    if name in inplace:
        if s.frozen:
            raise interp.exc("AttributeError", f"'frozenset' object has no attribute '{name}'")
        _mut(interp, s, name)
        for a in args:
            s.items[:] = interp.binop(inplace[name], ASet(list(s.items)), as_set(a)).items
        return None
    if name == "issubset":
        return interp.compare(_ast.LtE, s, as_set(args[0]))
    if name == "issuperset":
        return interp.compare(_ast.GtE, s, as_set(args[0]))
    if name == "isdisjoint":
        return not interp.binop(_ast.BitAnd, s, as_set(args[0])).items
    if name == "copy":
        interp.emit("copy", what="set.copy()", size=len(s.items))
        return ASet(list(s.items), frozen=s.frozen)
    if name == "clear" and not s.frozen:
        _mut(interp, s, "clear")
        s.items.clear()
        return None
    if name == "pop" and not s.frozen:
        _mut(interp, s, "pop")
        if not s.items:
            raise interp.exc("KeyError", "pop from an empty set")
        interp.emit("set_iteration", uid=s.uid)
        return s.items.pop(0)
    raise interp.unsupported(f"set method {name}")


def _rpartition(interp, s: Any, sep: str, right: bool = True) -> Any:
    if isinstance(s, str):
        return s.rpartition(sep) if right else s.partition(sep)
    parts = list(s.parts)
    order = range(len(parts) - 1, -1, -1) if right else range(len(parts))
    for i in order:
        p = parts[i]
        if isinstance(p, str):
            if sep in p:
                a, _, b = p.rpartition(sep) if right else p.partition(sep)
                return (sstr(*parts[:i], a), sep, sstr(b, *parts[i + 1 :]))
        else:
            if p.nosep and sep in ("#", "/"):
                continue
            if p.nonempty is False:
                continue
            # the atom may contain the separator: fork
            if interp.decide(("contains", p, sep), f"{p!r} contains {sep!r}"):
                a = Atom(f"{p.name}.{'r' if right else 'l'}part[{sep}].head", nosep=False, nonempty=None)
                b = Atom(f"{p.name}.{'r' if right else 'l'}part[{sep}].tail", nosep=p.nosep, nonempty=None)
                # law: a + sep + b == p ; recorded so that normalisation can undo the split
                interp.assume[("split", a, sep, b)] = p
                return (sstr(*parts[:i], a), sep, sstr(b, *parts[i + 1 :]))
    return ("", "", s) if right else (s, "", "")


def _str_method(interp, s: Any, name: str, args: list, kwargs: dict) -> Any:
    if isinstance(s, str):
        from . import models_std

        if name == "join" and args and not isinstance(args[0], (AList, tuple)):
            args = [AList(interp.drain(args[0]))] + list(args[1:])
        r = models_std.concrete_method(interp, s, name, args, kwargs)
        if r is not models_std.MISSING:
            return r
    if name == "rpartition":
        if not isinstance(args[0], str):
            raise interp.unsupported("rpartition with symbolic separator")
        return _rpartition(interp, s, args[0], True)
    if name == "partition":
        if not isinstance(args[0], str):
            raise interp.unsupported("partition with symbolic separator")
        return _rpartition(interp, s, args[0], False)
    if name in ("find", "rfind", "index", "rindex") and isinstance(s, SStr) and len(args) == 1 and isinstance(args[0], str) and args[0]:
        h, sep, _t = _rpartition(interp, s, args[0], name.startswith("r"))
        if not sep:
            if name in ("index", "rindex"):
                raise interp.exc("ValueError", "substring not found")
            return -1
        return SPos(s, h, 0)
    if name == "join":
        items = interp.drain(args[0])
        out = []
        for i, x in enumerate(items):
            if i:
                out.append(s)
            out.append(x)
        try:
            return sstr(*out)
        except TypeError:
            raise interp.exc("TypeError", "sequence item: expected str instance")
    if name in ("startswith", "endswith"):
        pre = args[0]
        if isinstance(s, SStr) and isinstance(pre, str):
            edge = s.parts[0] if name == "startswith" else s.parts[-1]
            if isinstance(edge, str) and len(edge) >= len(pre):
                return edge.startswith(pre) if name == "startswith" else edge.endswith(pre)
        return Unknown((name, s, repr(pre)), f"{s!r}.{name}({pre!r})")
    if name in ("removeprefix", "removesuffix"):
        pre = args[0]
        if isinstance(s, SStr) and isinstance(pre, str):
            edge = s.parts[0] if name == "removeprefix" else s.parts[-1]
            if isinstance(edge, str) and len(edge) >= len(pre):
                if name == "removeprefix" and edge.startswith(pre):
                    return sstr(edge[len(pre) :], *s.parts[1:])
                if name == "removesuffix" and edge.endswith(pre):
                    return sstr(*s.parts[:-1], edge[: len(edge) - len(pre)])
                return s
        return sstr(Atom(f"{name}({s!r})", nonempty=None))
    if name == "format":
        return sstr(Atom("str.format", nonempty=None))
    if name == "encode":
        return ExtObj("bytes:encoded", {"of": s})
    if name in ("lower", "upper", "strip", "lstrip", "rstrip", "title", "casefold", "replace"):
        interp.emit("str_transform", op=name, value=s)
        return sstr(Atom(f"{name}({s!r})", nonempty=None))
    if name in ("isdigit", "isalpha", "isalnum", "isspace", "isascii", "isnumeric", "isdecimal", "isupper", "islower", "isidentifier", "isprintable", "istitle"):
        return Unknown((name, s), f"{s!r}.{name}()")
    if name == "split" or name == "rsplit":
        interp.emit("str_transform", op=name, value=s)
        return fresh_unknown("split of symbolic string")
    raise interp.unsupported(f"str method {name} on {s!r}")


def _enumtype_method(interp, et: EnumTypeRef, name: str, args: list, kwargs: dict) -> Any:
    if name == "Name":
        v = args[0]
        if isinstance(v, Unknown):
            return sstr(Atom(f"{et.name}.Name", nonempty=True))
        for k, n in et.values.items():
            if n == v:
                return k
        raise interp.exc("ValueError", f"Enum {et.name} has no name defined for value {v!r}")
    if name == "Value":
        if args[0] in et.values:
            return et.values[args[0]]
        raise interp.exc("ValueError", f"Enum {et.name} has no value defined for name {args[0]!r}")
    if name == "keys":
        return AList(list(et.values.keys()))
    if name == "values":
        return AList(list(et.values.values()))
    if name == "items":
        return AList([(k, v) for k, v in et.values.items()])
    raise interp.unsupported(f"enum type method {name}")


# -- io objects


def make_input(frames: Any, header: bytes | None, *, seekable: bool = True, buffered: bool = True, label: str = "inp", user_buffered_reader: bool = False, short_first_read: int | None = None, start: int = 0) -> ExtObj:
    """Abstract byte source holding a sequence of frames (iterator of Msg) and a concrete header.

    buffered=True: a BytesIO-like / already buffered object whose read(n) is exact-or-EOF (it has no peek()).
    user_buffered_reader=True: the caller hands over an io.BufferedReader around an unbuffered raw source
    (its read(n) is exact, its peek(n) returns whatever is left in its buffer: possibly fewer bytes)."""
    root = ExtObj("io.stream", {"frames": frames, "header": header, "seekable": seekable, "buffered": buffered and not user_buffered_reader, "pos": start, "start": start, "label": label, "reads": [], "short_first_read": short_first_read})
    if user_buffered_reader:
        return ExtObj("io.BufferedReader", {"raw": root, "user": True})
    return root


def make_output(pyclass: str = "BytesIO") -> ExtObj:
    """Abstract byte sink; pyclass names the io class it stands for (BytesIO, FileIO = raw unbuffered file/socket,
    BufferedWriter = open(..., 'wb')), None = duck-typed object with write()."""
    return ExtObj("io.out", {"writes": [], "pyclass": pyclass})


def _io_method(interp, o: ExtObj, name: str, args: list, kwargs: dict) -> Any:
    if o.kind == "io.out":
        if name == "write":
            data = args[0]
            interp.emit("write", mode="raw", data=data, out=o)
            o.attrs["writes"].append(("raw", data))
            return Unknown(("written", o.uid, len(o.attrs["writes"])), "bytes written")
        if name in ("flush", "close"):
            return None
        if name == "writable":
            return True
        if name in ("seekable", "readable", "isatty"):
            return False
        raise interp.unsupported(f"output stream method {name}")
    if o.kind == "io.BufferedWriter":
        if name == "write":
            _bw_check(interp, o)
            interp.emit("write", mode="raw", data=args[0], out=o)
            o.attrs["pending"].append(("raw", args[0]))
            return Unknown(("written", o.uid, len(o.attrs["pending"])), "bytes written")
        if name == "flush":
            _bw_check(interp, o)
            _bw_flush(o)
            raw = o.attrs["raw"]
            if raw.kind == "io.BufferedWriter":
                _bw_flush(raw)
            return None
        if name == "close":
            if not o.attrs.get("closed") and not o.attrs.get("detached"):
                _bw_flush(o)
                o.attrs["closed"] = True
                interp.emit("close_out", out=o.attrs["raw"])
                o.attrs["raw"].attrs["closed_by_wrapper"] = True
            return None
        if name == "detach":
            _bw_check(interp, o)
            _bw_flush(o)
            o.attrs["detached"] = True
            return o.attrs["raw"]
        if name == "writable":
            return True
        if name in ("__enter__",):
            return o
        raise interp.unsupported(f"BufferedWriter method {name}")
    if o.kind in ("io.stream", "io.BufferedReader"):
        root = stream_root(o)
        is_wrapper = o.kind == "io.BufferedReader"
        if name == "seekable":
            interp.emit("io", method="seekable", recv=o)
            if is_wrapper:
                return root.attrs["seekable"]
            return o.attrs["seekable"]
        if name == "detach" and is_wrapper:
            # the wrapper is dropped: whatever it had read ahead from the object below is gone with it
            interp.emit("io", method="detach", recv=o, n=None, exact=True, wrapper=True, raw_after_wrap=False, had_reads=bool(o.attrs.get("did_read")))
            o.attrs["detached"] = True
            return o.attrs["raw"]
        if is_wrapper and o.attrs.get("detached") and name in ("read", "peek", "read1", "readinto", "seek", "tell", "seekable", "readable"):
            raise interp.exc("ValueError", "raw stream has been detached")
        if name in ("read", "peek", "read1", "readinto"):
            if is_wrapper:
                o.attrs["did_read"] = True
            n = args[0] if args else kwargs.get("size", -1)
            below = o.attrs["raw"] if is_wrapper else None
            below_buffered = isinstance(below, ExtObj) and (below.kind == "io.BufferedReader" or below.attrs.get("buffered", False))
            if name in ("peek", "read1") and not is_wrapper:
                # BytesIO-like objects have no peek(); raw sources neither
                if name == "peek":
                    raise interp.exc("AttributeError", "'_io.BytesIO' object has no attribute 'peek'")
            # read(n) on any BufferedReader / buffered object is exact-or-EOF; peek(n) does at most one read on the
            # object below: exact only when that object is itself buffered
            exact = (name == "read" and (is_wrapper or root.attrs["buffered"])) or (name == "peek" and is_wrapper and below_buffered) or (name == "read1" and not is_wrapper and root.attrs["buffered"])
            if isinstance(n, int) and 0 <= n < 3 and root.attrs.get("pos") == root.attrs.get("start", 0) and not root.attrs.get("own_reader"):
                # fewer than the three header bytes are asked for: whatever comes back is not guaranteed to hold them
                exact = False
            interp.emit("io", method=name, recv=o, n=n, exact=exact, wrapper=is_wrapper, raw_after_wrap=(not is_wrapper and root.attrs.get("wrapped", False)))
            root.attrs["reads"].append((name, n, "wrapper" if is_wrapper else "raw"))
            if n is None or (isinstance(n, int) and n < 0):
                if name != "read":
                    raise interp.unsupported(f"{name}() without size")
                return ExtObj("bytes:all", {"stream": root, "from_start": root.attrs["pos"] == root.attrs.get("start", 0), "read_at": root.attrs["pos"]})
            hdr = root.attrs["header"]
            if hdr is None:
                return fresh_unknown("header bytes")
            if name != "peek" and isinstance(root.attrs["pos"], int) and (root.attrs["pos"] >= len(hdr) or not isinstance(n, int) or root.attrs.get("own_reader")):
                # pyjelly reads frame bytes itself: opaque chunks; a one-byte read is a final varint byte (value 5)
                root.attrs["own_reader"] = True
                if n == 0:
                    # the body of a zero-length frame (or a no-op read)
                    fr = root.attrs.pop("empty_frame_body", None)
                    return ExtObj("bytes:chunk", {"stream": root, "n": 0, "exact": True, "via": name, "data": b"", "frame": fr})
                root.attrs.pop("empty_frame_body", None)
                if not _frames_remaining(interp, root):
                    return b""
                if isinstance(n, int) and n >= 4096:
                    # bulk reads ("read everything in chunks of n"): the input ends after two chunks
                    root.attrs["bulk_reads"] = root.attrs.get("bulk_reads", 0) + 1
                    if root.attrs["bulk_reads"] > 2:
                        return b""
                if n == 1:
                    # one length-prefix byte (frames of the model are shorter than 128 bytes): 0 for a frame without
                    # rows and metadata, which is thereby consumed entirely
                    nxt = root.attrs.get("peeked")
                    if isinstance(nxt, Msg) and not _msg_has_content(nxt):
                        root.attrs.pop("peeked")
                        root.attrs["empty_frame_body"] = nxt
                        interp.emit("frame_pull", got=True, frame=nxt, own_reader=True, empty=True)
                        return ExtObj("bytes:chunk", {"stream": root, "n": 1, "exact": exact, "via": name, "data": b"\x00"})
                return ExtObj("bytes:chunk", {"stream": root, "n": n, "exact": exact, "via": name, "data": b"\x05" if n == 1 else None})
            if name == "peek":
                # peek returns the whole buffered chunk (at least n bytes when exact), not just n bytes
                data = hdr[root.attrs["pos"] :] + b"\x12\x34\x0a\x0a\x56"
            else:
                data = hdr[root.attrs["pos"] : root.attrs["pos"] + n] if isinstance(n, int) else hdr
            short = root.attrs.get("short_first_read")
            if short and not exact:
                # the environment delivers only `short` bytes to the first read that is allowed to be short
                root.attrs["short_first_read"] = None
                data = data[:short]
                interp.emit("short_read", method=name, n=n, got=len(data))
            if name != "peek":
                # a program that parses length prefixes itself and meets a zero prefix at a frame boundary inside the
                # modelled header bytes has thereby consumed an (empty) frame of the abstract sequence
                boundary = root.attrs.get("hdr_boundary", root.attrs.get("start", 0))
                if n == 1 and len(data) == 1 and boundary is not None and root.attrs["pos"] == boundary:
                    if data == b"\x00" and _frames_remaining(interp, root) and isinstance(root.attrs.get("peeked"), Msg) and not _msg_has_content(root.attrs["peeked"]):
                        fr0 = root.attrs.pop("peeked")
                        interp.emit("frame_pull", got=True, frame=fr0, own_reader=True, empty=True)
                        root.attrs["hdr_boundary"] = boundary + 1
                    else:
                        root.attrs["hdr_boundary"] = None
                root.attrs["pos"] += len(data)
                if isinstance(n, int) and n != 3 and n > len(data):
                    # a body read that runs past the modelled header bytes: the rest of that frame
                    root.attrs["own_reader"] = True
                    return ExtObj("bytes:chunk", {"stream": root, "n": n, "exact": exact, "via": name, "data": None})
            return ExtObj("bytes:header", {"data": data, "exact": exact, "via": name, "stream": root})
        if name == "seek":
            off = args[0]
            whence = args[1] if len(args) > 1 else kwargs.get("whence", 0)
            interp.emit("io", method="seek", recv=o, off=off, whence=whence)
            if not root.attrs["seekable"]:
                raise interp.exc("UnsupportedOperation", "seek")
            if isinstance(off, int) and isinstance(whence, int):
                if whence == 1:
                    root.attrs["pos"] += off
                elif whence == 0:
                    root.attrs["pos"] = off
                else:
                    root.attrs["pos"] = Unknown(("pos", root.uid), "pos")
            else:
                root.attrs["pos"] = Unknown(("pos", root.uid), "pos")
            return root.attrs["pos"]
        if name == "tell":
            return root.attrs["pos"]
        if name == "close":
            return None
        raise interp.unsupported(f"input stream method {name}")
    if o.kind == "bytes:header":
        # concrete header bytes with provenance: pure bytes methods are evaluated on the data
        from . import models_std

        r = models_std.concrete_method(interp, o.attrs["data"], name, [a.attrs["data"] if isinstance(a, ExtObj) and a.kind == "bytes:header" else a for a in args], kwargs)
        if r is models_std.MISSING:
            raise interp.unsupported(f"bytes method {name} on header bytes with {args!r}")
        if isinstance(r, bytes):
            attrs = dict(o.attrs)
            attrs["data"] = r
            return ExtObj("bytes:header", attrs)
        return r
    raise interp.unsupported(f"io method {o.kind}.{name}")


EXC_CLASSES["UnsupportedOperation"] = type("UnsupportedOperation", (OSError, ValueError), {})


# ----------------------------------------------------------------------------- subscripts


def _norm_index(interp, n: int, idx: Any, what: str) -> int:
    if isinstance(idx, bool) or not isinstance(idx, int):
        raise interp.exc("TypeError", f"{what} indices must be integers, not {idx!r}")
    if idx < 0:
        idx += n
    if idx < 0 or idx >= n:
        interp.emit("raise", exc="IndexError")
        raise interp.exc("IndexError", f"{what} index out of range")
    return idx


def getitem(interp, base: Any, idx: Any) -> Any:
    if isinstance(base, Unknown) or (isinstance(idx, Unknown) and not isinstance(base, ADict)):
        return Unknown(("item", getattr(base, "key", None) or repr(base), getattr(idx, "key", None) or repr(idx)), f"{base!r}[{idx!r}]")
    if isinstance(base, tuple):
        return base[_norm_index(interp, len(base), idx, "tuple")]
    if isinstance(base, AList):
        return base.items[_norm_index(interp, len(base.items), idx, base.kind)]
    if isinstance(base, ADict):
        i = dict_find(interp, base, idx)
        if i is None:
            if base.kind == "Counter":
                return 0
            if base.kind == "defaultdict" and getattr(base, "factory", None) is not None:
                v = interp.call(base.factory, [], {})  # type: ignore[attr-defined]
                _mut(interp, base, "defaultdict-missing")
                base.pairs.append([idx, v])
                return v
            interp.emit("raise", exc="KeyError")
            raise interp.exc("KeyError", idx)
        return base.pairs[i][1]
    if isinstance(base, str):
        return base[_norm_index(interp, len(base), idx, "string")]
    if isinstance(base, bytes):
        return base[_norm_index(interp, len(base), idx, "bytes")]
    if isinstance(base, ExtObj) and base.kind == "collections.ChainMap":
        for m_ in base.attrs["maps"].items:
            i = dict_find(interp, m_, idx)
            if i is not None:
                return m_.pairs[i][1]
        raise interp.exc("KeyError", idx)
    if isinstance(base, ExtObj) and base.kind == "globals-dict" and isinstance(idx, str):
        ns = interp.module_ns(base.attrs["module"])
        if idx in ns:
            return ns[idx]
        raise interp.exc("KeyError", idx)
    if isinstance(base, ClassInfo) and base.is_enum:
        if isinstance(idx, str) and idx in base.enum_members:
            return base.attrs[idx]
        raise interp.exc("KeyError", idx)
    if isinstance(base, ExtObj) and base.kind == "bytes:header":
        d = base.attrs["data"]
        return d[_norm_index(interp, len(d), idx, "bytes")]
    if isinstance(base, ExtObj) and base.kind == "bytes:chunk":
        d = base.attrs.get("data")
        if d is not None:
            return d[_norm_index(interp, len(d), idx, "bytes")]
        return Unknown(("chunk-byte", base.uid, repr(idx)), "byte of a frame body")
    if isinstance(base, Obj):
        m = interp.lookup_class_attr(base.cls, "__getitem__")
        if m is not MISSING:
            return interp.call(interp.bind(m, base, base.cls), [idx], {})
        if base.tuple_items is not None:
            return base.tuple_items[_norm_index(interp, len(base.tuple_items), idx, "tuple")]
        if "data" in base.attrs and any(isinstance(c, ExtRef) and c.name == "collections.UserList" for c in base.cls.mro):
            return getitem(interp, base.attrs["data"], idx)
        raise interp.exc("TypeError", f"'{base.cls.name}' object is not subscriptable")
    if isinstance(base, ExtObj) and base.kind.startswith("rdflib"):
        from . import models_rdflib

        return models_rdflib.getitem(interp, base, idx)
    if isinstance(base, SStr):
        return sstr(Atom(f"{base!r}[{idx}]", nonempty=True))
    raise interp.unsupported(f"subscript of {base!r}")


def _parts(v: Any) -> list:
    return list(v.parts) if isinstance(v, SStr) else ([v] if v else [])


def _split_at(interp, s: SStr, pos: Any) -> tuple[Any, Any]:
    """(s[:pos], s[pos:]) for a symbolic position of s (or 0 / None)."""
    if pos is None or pos == 0:
        return "", s
    if not isinstance(pos, SPos) or pos.s != s:
        raise interp.unsupported(f"slice of a symbolic string at {pos!r}")
    hp, sp = _parts(pos.head), _parts(s)
    # an atom of s that was split on this path (rpartition/find decided that it contains the separator) is replaced by
    # its recorded decomposition head + sep + tail when the position lies inside it
    if any(isinstance(p, Atom) and p not in sp for p in hp):
        expanded: list = []
        for p in sp:
            hit = None
            if isinstance(p, Atom):
                for key, whole in interp.assume.items():
                    if isinstance(key, tuple) and len(key) == 4 and key[0] == "split" and whole == p and key[1] in hp:
                        hit = key
                        break
            if hit is not None:
                expanded += [hit[1], hit[2], hit[3]]
            else:
                expanded.append(p)
        sp = _parts(sstr(*expanded))
    # head is a prefix of s part-wise, its last constant part possibly a proper prefix of the matching part of s
    i = 0
    rest: list = []
    for i, p in enumerate(hp):
        if i >= len(sp):
            raise interp.unsupported("position outside the string")
        if p == sp[i]:
            continue
        if isinstance(p, str) and isinstance(sp[i], str) and sp[i].startswith(p) and i == len(hp) - 1:
            rest = [sp[i][len(p) :]]
            break
        raise interp.unsupported(f"position {pos!r} is not on a part boundary of {s!r}")
    else:
        i = len(hp) - 1
    tail = rest + sp[len(hp) :] if rest else sp[len(hp) :]
    head = list(hp)
    d = pos.delta
    while d > 0:
        if not tail or not isinstance(tail[0], str):
            raise interp.unsupported(f"position {pos!r} moves into a symbolic part")
        take = min(d, len(tail[0]))
        head.append(tail[0][:take])
        tail[0] = tail[0][take:]
        if not tail[0]:
            tail.pop(0)
        d -= take
    while d < 0:
        if not head or not isinstance(head[-1], str):
            raise interp.unsupported(f"position {pos!r} moves into a symbolic part")
        take = min(-d, len(head[-1]))
        tail.insert(0, head[-1][len(head[-1]) - take :])
        head[-1] = head[-1][: len(head[-1]) - take]
        if not head[-1]:
            head.pop()
        d += take
    return sstr(*head), sstr(*tail)


def getslice(interp, base: Any, lo: Any, hi: Any, step: Any) -> Any:
    if isinstance(base, ExtObj) and base.kind in ("rdflib.URIRef", "rdflib.BNode", "rdflib.Literal"):
        from . import models_rdflib

        base = models_rdflib.str_of(interp, base)  # slicing a str subclass gives a plain str
    if isinstance(base, SStr) and step is None and (isinstance(lo, SPos) or isinstance(hi, SPos)) and all(x is None or x == 0 or isinstance(x, SPos) for x in (lo, hi)):
        if hi is None:
            return _split_at(interp, base, lo)[1]
        upto, _rest = _split_at(interp, base, hi)
        if lo is None or lo == 0:
            return upto
        before, _ = _split_at(interp, base, lo)
        bp, up = _parts(before), _parts(upto)
        # upto = before + middle  (both are prefixes of base)
        if len(bp) <= len(up) and all(a == b for a, b in zip(bp[:-1], up)) and (not bp or bp[-1] == up[len(bp) - 1] or (isinstance(bp[-1], str) and isinstance(up[len(bp) - 1], str) and up[len(bp) - 1].startswith(bp[-1]))):
            if not bp:
                return upto
            last = up[len(bp) - 1]
            mid = ([last[len(bp[-1]) :]] if isinstance(last, str) and last != bp[-1] else []) + up[len(bp) :]
            return sstr(*mid)
        return ""
    if isinstance(base, (tuple, str, bytes)) and all(x is None or isinstance(x, int) for x in (lo, hi, step)):
        return base[lo:hi:step]
    if isinstance(base, AList) and all(x is None or isinstance(x, int) for x in (lo, hi, step)):
        return AList(base.items[lo:hi:step])
    if isinstance(base, ExtObj) and base.kind == "bytes:header":
        # a slice of header bytes is still header bytes of the same provenance (exactness is kept)
        attrs = dict(base.attrs)
        attrs["data"] = base.attrs["data"][lo:hi:step]
        return ExtObj("bytes:header", attrs)
    if isinstance(base, Obj) and base.tuple_items is not None:
        return base.tuple_items[lo:hi:step]
    if isinstance(base, Obj) and isinstance(base.attrs.get("data"), AList) and all(x is None or isinstance(x, int) for x in (lo, hi, step)):
        # UserList slicing returns a new instance of the same class over the sliced data
        c = Obj(base.cls, dict(base.attrs))
        c.attrs["data"] = AList(base.attrs["data"].items[lo:hi:step])
        return c
    return fresh_unknown("slice")


def setitem(interp, base: Any, idx: Any, val: Any) -> None:
    if isinstance(idx, slice):
        tgt = base.attrs["data"] if isinstance(base, Obj) and isinstance(base.attrs.get("data"), AList) else base
        if isinstance(tgt, AList):
            _mut(interp, tgt, "setslice")
            tgt.items[idx] = interp.drain(val)
            return
        raise interp.unsupported(f"slice assignment on {base!r}")
    if isinstance(base, AList):
        if isinstance(idx, Unknown):
            interp.emit("mutate", target=base, op="setitem-unknown-index", shared=base.shared and interp.init_depth == 0)
            return
        i = _norm_index(interp, len(base.items), idx, base.kind + " assignment")
        _mut(interp, base, "setitem")
        interp.emit("setitem", target=base, index=i, value=val)
        base.items[i] = val
        return
    if isinstance(base, ADict):
        dict_set(interp, base, idx, val)
        return
    if isinstance(base, ExtRef):
        interp.emit("ext_write", target=base.name, key=idx, value=val)
        return
    if isinstance(base, Obj):
        m = interp.lookup_class_attr(base.cls, "__setitem__")
        if m is not MISSING:
            interp.call(interp.bind(m, base, base.cls), [idx, val], {})
            return
        if "data" in base.attrs and any(isinstance(c, ExtRef) and c.name == "collections.UserList" for c in base.cls.mro):
            setitem(interp, base.attrs["data"], idx, val)
            return
    if isinstance(base, tuple):
        raise interp.exc("TypeError", "'tuple' object does not support item assignment")
    if isinstance(base, Unknown):
        interp.emit("ext", name="setitem-unknown", recv=repr(base))
        return
    if isinstance(base, ExtObj) and base.kind in ("globals-dict", "vars-dict"):
        return
    raise interp.unsupported(f"item assignment on {base!r}")


def delitem(interp, base: Any, idx: Any) -> None:
    if isinstance(idx, slice):
        tgt = base.attrs["data"] if isinstance(base, Obj) and isinstance(base.attrs.get("data"), AList) else base
        if isinstance(tgt, AList):
            _mut(interp, tgt, "delslice")
            if isinstance(base, Obj):
                interp.emit("flow", obj=base, op="delslice", n=len(tgt.items), added=0)
            del tgt.items[idx]
            return
        raise interp.unsupported(f"slice deletion on {base!r}")
    if isinstance(base, ADict):
        i = dict_find(interp, base, idx)
        if i is None:
            raise interp.exc("KeyError", idx)
        _mut(interp, base, "delitem")
        base.pairs.pop(i)
        return
    if isinstance(base, AList):
        i = _norm_index(interp, len(base.items), idx, "list")
        _mut(interp, base, "delitem")
        del base.items[i]
        return
    raise interp.unsupported(f"del on {base!r}")


# ----------------------------------------------------------------------------- external base classes of repo classes


def ext_init(interp, obj: Obj, owner: ExtRef, args: list, kwargs: dict) -> None:
    n = owner.name
    if n == "collections.UserList":
        _userlist_init(interp, obj, args, kwargs)
        return
    if n.startswith("rdflib"):
        from . import models_rdflib

        models_rdflib.ext_init(interp, obj, owner, args, kwargs)
        return
    if n.startswith("builtins.") and _is_exc_name(n.split(".")[-1]):
        obj.attrs["args"] = tuple(args)
        return
    if args or kwargs:
        if n in ("builtins.object", "abc.ABC"):
            raise interp.exc("TypeError", f"{obj.cls.name}() takes no arguments")
    return


def _is_exc_name(short: str) -> bool:
    c = getattr(_pybuiltins, short, None)
    return isinstance(c, type) and issubclass(c, BaseException)


def _userlist_init(interp, obj: Obj, args: list, kwargs: dict) -> None:
    initlist = args[0] if args else kwargs.get("initlist")
    data = AList([])
    if initlist is not None:
        data.items.extend(interp.drain(initlist))
    interp.emit("setattr", obj=obj, attr="data", value=data, init=True)
    obj.attrs["data"] = data


def ext_base_attr(interp, obj: Obj, eb: ExtRef, name: str) -> Any:
    n = eb.name
    if n == "collections.UserList":
        if name == "__init__":
            return ExtMethod(obj, "userlist", "__init__")
        if name in ("append", "extend", "clear", "pop", "insert", "copy", "index", "count", "remove", "reverse", "sort", "__len__", "__iter__"):
            return ExtMethod(obj, "userlist", name)
        return MISSING
    if n.startswith("rdflib"):
        from . import models_rdflib

        return models_rdflib.ext_base_attr(interp, obj, eb, name)
    if n in ("builtins.tuple", "typing.NamedTuple"):
        if name == "__new__":
            return ExtMethod(obj, "tuple_new", "__new__")
        if obj.tuple_items is not None and name in ("_replace", "_asdict", "index", "count"):
            return ExtMethod(obj, "namedtuple", name)
        if name == "_fields":
            ntc = next((c for c in obj.cls.mro if isinstance(c, ClassInfo) and c.is_namedtuple), None)
            if ntc is not None:
                return tuple(ntc.nt_fields)
        return MISSING
    if name == "__init__":
        if n.startswith("builtins.") and _is_exc_name(n.split(".")[-1]):
            return ExtMethod(obj, "exc_init", "__init__")
        return ExtMethod(obj, "object_init", "__init__")
    if name == "__setattr__" and n == "builtins.object":
        return ExtRef("builtins.object.__setattr__")
    if name == "args" and n.startswith("builtins.") and _is_exc_name(n.split(".")[-1]):
        return obj.attrs.get("args", ())
    return MISSING


def ext_class_attr(interp, cls: ClassInfo, eb: ExtRef, name: str) -> Any:
    if name == "_fields" and any(isinstance(c, ClassInfo) and c.is_namedtuple for c in cls.mro):
        return tuple(next(c for c in cls.mro if isinstance(c, ClassInfo) and c.is_namedtuple).nt_fields)
    if name == "_make" and any(isinstance(c, ClassInfo) and c.is_namedtuple for c in cls.mro):
        return ExtMethod(cls, "namedtuple_cls", "_make")
    if eb.name == "builtins.tuple" and name == "__new__":
        return ExtMethod(cls, "tuple_new", "__new__")
    if name == "__init__":
        return ExtMethod(cls, "object_init", "__init__")
    if name == "__init_subclass__":
        return ExtMethod(cls, "object_init", "__init_subclass__")
    return MISSING


def _userlist_method(interp, obj: Obj, name: str, args: list, kwargs: dict) -> Any:
    if name == "__init__":
        _userlist_init(interp, obj, args, kwargs)
        return None
    data = obj.attrs.get("data")
    if not isinstance(data, AList):
        raise interp.exc("AttributeError", f"'{obj.cls.name}' object has no attribute 'data'")
    if name == "__len__":
        return len(data.items)
    if name == "__iter__":
        return interp.get_iter(data)
    n_before = len(data.items)
    r = _list_method(interp, data, name, args, kwargs)
    interp.emit("flow", obj=obj, op=name, n=n_before, added=max(0, len(data.items) - n_before))
    if name == "copy":
        c = Obj(obj.cls, dict(obj.attrs))
        c.attrs["data"] = r
        return c
    return r


def ext_base_iter(interp, obj: Obj, eb: ExtRef) -> Any:
    if eb.name == "collections.UserList":
        return interp.get_iter(obj.attrs["data"])
    if eb.name == "builtins.tuple" and obj.tuple_items is not None:
        return AIter(iter(obj.tuple_items), "tuple")
    return MISSING


def ext_base_len(interp, obj: Obj, eb: ExtRef) -> Any:
    if eb.name == "collections.UserList":
        return len(obj.attrs["data"].items)
    return MISSING


# ----------------------------------------------------------------------------- misc protocol hooks


def view_items(v: ExtObj) -> list:
    d, what = v.attrs["d"], v.attrs["what"]
    if what == "keys":
        return [k for k, _ in d.pairs]
    if what == "values":
        return [x for _, x in d.pairs]
    return [(k, x) for k, x in d.pairs]


def iter_ext(interp, v: Any) -> Any:
    if isinstance(v, ExtObj) and v.kind == "dict_view":
        return AIter(iter(view_items(v)), "dict_" + v.attrs["what"])
    if isinstance(v, ExtObj) and v.kind == "collections.ChainMap":
        return interp.get_iter(call_method(interp, ExtMethod(v, "collections.ChainMap", "keys"), [], {}))
    if isinstance(v, ExtObj) and v.kind == "io.host":
        raise interp.unsupported("line iteration over a byte stream")
    if isinstance(v, (FuncRef, BoundMethod, ClassInfo)):
        raise interp.exc("TypeError", f"{v!r} object is not iterable")
    if isinstance(v, ExtObj) and v.kind.startswith("rdflib"):
        from . import models_rdflib

        return models_rdflib.iter_(interp, v)
    if isinstance(v, ExtObj) and v.kind == "bytes:header":
        return AIter(iter(v.attrs["data"]), "bytes")
    if isinstance(v, Unknown):
        interp.emit("ext", name="iter-unknown", recv=repr(v))
        return SymIter(f"iter({v.hint or 'unknown'})", lambda it, i: fresh_unknown(f"element {i}"), 2)
    if v is None:
        raise interp.exc("TypeError", "'NoneType' object is not iterable")
    if isinstance(v, (int, float)):
        raise interp.exc("TypeError", f"'{type(v).__name__}' object is not iterable")
    if isinstance(v, Msg):
        raise interp.exc("TypeError", f"'{v.mtype}' object is not iterable")
    raise interp.unsupported(f"iteration over {v!r}")


def truth_ext(interp, v: ExtObj, tag: str) -> bool:
    if v.kind.startswith("rdflib"):
        from . import models_rdflib

        return models_rdflib.truth(interp, v, tag)
    if v.kind == "bytes:header":
        return bool(v.attrs["data"])
    if v.kind == "dict_view":
        return bool(v.attrs["d"].pairs)
    if v.kind == "bytes:chunk":
        return v.attrs.get("data") != b""
    if v.kind in ("bytes:frame", "bytes:all", "bytes:encoded"):
        return interp.decide(("truth", v.uid), f"{tag}:nonempty bytes")
    return True


def eq_ext(interp, a: Any, b: Any) -> Any:
    for x in (a, b):
        if isinstance(x, ExtObj) and x.kind.startswith("rdflib"):
            from . import models_rdflib

            return models_rdflib.eq(interp, a, b)
    if isinstance(a, ExtObj) and a.kind == "bytes:header" and isinstance(b, bytes):
        return a.attrs["data"] == b
    if isinstance(b, ExtObj) and b.kind == "bytes:header" and isinstance(a, bytes):
        return b.attrs["data"] == a
    if isinstance(a, ExtObj) and isinstance(b, ExtObj) and a.kind == b.kind == "bytes:frame":
        # serialisations of structurally equal messages are equal byte strings (deterministic field order; maps only
        # when serialised deterministically)
        from .freeze import freeze

        if freeze(a.attrs["msg"]) == freeze(b.attrs["msg"]):
            if a.attrs.get("deterministic") or b.attrs.get("deterministic") or not _has_map(a.attrs["msg"]):
                return True
            return Unknown(("eq-nondeterministic-bytes", a.uid, b.uid), "equality of non-deterministic serialisations")
        return False
    if isinstance(a, ExtObj) and a.kind == "bytes:frame" and isinstance(b, bytes):
        return False if b else Unknown(("frame-empty", a.uid), "serialised frame == b''")
    if isinstance(b, ExtObj) and b.kind == "bytes:frame" and isinstance(a, bytes):
        return False if a else Unknown(("frame-empty", b.uid), "serialised frame == b''")
    return a is b


def _has_map(m: Msg) -> bool:
    for v in m.fields.values():
        if isinstance(v, ADict) and len(v.pairs) > 1:
            return True
        if isinstance(v, Msg) and _has_map(v):
            return True
        if isinstance(v, AList) and any(isinstance(x, Msg) and _has_map(x) for x in v.items):
            return True
    return False


def contains_ext(interp, container: Any, item: Any) -> Any:
    if isinstance(container, ExtObj) and container.kind.startswith("rdflib"):
        from . import models_rdflib

        return models_rdflib.contains(interp, container, item)
    if container is None:
        raise interp.exc("TypeError", "argument of type 'NoneType' is not iterable")
    if isinstance(container, ExtObj) and container.kind == "globals-dict" and container.attrs.get("module") and isinstance(item, str):
        return item in interp.module_ns(container.attrs["module"])
    if isinstance(container, ExtObj) and container.kind == "dict_view":
        if container.attrs["what"] == "keys":
            return interp.contains(container.attrs["d"], item)
        return interp.contains(tuple(view_items(container)), item)
    if isinstance(container, ExtObj) and container.kind == "collections.ChainMap":
        return any(interp.truth(interp.contains(m_, item), "ChainMap.in") for m_ in container.attrs["maps"].items)
    if isinstance(container, (str, bytes)) and isinstance(item, type(container)):
        return item in container
    if isinstance(container, Obj):
        return interp.contains(tuple(interp.drain(container)), item)
    if isinstance(container, (GenObj, AIter, SymIter)):
        while True:
            ok, x = interp.next_value(container)
            if not ok:
                return False
            if interp.truth(interp.eq(x, item), "in-iterator"):
                return True
    raise interp.unsupported(f"membership in {container!r}")


_STR_LIKE_KINDS = ("rdflib.URIRef", "rdflib.BNode", "rdflib.Literal")


def isinstance_ext(interp, v: Any, cls: ExtRef) -> Any:
    n = cls.name
    if n == "builtins.object":
        return True
    if n == "builtins.str":
        return is_strlike(v) or (isinstance(v, ExtObj) and v.kind in _STR_LIKE_KINDS)
    if n == "builtins.int":
        return isinstance(v, int)
    if n == "builtins.bool":
        return isinstance(v, bool)
    if n == "builtins.bytes":
        return isinstance(v, bytes) or (isinstance(v, ExtObj) and v.kind.startswith("bytes:"))
    if n == "builtins.tuple":
        return isinstance(v, tuple) or (isinstance(v, Obj) and v.tuple_items is not None)
    if n == "builtins.list":
        return isinstance(v, AList) and v.kind == "list"
    if n == "builtins.dict":
        return isinstance(v, ADict)
    if n == "builtins.type":
        return isinstance(v, (ClassInfo, MsgClass))
    if n in ("builtins.NoneType",):
        return v is None
    if n.startswith("rdflib"):
        from . import models_rdflib

        return models_rdflib.isinstance_(interp, v, n)
    if isinstance(v, Obj):
        return any(isinstance(c, ExtRef) and c.name == n for c in v.cls.mro)
    if isinstance(v, ExtObj):
        if v.kind == n:
            return True
        if n.startswith("io.") and v.attrs.get("pyclass"):
            import io as _io

            a, b = getattr(_io, v.attrs["pyclass"], None), getattr(_io, n[3:], None)
            if isinstance(a, type) and isinstance(b, type):
                return issubclass(a, b)
            raise interp.unsupported(f"isinstance({v!r}, {n})")
        if v.kind.startswith("exc:") and n.startswith("builtins."):
            a = getattr(_pybuiltins, v.kind[4:], None)
            b = getattr(_pybuiltins, n.split(".")[-1], None)
            if isinstance(a, type) and isinstance(b, type):
                return issubclass(a, b)
        return False
    if n in ("typing.Iterable", "collections.abc.Iterable"):
        return isinstance(v, (tuple, AList, ADict, GenObj, AIter, SymIter, str))
    return False


def context_enter(interp, cm: Any) -> Any:
    if isinstance(cm, ExtObj) and cm.kind == "lock":
        interp.emit("lock", method="acquire")
        return cm
    if isinstance(cm, ExtObj) and cm.kind == "nullcontext":
        return cm.attrs["value"]
    if isinstance(cm, ExtObj) and cm.kind in ("io.BufferedWriter", "io.out", "io.stream", "io.BufferedReader"):
        return cm
    raise interp.unsupported(f"context manager {cm!r}")


def context_exit(interp, cm: Any) -> None:
    if isinstance(cm, ExtObj) and cm.kind == "io.BufferedWriter":
        _io_method(interp, cm, "close", [], {})
    elif isinstance(cm, ExtObj) and cm.kind == "io.out":
        cm.attrs["closed_by_wrapper"] = True
    return None
