"""Engine conformance: small concrete Python functions are evaluated by the abstract interpreter and by CPython;
the results must agree.  This tests the *tool* (the trusted base of every check), not pyjelly: no property is
decided here.  `python -m jstat langtest` — part of the self-test registered as MANIFEST setup_cmd.

The snippets concentrate on the idioms maintainers use when they refactor (so that a behaviour-preserving
rewrite of pyjelly is analysed instead of ending in ANALYSIS-ERROR).
"""
from __future__ import annotations

import ast
from pathlib import Path
from typing import Any

from .errors import AnalysisError
from .values import ADict, AList, ASet, EnumInt, Obj, PyRaise, SStr, Unknown

SOURCE = r'''
from __future__ import annotations
import itertools
import functools
import operator
import contextlib
import enum
import io
import re
import dataclasses
from collections import OrderedDict, deque, defaultdict, ChainMap, Counter, namedtuple
from collections.abc import Iterable, Generator
from dataclasses import dataclass, field, replace
from itertools import chain, islice, groupby, starmap, takewhile, dropwhile, zip_longest, tee, pairwise, repeat, count, accumulate, product
from functools import partial, reduce, cached_property, singledispatch, singledispatchmethod, wraps
from operator import attrgetter, itemgetter, methodcaller
from typing import NamedTuple, Protocol, ClassVar, Any


class Color(enum.IntEnum):
    RED = 1
    GREEN = 2
    BLUE = 3


class Kind(enum.Enum):
    A = "a"
    B = "b"


@dataclass
class Pt:
    x: int
    y: int = 0
    tags: list = field(default_factory=list)


@dataclass(frozen=True)
class FPt:
    x: int
    y: int = 2


class NT(NamedTuple):
    a: int
    b: str = "z"


NT2 = namedtuple("NT2", ["p", "q"])


class Slotted:
    __slots__ = ("a", "b")

    def __init__(self, a, b):
        self.a = a
        self.b = b


class Base:
    registry: ClassVar[dict] = {}

    def __init__(self, v):
        self.v = v

    def who(self):
        return "base" + str(self.v)

    @staticmethod
    def twice(n):
        return n * 2

    @classmethod
    def make(cls, v):
        return cls(v + 1)

    @property
    def prop(self):
        return self.v * 10

    def __len__(self):
        return self.v

    def __iter__(self):
        yield from range(self.v)

    def __contains__(self, item):
        return item == self.v

    def __getitem__(self, i):
        return i + self.v

    def __eq__(self, other):
        return isinstance(other, Base) and other.v == self.v

    def __hash__(self):
        return hash(self.v)

    def __bool__(self):
        return self.v != 0

    def __call__(self, z):
        return self.v + z


class Child(Base):
    def who(self):
        return "child:" + super().who()


def t_match_class():
    out = []
    for v in (Pt(1, 2), Pt(0, 0), FPt(3), 5, "s", None, [1, 2], (1, 2, 3), {"k": 1}):
        match v:
            case Pt(x=0, y=0):
                out.append("origin")
            case Pt(x=x, y=y):
                out.append(("pt", x, y))
            case FPt(x):
                out.append(("fpt", x))
            case int(n) if n > 3:
                out.append(("big", n))
            case str() as s:
                out.append(("str", s))
            case None:
                out.append("none")
            case [a, b]:
                out.append(("two", a, b))
            case (a, *rest):
                out.append(("star", a, rest))
            case {"k": kv}:
                out.append(("map", kv))
            case _:
                out.append("other")
    return out


def t_match_value():
    out = []
    for v in (Color.RED, Color.BLUE, 2, "a", "x"):
        match v:
            case Color.RED:
                out.append("r")
            case Color.GREEN | Color.BLUE:
                out.append("gb")
            case "a" | "b":
                out.append("ab")
            case _:
                out.append("?")
    return out


def t_walrus():
    data = [1, 2, 3, 4]
    out = []
    i = 0
    while (n := i * 2) < 6:
        out.append(n)
        i += 1
    if (m := len(data)) > 3:
        out.append(m)
    out.append([y for x in data if (y := x * x) > 4])
    return out


def t_for_else():
    out = []
    for x in (1, 2, 3):
        if x == 2:
            out.append("found")
            break
    else:
        out.append("nf")
    for x in (1, 3):
        if x == 2:
            break
    else:
        out.append("nf2")
    i = 0
    while i < 2:
        i += 1
    else:
        out.append("welse")
    return out


def t_try_finally():
    out = []

    def f(n):
        try:
            if n == 0:
                raise ValueError("zero")
            if n == 1:
                return "one"
            out.append("body")
        except ValueError as e:
            out.append("caught " + str(e))
            return "exc"
        else:
            out.append("else")
        finally:
            out.append("fin")
        return "end"

    return [f(0), f(1), f(2)], out


def t_try_nested():
    out = []
    try:
        try:
            raise KeyError("k")
        finally:
            out.append("inner-fin")
    except (KeyError, IndexError) as e:
        out.append(type(e).__name__)
    try:
        try:
            raise ValueError("v")
        except ValueError as e:
            raise TypeError("t") from e
    except TypeError as e:
        out.append(("te", str(e), type(e.__cause__).__name__))
    try:
        [1][3]
    except LookupError:
        out.append("lookup")
    try:
        {}["a"]
    except KeyError as e:
        out.append(("ke", e.args))
    try:
        int("x")
    except ValueError:
        out.append("ve")
    try:
        raise
    except RuntimeError:
        out.append("re")
    return out


def t_contextmanager():
    out = []

    @contextlib.contextmanager
    def cm(tag):
        out.append("enter " + tag)
        try:
            yield tag.upper()
        finally:
            out.append("exit " + tag)

    with cm("a") as a, cm("b") as b:
        out.append(a + b)
    try:
        with cm("c"):
            raise ValueError("x")
    except ValueError:
        out.append("propagated")
    with contextlib.suppress(KeyError):
        {}["q"]
        out.append("not reached")
    with contextlib.ExitStack() as stack:
        v = stack.enter_context(cm("d"))
        stack.callback(lambda: out.append("cb"))
        out.append(v)
    with contextlib.nullcontext(5) as five:
        out.append(five)
    return out


def t_class_cm():
    out = []

    class CM:
        def __enter__(self):
            out.append("in")
            return self

        def __exit__(self, et, ev, tb):
            out.append(("out", et is not None))
            return et is KeyError

    with CM():
        out.append("body")
    with CM():
        raise KeyError("swallowed")
    try:
        with CM():
            raise ValueError("not swallowed")
    except ValueError:
        out.append("ve")
    return out


def t_partial_operator():
    def add(a, b, c=0):
        return a + b + c

    p = partial(add, 1, c=5)
    g = attrgetter("x")
    g2 = attrgetter("x", "y")
    ig = itemgetter(1)
    ig2 = itemgetter(0, 2)
    mc = methodcaller("who")
    mc2 = methodcaller("__getitem__", 4)
    return [p(2), p(2, c=1), g(Pt(7)), g2(Pt(7, 8)), ig([5, 6, 7]), ig2("abc"), mc(Child(1)), mc2(Base(1)), operator.add(1, 2), operator.eq(1, 1), operator.not_(0), reduce(operator.mul, [1, 2, 3, 4], 1), reduce(lambda a, b: a + b, ["a", "b"])]


def t_itertools():
    a, b = tee([1, 2, 3])
    return [
        list(chain([1], (2, 3), "ab")),
        list(chain.from_iterable([[1], [2, 3]])),
        list(islice(range(10), 2, 8, 3)),
        list(islice(iter("abcdef"), 2)),
        [(k, list(g)) for k, g in groupby([1, 1, 2, 3, 3, 1])],
        [(k, list(g)) for k, g in groupby(["aa", "ab", "ba"], key=lambda s: s[0])],
        list(starmap(lambda x, y: x * y, [(1, 2), (3, 4)])),
        list(takewhile(lambda x: x < 3, [1, 2, 3, 1])),
        list(dropwhile(lambda x: x < 3, [1, 2, 3, 1])),
        list(zip_longest([1, 2, 3], "ab", fillvalue=None)),
        list(a), list(b),
        list(pairwise([1, 2, 3, 4])),
        list(islice(repeat("x"), 3)),
        list(islice(count(5, 2), 3)),
        list(accumulate([1, 2, 3])),
        list(product([1, 2], "ab")),
        list(zip([1, 2], [3, 4], strict=True)),
        list(enumerate("ab", start=1)),
        list(map(lambda x, y: x + y, [1, 2], [10, 20])),
        list(filter(None, [0, 1, "", "a"])),
        list(reversed([1, 2, 3])),
        sorted([3, 1, 2], reverse=True),
        sorted(["bb", "a", "ccc"], key=len),
        min([3, 1, 2]), max(3, 9, 2), min([], default=7), max(["a", "bbb"], key=len),
        sum([1, 2, 3], 10), any(x > 2 for x in [1, 2, 3]), all([]), next(iter([]), "dflt"), next(x for x in [5, 6]),
    ]


def t_generators():
    out = []

    def inner():
        x = yield 1
        out.append(("got", x))
        yield 2
        return "ret"

    def outer():
        r = yield from inner()
        out.append(("r", r))
        yield 3

    g = outer()
    out.append(next(g))
    out.append(g.send("hello"))
    out.append(next(g))
    out.append(next(g, "done"))

    def closing():
        try:
            yield 1
            yield 2
        finally:
            out.append("closed")

    c = closing()
    next(c)
    c.close()
    ge = (x * 2 for x in range(3) if x)
    out.append(list(ge))

    def raising():
        yield 1
        raise StopIteration

    try:
        list(raising())
    except RuntimeError as e:
        out.append("pep479")
    return out


def t_dataclass_stuff():
    p = Pt(1)
    q = replace(p, y=5)
    p.tags.append("t")
    f = FPt(1)
    try:
        f.x = 3
        frozen = "mutated"
    except dataclasses.FrozenInstanceError:
        frozen = "frozen"
    except AttributeError:
        frozen = "attr"
    return [q.x, q.y, q.tags, Pt(2).tags, p == Pt(1, 0, ["t"]), repr(f), f == FPt(1, 2), hash(f) == hash(FPt(1)), frozen, dataclasses.asdict(Pt(1, 2)), dataclasses.astuple(FPt(4)), [fl.name for fl in dataclasses.fields(Pt)]]


def t_namedtuple():
    n = NT(1)
    m = NT2(3, q=4)
    a, b = n
    return [n.a, n.b, n[0], tuple(n), n._replace(a=5), n == (1, "z"), m.p + m.q, m._asdict(), NT._fields, len(n), a, b, isinstance(n, tuple)]


def t_classes():
    c = Child(3)
    s = Slotted(1, 2)
    try:
        s.c = 3
        slot = "ok"
    except AttributeError:
        slot = "attrerr"
    return [c.who(), Base.twice(4), c.twice(2), Child.make(1).v, type(Child.make(1)).__name__, c.prop, len(c), list(c), 3 in c, 4 in c, c[2], c == Base(3), c != Base(4), bool(Base(0)), c(10), isinstance(c, Base), issubclass(Child, Base), hasattr(c, "v"), hasattr(c, "nope"), getattr(c, "nope", "d"), slot, s.a + s.b, {Base(1): "x"}[Base(1)], Child.__name__, c.__class__ is Child, callable(c), callable(5)]


def t_enum():
    return [Color.RED, Color(2), Color["BLUE"], Color.RED.name, Color.RED.value, Color.RED < Color.BLUE, list(Color), len(Color), Color.RED == 1, Kind.A.value, Kind("b") is Kind.B, Kind.A == Kind.A, Kind.A != Kind.B, Color.RED in (Color.RED, Color.BLUE), {Color.RED: 1}[Color.RED], int(Color.GREEN), [c.name for c in Kind], isinstance(Color.RED, int), Color.RED | 4]


def t_strings():
    s = "http://example.org/path#frag"
    return [
        s.partition("#"), s.rpartition("/"), s.rsplit("/", 1), s.split("/"), s.split("/", 2), s.removesuffix("frag"), s.removeprefix("http:"),
        s.startswith("http"), s.endswith(("x", "frag")), s.find("#"), s.rfind("/"), s.index("e"), s.count("/"), s[7:14], s[-4:], s[::-1][:4], s.upper()[:4],
        "a,b".replace(",", ";"), " x ".strip(), "x".join(["1", "2"]), "%s-%d" % ("a", 3), "{}:{x}".format(1, x=2), f"{s[:4]!r}:{3:03d}", "abc" < "abd", "a" in "cat", "".join(reversed("abc")),
        "A".lower(), "ab".isalpha(), "12".isdigit(), len(s), s.encode("utf-8")[:4], b"ab".decode(), str(5), repr("q"), "a b".title(), "x".ljust(3, "."), "x".zfill(3), ord("a"), chr(98), "a\nb".splitlines(), "Ab".casefold(), "ab".capitalize(),
        max(s.rfind("#"), s.rfind("/")), s[: s.rfind("#") + 1], s[s.rfind("#") + 1 :],
    ]


def t_bytes():
    b = b"\x0a\x05\x0a\xff"
    ba = bytearray(b"ab")
    ba.append(99)
    ba.extend(b"de")
    ba += b"f"
    mv = memoryview(b)
    return [b[0], b[1:3], b[-1], len(b), b[0] == 0x0A, b[:1] == b"\x0a", bytes([1, 2]), bytes(2), b + b"z", b.hex(), bytes.fromhex("0aff"), list(b), b[0] & 0x7F, (b[3] & 0x80) >> 7, bytes(ba), len(ba), ba[0], mv[1], bytes(mv[1:3]), len(mv), int.from_bytes(b"\x01\x00", "big"), (300).to_bytes(2, "little"), b.startswith(b"\x0a"), b"\x0a" in b, b.find(b"\x05"), bytes(ba[1:3]), 10 in b, b == bytes(b), bytes((7,)), bytearray(3) == bytearray(b"\0\0\0")]


def t_io():
    f = io.BytesIO(b"abcdefgh")
    out = [f.read(3), f.tell(), f.seek(-2, io.SEEK_CUR), f.read(2), f.seek(0), f.read(), f.read(1), f.seekable(), f.readable()]
    g = io.BytesIO()
    g.write(b"xy")
    g.write(b"z")
    out.append(g.getvalue())
    out.append(g.tell())
    r = io.BufferedReader(io.BytesIO(b"12345"))
    out.append(r.peek(2)[:2])
    out.append(r.read(2))
    out.append(r.read())
    return out


def t_collections():
    d = defaultdict(list)
    d["a"].append(1)
    d["b"]
    od = OrderedDict([("x", 1), ("y", 2), ("z", 3)])
    od.move_to_end("x")
    first = od.popitem(last=False)
    dq = deque([1, 2, 3], maxlen=3)
    dq.append(4)
    dq.appendleft(0)
    cm = ChainMap({"a": 1}, {"a": 2, "b": 3})
    cnt = Counter("abca")
    s = {1, 2}
    s.add(2)
    s |= {5}
    fs = frozenset([1, 2])
    dd = {"k": 1}
    dd.setdefault("j", []).append(2)
    dd.update(m=3)
    popped = dd.pop("k")
    return [dict(d), list(od.items()), first, list(dq), dq[0], dq.popleft(), len(dq), cm["a"], cm["b"], cnt["a"], cnt.most_common(1), sorted(s), 1 in fs, sorted(s - fs), sorted(s & fs), dd, popped, dd.get("zz", "d"), list(dd), [*dd.values()], {**dd, "n": 0}, dict(zip("ab", (1, 2))), {k: v for k, v in [("a", 1)]}, {x for x in (1, 1, 2)} == {1, 2}, len({}), "m" in dd, dict.fromkeys(["a"], 0), list(od), od == OrderedDict([("z", 3), ("x", 1)])]


def t_unpacking_and_calls():
    def f(a, b=2, *args, c, d=4, **kw):
        return (a, b, args, c, d, kw)

    first, *mid, last = [1, 2, 3, 4]
    (x, y), z = (1, 2), 3
    t = (*mid, 9)
    l = [*t, *"ab"]
    kw = {"c": 7}
    lam = lambda q, r=1: q - r  # noqa: E731
    return [f(1, c=3), f(1, 2, 3, 4, c=5, e=6), f(*[1, 2], **kw), first, mid, last, x, y, z, t, l, lam(5), lam(5, r=2), (lambda *a, **k: (a, k))(1, k=2), divmod(7, 2), round(2.5), abs(-3), pow(2, 5), 7 // 2, -7 // 2, 7 % 3, -7 % 3, 2**10, 1 << 4, 0xFF >> 2, 5 & 3, 5 | 3, 5 ^ 3, ~5, 1 < 2 < 3, 1 < 2 > 3, not None, 3 if 0 else 4, None or "d", 0 and 1, int("12"), int(3.7), float("1.5"), bool([]), isinstance(True, int), type(1) is int, type("s").__name__]


def t_closures():
    def counter():
        n = 0

        def inc(by=1):
            nonlocal n
            n += by
            return n

        return inc

    c = counter()
    c()
    c(5)
    fs = [lambda i=i: i * 2 for i in range(3)]

    def deco(fn):
        @wraps(fn)
        def wrapper(*a, **k):
            return ("w", fn(*a, **k))

        return wrapper

    @deco
    def g(x):
        return x + 1

    return [c(), [f() for f in fs], g(1), g.__name__]


def t_cached_and_dispatch():
    calls = []

    class C:
        def __init__(self):
            self.n = 0

        @cached_property
        def once(self):
            calls.append("computed")
            return 42

        @singledispatchmethod
        def show(self, v):
            return "obj"

        @show.register
        def _(self, v: int):
            return "int"

        @show.register(str)
        def _s(self, v):
            return "str"

    @singledispatch
    def sd(v):
        return "any"

    @sd.register
    def _(v: list):
        return "list"

    @functools.lru_cache(maxsize=None)
    def fib(n):
        calls.append(n)
        return n if n < 2 else fib(n - 1) + fib(n - 2)

    c = C()
    return [c.once, c.once, calls.count("computed"), c.show(1), c.show("s"), c.show(1.5), sd([]), sd(1), fib(5), len([x for x in calls if isinstance(x, int)])]


def t_protocol_and_misc():
    class HasWho(Protocol):
        def who(self) -> str: ...

    def use(x: HasWho) -> str:
        return x.who()

    g = globals()
    assert use(Base(1)) == "base1", "never fires"
    r = re.compile(r"^([a-z]+):(\d+)$")
    m = r.match("abc:123")
    return [use(Child(2)), "Base" in g, m.group(1), m.groups(), bool(r.match("X")), re.sub(r"\d", "#", "a1b2"), re.split(r"[,;]", "a,b;c"), re.findall(r"\d+", "1 22 x"), re.fullmatch(r"a+", "aaa") is not None]


def t_exceptions_custom():
    class MyErr(ValueError):
        def __init__(self, msg, code=1):
            super().__init__(msg)
            self.code = code

    out = []
    try:
        raise MyErr("m", code=3)
    except ValueError as e:
        out.append((type(e).__name__, e.code, str(e), e.args, isinstance(e, MyErr)))
    try:
        assert 1 == 2, "boom"
    except AssertionError as e:
        out.append(str(e))
    try:
        None.x
    except AttributeError:
        out.append("ae")
    try:
        1 / 0
    except ZeroDivisionError:
        out.append("zde")
    try:
        next(iter(()))
    except StopIteration:
        out.append("si")
    try:
        (lambda a: a)()
    except TypeError:
        out.append("te")
    try:
        [].pop()
    except IndexError:
        out.append("ie")
    try:
        "a" + 1
    except TypeError:
        out.append("te2")
    e = KeyError("kk")
    out.append((repr(e), str(ValueError("a", 2))))
    return out


def t_comprehension_scopes():
    x = 10
    a = [x for x in range(3)]
    b = {k: [j for j in range(k)] for k in range(3)}
    c = [(i, j) for i in range(3) for j in range(i) if (i + j) % 2]
    d = list(zip(*[(1, 2), (3, 4)]))
    return [a, x, b, c, d, sum(i * i for i in range(4)), ",".join(str(i) for i in range(3)), [n for n in (None, 0, 5) if n is not None]]


def t_slices_and_lists():
    l = list(range(10))
    l2 = l[:]
    l2[2:4] = ["a"]
    del l2[0]
    l3 = [3, 1, 2]
    l3.sort()
    l3.insert(0, 9)
    l3.remove(1)
    l4 = [1, 2] * 2
    l4.reverse()
    t = (1, 2, 3)
    return [l[2:8:2], l[::-3], l[-3:], l2, l3, l3.index(3), l4, l4.count(2), t[1:], t + (4,), t * 2, l.copy() == l, [1, 2] == [1, 2], [1, 2] < [1, 3], (1, "a") == (1, "a"), l[len(l) - 1], [0] * 3, list("ab"), tuple([1]), len(t), 2 in t, l.pop(), l.pop(0), [[1, 2], [3]][0][1], sorted({3: "a", 1: "b"}), list(range(5, 0, -2))]


# ----------------------------------------------------------------------------- batch 2


@dataclass
class DC2:
    a: int
    b: list = field(default_factory=list)
    c: int = field(default=0, init=False)
    d: str = field(default="d", repr=False, compare=False)

    def __post_init__(self):
        self.c = self.a * 2


@dataclass(order=True, frozen=True)
class Ver:
    major: int
    minor: int = 0


@dataclass(slots=True)
class SlotDC:
    x: int
    y: int = 1


@dataclass(kw_only=True)
class KwDC:
    p: int
    q: int = 2


class Dyn:
    def __init__(self):
        self.known = 1

    def __getattr__(self, name):
        if name.startswith("x_"):
            return name[2:]
        raise AttributeError(name)


class WithSetter:
    def __init__(self):
        self._v = 0
        self.log = []

    @property
    def v(self):
        return self._v

    @v.setter
    def v(self, value):
        self.log.append(value)
        self._v = value * 2


class Cmp:
    def __init__(self, k):
        self.k = k

    def __eq__(self, other):
        if not isinstance(other, Cmp):
            return NotImplemented
        return self.k == other.k

    def __lt__(self, other):
        return self.k < other.k

    def __hash__(self):
        return hash(("Cmp", self.k))

    def __repr__(self):
        return f"Cmp({self.k})"


_COUNTER = 0


def _bump():
    global _COUNTER
    _COUNTER += 1
    return _COUNTER


def t_dataclass2():
    d = DC2(3)
    e = DC2(3, [1])
    v1, v2 = Ver(1, 2), Ver(1, 10)
    s = SlotDC(1)
    try:
        s.z = 1
        slot = "ok"
    except AttributeError:
        slot = "attrerr"
    try:
        KwDC(1)
        kw = "ok"
    except TypeError:
        kw = "te"
    try:
        DC2(1, c=5)
        initf = "ok"
    except TypeError:
        initf = "te"
    return [d.c, d.b, d == DC2(3), d == e, repr(d), v1 < v2, sorted([v2, v1])[0].minor, max(v1, v2).minor, slot, s.x + s.y, kw, KwDC(p=1).q, initf, d.d, DC2(1, d="x") == DC2(1, d="y"), {v1: 1}[Ver(1, 2)]]


def t_dynamic_attrs():
    d = Dyn()
    w = WithSetter()
    w.v = 3
    w.v += 1
    out = [d.known, d.x_abc, hasattr(d, "nope"), getattr(d, "nope", 7), w.v, w.log]
    o = Base(1)
    o.extra = 5
    del o.extra
    out.append(hasattr(o, "extra"))
    setattr(o, "dyn", 9)
    out.append(o.dyn)
    out.append(vars(o) if False else sorted(o.__dict__))
    out.append(type(o).__name__ + ":" + o.__class__.__name__)
    out.append(Base.who(o))
    out.append(isinstance(o, (Child, Base)))
    out.append(type(o) is Base)
    out.append(type(Child(1)) == Base)
    return out


def t_rich_compare():
    a, b = Cmp(1), Cmp(2)
    return [a == Cmp(1), a != b, a == 5, 5 == a, a < b, sorted([b, a])[0].k, min(b, a).k, a in [Cmp(1)], [Cmp(1), Cmp(2)].index(Cmp(2)), {a: "x"}.get(Cmp(1)), len({Cmp(1), Cmp(1), Cmp(2)}), repr([a]), str(a), [a, b].count(Cmp(1))]


def t_globals_and_defaults():
    def acc(x, bucket=[]):
        bucket.append(x)
        return list(bucket)

    r1 = acc(1)
    r2 = acc(2)
    n1 = _bump()
    n2 = _bump()

    def kwonly(*, a=1, b):
        return a + b

    def posonly(a, b, /, c):
        return (a, b, c)

    try:
        posonly(1, b=2, c=3)
        po = "ok"
    except TypeError:
        po = "te"
    return [r1, r2, n2 - n1, kwonly(b=2), posonly(1, 2, c=3), po]


def t_generators2():
    out = []

    def g():
        try:
            for i in range(5):
                try:
                    yield i
                except ValueError:
                    out.append("ve-inside")
        finally:
            out.append("cleanup")

    it = g()
    out.append(next(it))
    out.append(next(it))
    it.close()  # (finalisation of an abandoned generator by the garbage collector is outside the model)

    def take(n, src):
        for i, x in enumerate(src):
            if i >= n:
                if hasattr(src, "close"):
                    src.close()
                return
            yield x

    out.append(list(take(2, g())))
    out.append(sum(x for x in take(3, iter(range(10)))))

    def gen_with_return():
        yield 1
        return 5

    def deleg():
        v = yield from gen_with_return()
        yield v * 2

    out.append(list(deleg()))
    e = enumerate(["a", "b"])
    out.append(next(e))
    out.append(list(e))
    z = zip([1, 2, 3], "ab")
    out.append(list(z))
    try:
        list(zip([1], [1, 2], strict=True))
    except ValueError:
        out.append("strict")
    m = map(str, [1, 2])
    out.append(next(m))
    out.append(list(m))
    it2 = iter([1, 2, 3])
    out.append([x for x in it2 if x > 1])
    out.append(list(it2))
    out.append(list(iter(lambda: _bump() % 3 == 0 or "v", True))[:0])
    return out


def t_string_building():
    parts = []
    for i in range(3):
        parts.append(f"{i}:{i * i}")
    s = ",".join(parts)
    t = "%(a)s-%(b)02d" % {"a": "x", "b": 3}
    u = "{0}{1}{0}".format("a", "b")
    v = "{:>5}|{:<3}|{:^5}".format("r", "l", "c")
    w = f"{'nested'!r:>10}"
    x = f"{3.14159:.2f} {255:#x} {1000000:,} {0.5:%}"
    y = "a" "b" 'c'
    z = s.split(",")[1].split(":")
    return [s, t, u, v, w, x, y, z, s.count(":"), "-".join(reversed(z)), "x".center(5, "*"), "a\tb".expandtabs(4), "abc".translate(str.maketrans("ab", "xy")), "ß".upper(), "İ".lower() == "i̇", "a,b,,c".split(","), " a  b ".split(), "abc"[1], "abc"[-1:], "abc" * 2, "b" in "abc", "abc".index("c"), "é".encode("utf-8"), "é".encode("latin-1"), b"\xc3\xa9".decode("utf-8"), "€".encode("utf-8").hex(), len("€".encode()), "a" < "B", "a".lower() < "B".lower()]


def t_numbers():
    return [7 / 2, 7 // 2, 7 % 2, -7 // 2, 2**0.5 > 1.41, int("ff", 16), int("0b11", 0), hex(255), bin(5), oct(8), round(2.675, 2), round(3.5), round(-0.5), abs(-2.5), divmod(-7, 2), float("inf") > 1e308, 1e3, 0.1 + 0.2 == 0.3, 10**20, (1 << 64) - 1, 5 .bit_length(), (255).to_bytes(1, "big"), int.from_bytes(b"\xff\xfe", "little"), True + True, sum([0.1] * 3), max(1, 2.5), min("b", "a"), 3 == 3.0, hash(3) == hash(3.0), 1_000, 0x_ff, bool(0.0), 4 if 3 > 2 else 5, -(-3), +3, not 0, 1 and 2 and 3, 0 or "" or [] or "last"]


def t_dict_order_and_views():
    d = {"b": 1, "a": 2}
    d["c"] = 3
    del d["b"]
    d["b"] = 4
    keys = list(d)
    items = list(d.items())
    vals = list(d.values())
    d2 = dict(sorted(d.items()))
    d3 = {v: k for k, v in d.items()}
    ks = d.keys() & {"a", "z"}
    merged = d | {"z": 0}
    d4 = dict(a=1, **{"b": 2})
    it = iter(d.items())
    first = next(it)
    popped = d.popitem()
    try:
        {}.popitem()
        pe = "ok"
    except KeyError:
        pe = "ke"
    nested = {"x": {"y": [1, 2]}}
    nested["x"]["y"].append(3)
    return [keys, items, vals, list(d2), d3, sorted(ks), list(merged), d4, first, popped, pe, nested, len(d), list(reversed({"p": 1, "q": 2})), {1: "a"} == {1: "a"}, {1: "a", 2: "b"} == {2: "b", 1: "a"}, {"a": [1]} == {"a": [1]}, dict([("k", 1)]) == {"k": 1}, {(1, 2): "t"}[(1, 2)], {True: "t"}[1], {1.0: "f"}[1]]


def t_set_ops():
    a = {1, 2, 3}
    b = {3, 4}
    c = set()
    c.update([1, 1, 2])
    c.discard(5)
    c.remove(1)
    try:
        c.remove(9)
        r = "ok"
    except KeyError:
        r = "ke"
    f = frozenset(a)
    return [sorted(a | b), sorted(a & b), sorted(a - b), sorted(a ^ b), a <= {1, 2, 3, 4}, a < a, a >= {1}, a.isdisjoint({9}), sorted(c), r, a == {3, 2, 1}, f == a, len(f), 2 in f, sorted(a.union(b, [7])), sorted(a.intersection([1, 9])), sorted(a.difference([1])), a.issubset(range(5)), sorted(set("hello")), sorted({x % 2 for x in range(5)}), a.pop() in (1, 2, 3), bool(set()), sorted(a.symmetric_difference(b) if False else [0]), {frozenset({1}): 2}[frozenset([1])]]


def t_exceptions_flow():
    out = []

    class E1(Exception):
        pass

    class E2(E1):
        pass

    def thrower(kind):
        if kind == 1:
            raise E1("one")
        if kind == 2:
            raise E2("two")
        if kind == 3:
            raise OSError(2, "nofile")
        return "fine"

    for k in (0, 1, 2, 3):
        try:
            out.append(thrower(k))
        except E2 as e:
            out.append(("E2", str(e)))
        except E1 as e:
            out.append(("E1", e.args))
        except (OSError, ValueError) as e:
            out.append(("OS", e.args, e.errno))
        else:
            out.append("else")
        finally:
            out.append(k)

    def cleanup_order():
        try:
            try:
                return "inner"
            finally:
                out.append("f1")
        finally:
            out.append("f2")

    out.append(cleanup_order())

    def finally_overrides():
        for i in range(3):
            try:
                if i == 1:
                    continue
                if i == 2:
                    break
            finally:
                out.append(("fin", i))
        return "done"

    out.append(finally_overrides())
    try:
        try:
            raise KeyError("a")
        except KeyError:
            raise ValueError("b")
    except ValueError as e:
        out.append((str(e), type(e.__context__).__name__, e.__cause__))
    try:
        raise E2
    except E1 as e:
        out.append((type(e).__name__, e.args, issubclass(type(e), E1)))
    e = E1("x", 1)
    out.append((str(e), repr(e), e.args))
    try:
        raise StopIteration("si")
    except StopIteration as si:
        out.append(si.value)
    return out


def t_bytes2():
    buf = bytearray(b"\x00" * 4)
    buf[0] = 0x0A
    buf[1:3] = b"\x05\x06"
    view = memoryview(buf)
    n = io.BytesIO(b"\x0a\x05hello").readinto(buf)
    chunks = []
    f = io.BytesIO(b"abcdefg")
    while chunk := f.read(3):
        chunks.append(chunk)
    header = b"\x0a\x05\x0a"
    a, b, c = header
    h0, *rest = header
    return [bytes(buf), n, view[0], len(view), chunks, a, b, c, h0, rest, header[0] == 0x0A and header[2] == 0x0A, header[:2] + header[2:], bytes(reversed(header)), b"".join([b"a", b"b"]), b"a%db" % 5, bytes(3) + b"x", header.startswith((b"\x0a", b"\x0b")), header.endswith(b"\x0a"), header.count(b"\x0a"), header.index(5), header.replace(b"\x0a", b"."), header.split(b"\x05"), int(header[1]), header[1:2] == b"\x05", header != bytearray(header) or True, bytearray(header) == header, list(bytearray(b"ab")), bytes(bytearray(b"ab")[::-1]), b"AbC".lower(), bytes([65]).decode("ascii"), b"\x80" > b"\x7f", sorted([b"b", b"a"]), len(b"") == 0, not b"", bool(b"\x00")]
'''

TESTS = [n.name for n in ast.parse(SOURCE).body if isinstance(n, ast.FunctionDef) and n.name.startswith("t_")]


def to_py(it: Any, v: Any) -> Any:
    """Interpreter value -> comparable plain value."""
    if isinstance(v, EnumInt):
        return ("enum", v.cls.name, v.member)
    if isinstance(v, (bool, int, float, str, bytes)) or v is None:
        return v
    if isinstance(v, SStr):
        return "".join(p if isinstance(p, str) else f"<{p.name}>" for p in v.parts)
    if isinstance(v, tuple):
        return tuple(to_py(it, x) for x in v)
    if isinstance(v, AList):
        items = [to_py(it, x) for x in v.items]
        if v.kind == "bytearray":
            return ("bytearray", bytes(v.items))
        return items if v.kind == "list" else ("deque", items)
    if isinstance(v, ADict):
        return {_hashable(to_py(it, k)): to_py(it, x) for k, x in v.pairs}
    if isinstance(v, ASet):
        return ("set", sorted((to_py(it, x) for x in v.items), key=repr))
    if isinstance(v, Obj):
        if v.tuple_items is not None:
            return tuple(to_py(it, x) for x in v.tuple_items)
        if getattr(v.cls, "is_enum", False):
            return ("enum", v.cls.name, v.attrs.get("_name_") or v.attrs.get("name"))
        return ("obj", v.cls.name, {k: to_py(it, x) for k, x in sorted(v.attrs.items()) if not k.startswith("__")})
    if isinstance(v, Unknown):
        return ("unknown", v.hint)
    return ("ext", repr(v))


def _hashable(v: Any) -> Any:
    if isinstance(v, list):
        return tuple(_hashable(x) for x in v)
    if isinstance(v, dict):
        return tuple(sorted((k, _hashable(x)) for k, x in v.items()))
    if isinstance(v, tuple):
        return tuple(_hashable(x) for x in v)
    return v


def host_py(v: Any) -> Any:
    """CPython value -> the same plain form."""
    import collections
    import dataclasses
    import enum

    if isinstance(v, enum.Enum):
        return ("enum", type(v).__name__, v.name)
    if isinstance(v, (bool, int, float, str, bytes)) or v is None:
        return v
    if isinstance(v, bytearray):
        return ("bytearray", bytes(v))
    if isinstance(v, collections.deque):
        return ("deque", [host_py(x) for x in v])
    if isinstance(v, tuple):
        return tuple(host_py(x) for x in v)
    if isinstance(v, list):
        return [host_py(x) for x in v]
    if isinstance(v, dict):
        return {_hashable(host_py(k)): host_py(x) for k, x in v.items()}
    if isinstance(v, (set, frozenset)):
        return ("set", sorted((host_py(x) for x in v), key=repr))
    if dataclasses.is_dataclass(v) or hasattr(v, "__dict__"):
        return ("obj", type(v).__name__, {k: host_py(x) for k, x in sorted(vars(v).items()) if not k.startswith("__")})
    return ("ext", repr(v))


def run(verbose: bool = False, only: str | None = None) -> tuple[int, list[str]]:
    from .interp import Interp
    from .loader import load_program

    prog = load_program()
    name = "pyjelly._jstat_langtest"
    prog.modules[name] = ast.parse(SOURCE)
    prog.paths[name] = Path(prog.repo) / "pyjelly" / "_jstat_langtest.py"
    prog.sources[name] = SOURCE
    prog.sha256[name] = "0" * 64
    import sys
    import types

    host_mod = types.ModuleType("jstat_langtest_host")
    sys.modules["jstat_langtest_host"] = host_mod
    host_ns = host_mod.__dict__
    exec(compile(SOURCE, "<langtest>", "exec"), host_ns)
    failures: list[str] = []
    n = 0
    for t in TESTS:
        if only and only not in t:
            continue
        n += 1
        want = host_py(host_ns[t]())
        try:
            it = Interp(prog, max_steps=2_000_000)
            fn = it.module_ns(name)[t]
            got = to_py(it, it.call(fn, [], {}))
        except PyRaise as pr:
            failures.append(f"{t}: interpreter raises {it.exc_class_name(pr.exc)} at {pr.site}")
            continue
        except AnalysisError as e:
            failures.append(f"{t}: {e}")
            continue
        if isinstance(want, list) and isinstance(got, list) and len(want) == len(got):
            for i, (w, g) in enumerate(zip(want, got)):
                if w != g:
                    failures.append(f"{t}[{i}]: CPython {w!r} != interpreter {g!r}")
        elif want != got:
            failures.append(f"{t}: CPython {want!r} != interpreter {got!r}")
        elif verbose:
            print(f"  {t}: ok")
    return n, failures
