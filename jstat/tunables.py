"""Tunable integer constants of the analysed source, and their scaling.

The abstract statement/byte sequences the checks push through pyjelly are short (a handful of
statements), so a behaviour that only starts beyond a *threshold written in the source* — a batch
of 1000 statements, a 64 KiB read chunk, the default frame size of 250 rows — is out of their
reach.  The properties, however, do not depend on such thresholds: they are stated for every input
length and every chunking.  The remedy is a parametricity argument instead of longer inputs: every
integer literal >= MIN_TUNABLE of the hand-written pyjelly source that is not a *specification
constant* is treated as a parameter, and selected jobs are re-run with all parameters set to a small
value (SCALE), so that the short abstract sequences cross every threshold.  A literal whose value is
part of the format (table-size cap, default table sizes that are announced in the options row) is
listed in SPEC_CONSTANTS with its reason and keeps its value.

Keys are structural, never positional: ``module.NAME`` for a module- or class-level assignment,
``module.qualname:<value>`` for a literal inside a function (default values included).
"""
from __future__ import annotations

import ast

MIN_TUNABLE = 16
SCALE = 2

# key -> reason the value is part of the format or of the announced configuration
SPEC_CONSTANTS: dict[str, str] = {
    "pyjelly.options.MAX_LOOKUP_SIZE": "specification cap on lookup table sizes (C13/C17 decide its enforcement)",
    "pyjelly.options.DEFAULT_NAME_LOOKUP_SIZE": "default table size announced in the options row; values below 8 are invalid",
    "pyjelly.options.DEFAULT_PREFIX_LOOKUP_SIZE": "default table size announced in the options row",
    "pyjelly.options.DEFAULT_DATATYPE_LOOKUP_SIZE": "default table size announced in the options row",
    "pyjelly.options.LookupPreset.small:128": "preset table size announced in the options row",
    "pyjelly.options.LookupPreset.small:32": "preset table size announced in the options row",
}


def _index_module(mod: str, tree: ast.Module) -> dict[int, str]:
    out: dict[int, str] = {}

    def visit(node: ast.AST, scope: list[str], in_func: bool, target: str | None) -> None:
        if isinstance(node, ast.Constant):
            if type(node.value) is int and node.value >= MIN_TUNABLE:
                q = ".".join([mod] + scope)
                out[id(node)] = f"{q}.{target}" if (target and not in_func) else f"{q}:{node.value}"
            return
        if isinstance(node, (ast.FunctionDef, ast.AsyncFunctionDef)):
            # defaults and decorators belong to the function's key space as well
            for child in ast.iter_child_nodes(node):
                visit(child, scope + [node.name], True, None)
            return
        if isinstance(node, ast.ClassDef):
            for child in ast.iter_child_nodes(node):
                visit(child, scope + [node.name], in_func, None)
            return
        if isinstance(node, ast.Assign) and len(node.targets) == 1 and isinstance(node.targets[0], ast.Name):
            visit(node.value, scope, in_func, node.targets[0].id)
            return
        if isinstance(node, ast.AnnAssign) and isinstance(node.target, ast.Name) and node.value is not None:
            visit(node.value, scope, in_func, node.target.id)
            return
        if isinstance(node, ast.Expr) and isinstance(node.value, ast.Constant) and isinstance(node.value.value, str):
            return  # docstring
        if isinstance(node, ast.BinOp) and isinstance(node.op, (ast.BitAnd, ast.BitOr, ast.BitXor, ast.LShift, ast.RShift)):
            # masks and shift widths (0x80, 0x7F, 64 of a varint decoder) are part of an encoding, not thresholds
            for child in (node.left, node.right):
                if not isinstance(child, ast.Constant):
                    visit(child, scope, in_func, None)
            return
        if isinstance(node, ast.AugAssign) and isinstance(node.op, (ast.BitAnd, ast.BitOr, ast.BitXor, ast.LShift, ast.RShift)) and isinstance(node.value, ast.Constant):
            return
        for child in ast.iter_child_nodes(node):
            visit(child, scope, in_func, target if isinstance(node, (ast.BinOp, ast.UnaryOp)) else None)

    visit(tree, [], False, None)
    return out


def index(program) -> dict[int, str]:
    """id(ast.Constant) -> structural key, for every candidate literal of the hand-written modules."""
    cached = getattr(program, "_tunable_index", None)
    if cached is not None:
        return cached
    from .loader import SCHEMA_MODULES

    idx: dict[int, str] = {}
    for mod, tree in program.modules.items():
        if mod in SCHEMA_MODULES or mod.startswith("pyjelly.jelly"):
            continue
        idx.update(_index_module(mod, tree))
    program._tunable_index = idx
    return idx


def inventory(program) -> dict[str, list[str]]:
    """{'spec': [...], 'tunable': [...]} keys found in today's source (for the evidence file)."""
    keys = sorted(set(index(program).values()))
    return {"spec": [k for k in keys if k in SPEC_CONSTANTS], "tunable": [k for k in keys if k not in SPEC_CONSTANTS]}


def scaled_or_plain(run_once, prog, job: dict, raises) -> dict:
    """Run a job; for a scaled job fall back to the unscaled run when scaling makes the analysed code RAISE something
    the unscaled run does not raise: such a literal is a validation bound, not a tunable, and a job that trips it says
    nothing about the property (no verdict rather than an alarm).  ``raises(result) -> set`` extracts the exceptions
    seen in a result."""
    if not job.get("tunable_scale"):
        return run_once(prog, job)
    from .errors import AnalysisError

    try:
        res = run_once(prog, job)
    except AnalysisError as e:
        # scaling drove the analysed code somewhere the engine has no model for: no verdict from the scaled twin
        plain_job = {k: v for k, v in job.items() if k != "tunable_scale"}
        plain = run_once(prog, plain_job)
        plain["job"] = dict(plain["job"], tunable_scale=None, tunable_scale_dropped=[f"analysis: {str(e)[:120]}"])
        if "name" in job and "name" in plain["job"]:
            plain["job"]["name"] = job["name"]
        return plain
    seen = raises(res)
    if not seen:
        return res
    plain_job = {k: v for k, v in job.items() if k != "tunable_scale"}
    plain = run_once(prog, plain_job)
    if seen <= raises(plain):
        return res
    plain["job"] = dict(plain["job"], tunable_scale=None, tunable_scale_dropped=sorted(map(str, seen - raises(plain))))
    for k in ("name",):
        if k in job and k in plain["job"]:
            plain["job"][k] = job[k]
    return plain
