"""Conformance of the protobuf message model (jstat.models: Msg, presence, oneofs, repeated and map fields — part of
the trusted base) with the real generated module pyjelly.jelly.rdf_pb2: concrete snippet functions are evaluated by
the abstract interpreter on the model and by CPython on protobuf itself; the results must agree.  Tests the tool,
decides no property.  `python -m jstat pbtest` (needs protobuf importable: /venv/bin/python).
"""
from __future__ import annotations

import ast
from pathlib import Path
from typing import Any

from .errors import AnalysisError
from .values import PyRaise

SOURCE = r'''
from __future__ import annotations
from pyjelly import jelly


def t_scalars_and_presence():
    iri = jelly.RdfIri()
    out = [iri.prefix_id, iri.name_id]
    iri.prefix_id = 3
    out += [iri.prefix_id, iri.name_id]
    iri2 = jelly.RdfIri(prefix_id=0, name_id=7)
    out += [iri2.prefix_id, iri2.name_id, iri2 == jelly.RdfIri(name_id=7), iri2 == jelly.RdfIri(name_id=8), jelly.RdfIri() == jelly.RdfIri(prefix_id=0)]
    lit = jelly.RdfLiteral(lex="x")
    out += [lit.lex, lit.langtag, lit.datatype, lit.WhichOneof("literalKind")]
    lit.langtag = "en"
    out += [lit.WhichOneof("literalKind"), lit.HasField("langtag"), lit.HasField("datatype")]
    lit.datatype = 4
    out += [lit.WhichOneof("literalKind"), lit.HasField("langtag"), lit.langtag, lit.datatype]
    lit0 = jelly.RdfLiteral(lex="y", datatype=0)
    out += [lit0.WhichOneof("literalKind"), lit0.HasField("datatype"), lit0.datatype]
    try:
        iri.nope = 1
        out.append("assigned")
    except AttributeError:
        out.append("attrerr")
    try:
        jelly.RdfIri(nope=1)
        out.append("constructed")
    except ValueError:
        out.append("valueerr")
    try:
        iri.prefix_id = "x"
        out.append("assigned")
    except TypeError:
        out.append("typeerr")
    return out


def t_oneof_terms():
    t = jelly.RdfTriple()
    out = [t.WhichOneof("subject"), t.HasField("s_iri"), t.s_bnode]
    t.s_bnode = "b1"
    out += [t.WhichOneof("subject"), t.HasField("s_bnode"), t.s_bnode]
    t.s_iri.name_id = 5
    out += [t.WhichOneof("subject"), t.HasField("s_bnode"), t.s_bnode, t.s_iri.name_id]
    # reading a sub-message does not set it; CopyFrom / mutation does
    t2 = jelly.RdfTriple()
    _ = t2.o_literal
    out += [t2.WhichOneof("object"), t2.HasField("o_literal")]
    t2.o_literal.lex = "v"
    out += [t2.WhichOneof("object"), t2.HasField("o_literal")]
    t3 = jelly.RdfTriple()
    t3.p_iri.CopyFrom(jelly.RdfIri())
    out += [t3.WhichOneof("predicate"), t3.HasField("p_iri"), t3.p_iri.name_id]
    t4 = jelly.RdfTriple(s_iri=jelly.RdfIri(prefix_id=1, name_id=2), p_bnode="p", o_triple_term=jelly.RdfTriple(s_bnode="q"))
    out += [t4.WhichOneof("subject"), t4.s_iri.prefix_id, t4.WhichOneof("predicate"), t4.WhichOneof("object"), t4.o_triple_term.s_bnode, t4.o_triple_term.WhichOneof("predicate")]
    q = jelly.RdfQuad()
    q.g_default_graph.CopyFrom(jelly.RdfDefaultGraph())
    out += [q.WhichOneof("graph"), q.HasField("g_default_graph")]
    q.g_literal.lex = "g"
    out += [q.WhichOneof("graph"), q.HasField("g_default_graph")]
    t.ClearField("s_iri")
    out += [t.WhichOneof("subject")]
    try:
        t.HasField("nope")
        out.append("ok")
    except ValueError:
        out.append("valueerr")
    return out


def t_rows_and_frames():
    row = jelly.RdfStreamRow()
    out = [row.WhichOneof("row")]
    row.name.value = "n"
    out += [row.WhichOneof("row"), row.name.id, row.name.value, row.HasField("name"), row.HasField("prefix")]
    row2 = jelly.RdfStreamRow(triple=jelly.RdfTriple(s_bnode="s"))
    out += [row2.WhichOneof("row"), row2.triple.s_bnode]
    frame = jelly.RdfStreamFrame()
    out += [len(frame.rows), bool(frame.rows), len(frame.metadata)]
    frame.rows.append(row)
    frame.rows.extend([row2, jelly.RdfStreamRow()])
    out += [len(frame.rows), frame.rows[0].WhichOneof("row"), frame.rows[-1].WhichOneof("row"), [r.WhichOneof("row") for r in frame.rows]]
    # appended messages are copies
    row.name.value = "changed"
    out += [frame.rows[0].name.value]
    f2 = jelly.RdfStreamFrame(rows=[row2])
    out += [len(f2.rows), f2 == jelly.RdfStreamFrame(rows=[jelly.RdfStreamRow(triple=jelly.RdfTriple(s_bnode="s"))])]
    f2.metadata["k"] = b"v"
    out += [dict(f2.metadata), "k" in f2.metadata, len(f2.metadata)]
    added = frame.rows.add()
    added.graph_end.CopyFrom(jelly.RdfGraphEnd())
    out += [len(frame.rows), frame.rows[3].WhichOneof("row")]
    del frame.rows[0]
    out += [len(frame.rows)]
    f3 = jelly.RdfStreamFrame()
    f3.CopyFrom(frame)
    frame.rows.append(jelly.RdfStreamRow())
    out += [len(f3.rows), len(frame.rows)]
    try:
        frame.rows = []
        out.append("assigned")
    except AttributeError:
        out.append("attrerr")
    return out


def t_options_and_enums():
    o = jelly.RdfStreamOptions(stream_name="s", physical_type=jelly.PHYSICAL_STREAM_TYPE_TRIPLES, max_name_table_size=8)
    out = [o.stream_name, o.physical_type, o.logical_type, o.generalized_statements, o.rdf_star, o.max_name_table_size, o.max_prefix_table_size, o.version]
    out += [jelly.PHYSICAL_STREAM_TYPE_QUADS, jelly.LOGICAL_STREAM_TYPE_GRAPHS, jelly.LOGICAL_STREAM_TYPE_UNSPECIFIED == 0]
    out += [jelly.PhysicalStreamType.Name(2), jelly.PhysicalStreamType.Value("PHYSICAL_STREAM_TYPE_GRAPHS"), jelly.LogicalStreamType.Name(o.logical_type)]
    o.logical_type = jelly.LOGICAL_STREAM_TYPE_FLAT_TRIPLES
    out += [o.logical_type, o == jelly.RdfStreamOptions(stream_name="s", physical_type=1, max_name_table_size=8, logical_type=1)]
    row = jelly.RdfStreamRow(options=o)
    o.version = 2
    out += [row.options.version, row.WhichOneof("row")]
    try:
        jelly.PhysicalStreamType.Name(77)
        out.append("named")
    except ValueError:
        out.append("valueerr")
    return out


def t_serialisation_facts():
    empty = jelly.RdfTriple()
    out = [empty.ByteSize(), len(empty.SerializeToString()), jelly.RdfStreamFrame().ByteSize(), bool(jelly.RdfStreamFrame()), bool(empty)]
    one = jelly.RdfTriple(s_bnode="")
    out += [one.ByteSize() > 0, one.HasField("s_bnode"), jelly.RdfTriple(s_iri=jelly.RdfIri()).ByteSize() > 0, jelly.RdfIri(name_id=0).ByteSize()]
    a = jelly.RdfStreamRow(name=jelly.RdfNameEntry(id=0, value="v"))
    b = jelly.RdfStreamRow(name=jelly.RdfNameEntry(value="v"))
    out += [a.SerializeToString() == b.SerializeToString(), a == b, a.SerializeToString(deterministic=True) == b.SerializeToString(deterministic=True)]
    return out
'''

TESTS = [n.name for n in ast.parse(SOURCE).body if isinstance(n, ast.FunctionDef) and n.name.startswith("t_")]


def run(verbose: bool = False, only: str | None = None) -> tuple[int, list[str]]:
    import sys
    import types

    from .interp import Interp
    from .langtest import host_py, to_py
    from .loader import REPO, load_program

    prog = load_program()
    sys.path.insert(0, str(REPO))
    try:
        from pyjelly import jelly  # noqa: F401
    except ImportError as e:
        return 0, [f"pyjelly.jelly is not importable in this interpreter ({e}): the conformance test needs /venv/bin/python"]
    name = "pyjelly._jstat_pbtest"
    prog.modules[name] = ast.parse(SOURCE)
    prog.paths[name] = Path(prog.repo) / "pyjelly" / "_jstat_pbtest.py"
    prog.sources[name] = SOURCE
    prog.sha256[name] = "0" * 64
    host_mod = types.ModuleType("jstat_pbtest_host")
    sys.modules["jstat_pbtest_host"] = host_mod
    exec(compile(SOURCE, "<pbtest>", "exec"), host_mod.__dict__)
    failures: list[str] = []
    count = 0
    for t in TESTS:
        if only and only not in t:
            continue
        count += 1
        want = host_py(host_mod.__dict__[t]())
        try:
            it = Interp(prog, max_steps=2_000_000)
            got = to_py(it, it.call(it.module_ns(name)[t], [], {}))
        except PyRaise as pr:
            failures.append(f"{t}: interpreter raises {it.exc_class_name(pr.exc)} {getattr(pr.exc, 'attrs', {}).get('args')} at {pr.site}")
            continue
        except AnalysisError as e:
            failures.append(f"{t}: {e}")
            continue
        if isinstance(want, list) and isinstance(got, list) and len(want) == len(got):
            for i, (w, g) in enumerate(zip(want, got)):
                if w != g:
                    failures.append(f"{t}[{i}]: protobuf {w!r} != model {g!r}")
        elif want != got:
            failures.append(f"{t}: protobuf {want!r} != model {got!r}")
        elif verbose:
            print(f"  {t}: ok")
    return count, failures
