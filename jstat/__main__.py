"""CLI: python -m jstat check C06 --tier quick | replay <path> | selftest"""
from __future__ import annotations

import argparse
import importlib
import json
import os
import sys

sys.setrecursionlimit(20000)


def main(argv: list[str] | None = None) -> int:
    ap = argparse.ArgumentParser(prog="jstat")
    sub = ap.add_subparsers(dest="cmd", required=True)
    c = sub.add_parser("check")
    c.add_argument("pid")
    c.add_argument("--tier", default=os.environ.get("VERIF_TIER", "quick"), choices=["quick", "thorough"])
    r = sub.add_parser("replay")
    r.add_argument("path")
    sub.add_parser("selftest")
    lt = sub.add_parser("langtest")
    lt.add_argument("only", nargs="?")
    rt = sub.add_parser("rdftest")
    rt.add_argument("only", nargs="?")
    pt = sub.add_parser("pbtest")
    pt.add_argument("only", nargs="?")
    args = ap.parse_args(argv)

    from .loader import load_program
    from .report import run_check

    if args.cmd == "selftest":
        try:
            prog = load_program()
            from .interp import Interp

            it = Interp(prog)
            for m in sorted(prog.modules):
                if m not in ("pyjelly.jelly", "pyjelly.jelly.rdf_pb2"):
                    it.module_ns(m)
            print(f"jstat selftest ok: {len(prog.modules)} modules, {len(prog.schema.messages)} messages")
            return 0
        except Exception as e:  # noqa: BLE001
            print(f"jstat selftest FAILED: {type(e).__name__}: {e}")
            return 2
    if args.cmd == "langtest":
        from . import langtest

        n, failures = langtest.run(verbose=True, only=args.only)
        for f_ in failures:
            print("  MISMATCH " + f_[:400])
        print(f"jstat langtest: {n} snippet functions, {len(failures)} mismatches")
        return 0 if not failures else 2
    if args.cmd == "pbtest":
        from . import pbtest

        n, failures = pbtest.run(verbose=True, only=args.only)
        for f_ in failures:
            print("  MISMATCH " + f_[:500])
        print(f"jstat pbtest: {n} snippet functions, {len(failures)} mismatches")
        return 0 if not failures else 2
    if args.cmd == "rdftest":
        from . import rdftest

        n, failures = rdftest.run(verbose=True, only=args.only)
        for f_ in failures:
            print("  MISMATCH " + f_[:500])
        print(f"jstat rdftest: {n} snippet functions, {len(failures)} mismatches")
        return 0 if not failures else 2
    if args.cmd == "replay":
        data = json.load(open(args.path))
        print(json.dumps(data, indent=1))
        pid = data.get("property")
        print(f"# re-running the check for {pid} on the current tree")
        args.pid = pid
        args.tier = "quick"
    pid = args.pid.upper()
    try:
        mod = importlib.import_module(f"jstat.rules.{pid.lower()}")
    except ModuleNotFoundError:
        print(f"ANALYSIS-ERROR property={pid} no rule module")
        return 2
    return run_check(pid, args.tier, mod.check, load_program)


if __name__ == "__main__":
    sys.exit(main())
