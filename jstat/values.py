"""Abstract value domain of the jstat interpreter.

Python constants (int/str/bytes/bool/None/float) and tuples of values stand for themselves.
Everything else is one of the classes below.  Nothing in here executes repository code.
"""
from __future__ import annotations

import ast
import itertools
from dataclasses import dataclass, field
from typing import Any

_uid = itertools.count(1)


def new_uid() -> int:
    return next(_uid)


# ----------------------------------------------------------------------------- strings


@dataclass(frozen=True)
class Atom:
    """An unknown, fixed string.  ``nosep``: contains neither '#' nor '/'.

    ``nonempty``: True / False / None (unknown)."""

    name: str
    nosep: bool = False
    nonempty: bool | None = True

    def __repr__(self) -> str:
        return f"‹{self.name}›"


@dataclass(frozen=True)
class SStr:
    """Symbolic string: a flat concatenation of constant pieces and atoms."""

    parts: tuple

    def __repr__(self) -> str:
        return "S(" + "+".join(repr(p) for p in self.parts) + ")"


def sstr(*parts) -> Any:
    """Normalising constructor: flattens, merges constants, returns a plain str when constant."""
    flat: list = []
    for p in parts:
        if isinstance(p, SStr):
            items = p.parts
        else:
            items = (p,)
        for q in items:
            if isinstance(q, str):
                if not q:
                    continue
                if flat and isinstance(flat[-1], str):
                    flat[-1] = flat[-1] + q
                else:
                    flat.append(q)
            elif isinstance(q, Atom):
                flat.append(q)
            else:  # pragma: no cover
                raise TypeError(f"sstr part {q!r}")
    if not flat:
        return ""
    if len(flat) == 1 and isinstance(flat[0], str):
        return flat[0]
    return SStr(tuple(flat))


@dataclass(frozen=True)
class SPos:
    """A character position inside a symbolic string: len(head) + delta, where head is a prefix of s."""

    s: Any  # SStr
    head: Any  # str | SStr: the part of s before the position (delta == 0)
    delta: int = 0

    def __repr__(self) -> str:
        return f"pos(len({self.head!r}){self.delta:+d} in {self.s!r})"


def is_strlike(v: Any) -> bool:
    return isinstance(v, (str, SStr))


# ----------------------------------------------------------------------------- unknowns


@dataclass(frozen=True)
class Unknown:
    """A value the analysis does not know.  ``key`` identifies it so that the same unknown
    condition is decided the same way every time on one path."""

    key: Any
    hint: str = ""
    positive: bool = False  # known to be a number > 0 (truthy without a decision)

    def __repr__(self) -> str:
        return f"?{self.hint or self.key}"


def fresh_unknown(hint: str = "") -> Unknown:
    return Unknown(("fresh", new_uid()), hint)


# ----------------------------------------------------------------------------- program entities


class EnumInt(int):
    """Member of an IntEnum / Enum defined in the repository (behaves as its int value)."""

    cls: Any
    member: str

    def __new__(cls, value: int, enum_cls: Any, member: str):
        obj = int.__new__(cls, value)
        obj.cls = enum_cls
        obj.member = member
        return obj

    def __repr__(self) -> str:
        return f"{self.cls.name}.{self.member}"


@dataclass(eq=False)
class FunctionInfo:
    name: str
    qualname: str
    module: str
    node: ast.AST  # FunctionDef | Lambda | GeneratorExp
    is_generator: bool
    defining_class: Any = None  # ClassInfo


@dataclass(eq=False)
class FuncRef:
    info: FunctionInfo
    env: Any  # enclosing Env (closure) or None for module-level
    defaults: dict[str, Any] = field(default_factory=dict)
    kind: str = "function"  # function | classmethod | staticmethod | property
    cached: bool = False

    def __repr__(self) -> str:
        return f"<fn {self.info.qualname}>"


@dataclass(eq=False)
class ClassInfo:
    name: str
    qualname: str
    module: str
    node: ast.ClassDef | None
    bases: list  # ClassInfo | ExtRef
    attrs: dict[str, Any] = field(default_factory=dict)
    annotations: dict[str, Any] = field(default_factory=dict)  # name -> annotation AST (class body order)
    dataclass: dict | None = None  # {'frozen': bool}
    is_namedtuple: bool = False
    nt_fields: list[str] = field(default_factory=list)
    is_enum: bool = False
    enum_members: list[str] = field(default_factory=list)
    mro: list = field(default_factory=list)
    shared: bool = True

    def __repr__(self) -> str:
        return f"<class {self.qualname}>"


@dataclass(eq=False)
class ExtRef:
    """A named entity of an external library (function, class, module, constant)."""

    name: str

    def __repr__(self) -> str:
        return f"<ext {self.name}>"

    def __hash__(self) -> int:
        return hash(("ext", self.name))

    def __eq__(self, other: object) -> bool:
        return isinstance(other, ExtRef) and other.name == self.name


@dataclass(eq=False)
class ModuleRef:
    name: str

    def __repr__(self) -> str:
        return f"<module {self.name}>"


@dataclass(eq=False)
class BoundMethod:
    self_obj: Any
    func: Any  # FuncRef | ExtMethod

    def __repr__(self) -> str:
        return f"<bound {self.func!r} of {type(self.self_obj).__name__}>"


@dataclass(eq=False)
class ExtMethod:
    """Method of a modelled external/builtin type, bound to its receiver."""

    recv: Any
    kind: str  # e.g. 'list', 'dict', 'msg', 'ext:rdflib.Graph'
    name: str

    def __repr__(self) -> str:
        return f"<extmethod {self.kind}.{self.name}>"


@dataclass(eq=False)
class SuperProxy:
    cls: Any
    obj: Any


@dataclass(eq=False)
class SingleDispatch:
    default: FuncRef
    registry: list = field(default_factory=list)  # [(ClassInfo|ExtRef, FuncRef)]
    shared: bool = True

    def __repr__(self) -> str:
        return f"<singledispatch {self.default.info.qualname}>"


# ----------------------------------------------------------------------------- heap


@dataclass(eq=False)
class Obj:
    cls: ClassInfo
    attrs: dict[str, Any] = field(default_factory=dict)
    tuple_items: tuple | None = None  # for tuple subclasses / NamedTuple
    uid: int = field(default_factory=new_uid)
    shared: bool = False
    alloc_site: Any = None
    frozen_ok: bool = False

    def __repr__(self) -> str:
        if self.tuple_items is not None:
            return f"{self.cls.name}{self.tuple_items!r}"
        inner = ", ".join(f"{k}={v!r}" for k, v in list(self.attrs.items())[:6])
        return f"{self.cls.name}#{self.uid}({inner})"


@dataclass(eq=False)
class ExtObj:
    """Instance of a modelled external class (rdflib terms/graphs, io objects, ContextVar...)."""

    kind: str
    attrs: dict[str, Any] = field(default_factory=dict)
    uid: int = field(default_factory=new_uid)
    shared: bool = False

    def __repr__(self) -> str:
        inner = ", ".join(f"{k}={v!r}" for k, v in list(self.attrs.items())[:4])
        return f"{self.kind}#{self.uid}({inner})"


@dataclass(eq=False)
class AList:
    items: list
    uid: int = field(default_factory=new_uid)
    shared: bool = False
    kind: str = "list"  # list | deque | bytearray
    maxlen: int | None = None
    elem: str | None = None  # message type of a protobuf repeated composite field

    def __repr__(self) -> str:
        return f"{self.kind}{self.items!r}"


@dataclass(eq=False)
class ADict:
    pairs: list  # [[key, value], ...] insertion ordered
    uid: int = field(default_factory=new_uid)
    shared: bool = False
    kind: str = "dict"  # dict | OrderedDict

    def __repr__(self) -> str:
        return f"{self.kind}{{" + ", ".join(f"{k!r}: {v!r}" for k, v in self.pairs) + "}"


@dataclass(eq=False)
class ASet:
    items: list
    uid: int = field(default_factory=new_uid)
    shared: bool = False
    frozen: bool = False


@dataclass(eq=False)
class Msg:
    """Abstract protobuf message."""

    mtype: str
    fields: dict[str, Any] = field(default_factory=dict)  # set scalar values / child Msg / AList for repeated
    present: set = field(default_factory=set)  # message-typed or oneof fields known present
    parent: Any = None  # (Msg, field name) when vivified by reading parent.field
    uid: int = field(default_factory=new_uid)
    shared: bool = False

    def __repr__(self) -> str:
        inner = ", ".join(f"{k}={v!r}" for k, v in self.fields.items() if k in self.present or not isinstance(v, Msg))
        return f"{self.mtype}({inner})"


@dataclass(eq=False)
class MsgClass:
    mtype: str

    def __repr__(self) -> str:
        return f"<msgclass {self.mtype}>"

    def __hash__(self) -> int:
        return hash(("msgclass", self.mtype))

    def __eq__(self, other: object) -> bool:
        return isinstance(other, MsgClass) and other.mtype == self.mtype


@dataclass(eq=False)
class EnumTypeRef:
    name: str
    values: dict[str, int]


@dataclass(eq=False)
class GenObj:
    """A generator object of the analysed program (or an abstract iterator)."""

    host: Any  # python generator driving the interpreted body
    label: str
    uid: int = field(default_factory=new_uid)
    done: bool = False
    started: bool = False
    shared: bool = False
    retval: Any = None

    def __repr__(self) -> str:
        return f"<gen {self.label}#{self.uid}>"


@dataclass(eq=False)
class AIter:
    """Iterator over a snapshot/sequence of known values (list_iterator, tuple_iterator, chain...)."""

    source: Any  # python iterator yielding abstract values lazily
    label: str
    uid: int = field(default_factory=new_uid)
    shared: bool = False

    def __repr__(self) -> str:
        return f"<iter {self.label}#{self.uid}>"


@dataclass(eq=False)
class SymIter:
    """An input iterable of unknown length: each pull asks the decision vector whether another
    element exists (bounded), elements are produced by ``make(i)``."""

    label: str
    make: Any
    max_items: int
    pulled: int = 0
    exhausted: bool = False
    uid: int = field(default_factory=new_uid)
    one_shot: bool = True
    shared: bool = False

    def __repr__(self) -> str:
        return f"<symiter {self.label}>"


# -- control flow signals of the interpreted program


class PyRaise(Exception):
    """An exception of the analysed program propagating through the interpreter."""

    def __init__(self, exc: Any, site: Any = None):
        super().__init__(repr(exc))
        self.exc = exc
        self.site = site


class ReturnSignal(Exception):
    def __init__(self, value: Any):
        self.value = value


class BreakSignal(Exception):
    pass


class ContinueSignal(Exception):
    pass
