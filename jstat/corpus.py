"""Statement-sequence corpus (neutral term specs) used by the pipeline rules."""
from __future__ import annotations

from . import pipe as P

SPO_KINDS = [
    "iri-hash", "iri-slash", "iri-nosep", "iri-opaque", "iri-empty", "iri-const", "iri-trailing-hash",
    "bnode", "lit-plain", "lit-lang", "lit-typed", "lit-xsd", "lit-empty", "triple-1", "triple-2",
]
G_KINDS = ["default", "iri-hash", "iri-nosep", "bnode", "lit-plain", "lit-typed"]
RDF11_S = ["iri-hash", "iri-slash", "iri-nosep", "bnode"]
RDF11_P = ["iri-hash", "iri-slash", "iri-nosep"]
RDF11_O = ["iri-hash", "iri-nosep", "bnode", "lit-plain", "lit-lang", "lit-typed", "lit-xsd", "lit-empty"]
RDF11_G = ["default", "iri-hash", "iri-nosep", "bnode"]


def term(kind: str, tag: str) -> tuple:
    if kind == "iri-hash":
        return P.t_iri(tag, "hash")
    if kind == "iri-slash":
        return P.t_iri(tag, "slash")
    if kind == "iri-nosep":
        return P.t_iri(tag, "nosep")
    if kind == "iri-opaque":
        return P.t_iri(tag, "opaque")
    if kind == "iri-empty":
        return P.t_iri_const("")
    if kind == "iri-const":
        return P.t_iri_const("http://example.org/ns/räksmörgås#Ünï")
    if kind == "iri-trailing-hash":
        return P.t_iri_const("http://example.org/ns#")
    if kind == "bnode":
        return P.t_bnode(tag)
    if kind.startswith("lit-"):
        return P.t_lit(tag, {"plain": "plain", "lang": "lang", "typed": "typed", "xsd": "xsdstring", "empty": "empty"}[kind[4:]])
    if kind == "triple-1":
        return P.t_triple(P.t_iri(tag + ".qs"), P.t_iri(tag + ".qp"), P.t_lit(tag + ".qo", "lang"))
    if kind == "triple-2":
        return P.t_triple(P.t_bnode(tag + ".qs"), P.t_iri(tag + ".qp"), P.t_triple(P.t_iri(tag + ".qqs"), P.t_iri(tag + ".qqp"), P.t_lit(tag + ".qqo", "typed")))
    if kind == "default":
        return P.DEFAULT
    raise ValueError(kind)


def base(tag: str, arity: int) -> list:
    st = [P.t_iri(tag + ".s"), P.t_iri(tag + ".p"), P.t_iri(tag + ".o")]
    if arity == 4:
        st.append(P.t_iri(tag + ".g"))
    return st


def kind_sequences(arity: int, s_kinds=None, p_kinds=None, o_kinds=None, g_kinds=None) -> list[tuple[str, list]]:
    """For every slot and kind: [statement with that kind, the same statement again (fresh equal
    objects -> every term repeated), an unrelated statement, the first one again]."""
    out = []
    slots = [("s", 0, s_kinds or SPO_KINDS), ("p", 1, p_kinds or SPO_KINDS), ("o", 2, o_kinds or SPO_KINDS)]
    if arity == 4:
        slots.append(("g", 3, g_kinds or G_KINDS))
    for sname, idx, kinds in slots:
        for kind in kinds:
            a = base("a", arity)
            a[idx] = term(kind, f"a.{sname}")
            b = base("b", arity)
            out.append((f"{sname}={kind}", [tuple(a), tuple(a), tuple(b), tuple(a)]))
    return out


def repeat_masks(arity: int) -> list[tuple[str, list]]:
    out = []
    for mask in range(1 << arity):
        a = base("a", arity)
        b = base("b", arity)
        second = [a[i] if mask & (1 << i) else b[i] for i in range(arity)]
        out.append((f"repeat-mask={mask:0{arity}b}", [tuple(a), tuple(second)]))
    return out


def sharing_sequences(arity: int) -> list[tuple[str, list]]:
    out = []
    ns = P.sstr if False else None
    from .values import Atom, sstr

    def iri(nstag: str, local: str) -> tuple:
        return ("iri", sstr(Atom(nstag + ".ns"), "#", Atom(local + ".local", nosep=True)))

    st1 = [iri("A", "x"), iri("A", "y"), iri("B", "x")]
    st2 = [iri("B", "y"), iri("A", "x"), iri("C", "z")]
    if arity == 4:
        st1.append(iri("A", "g"))
        st2.append(iri("C", "g"))
    out.append(("shared-prefixes-and-names", [tuple(st1), tuple(st2), tuple(st1)]))
    a = base("a", arity)
    out.append(("duplicates", [tuple(a), tuple(a), tuple(a)]))
    seq = []
    for i in range(5):
        st = base(f"s{i}", arity)
        st[2] = P.t_lit(f"s{i}.o", "typed" if i % 2 else "lang")
        if arity == 4 and i % 2:
            st[3] = P.DEFAULT
        seq.append(tuple(st))
    out.append(("five-statements", seq))
    # LRU stress: a statement that hits the OLDEST resident entry and then misses twice, with tables that hold
    # exactly one statement's needs (tight presets): the hit must protect the entry from the following misses
    def iri2(nstag: str, local: str) -> tuple:
        return ("iri", sstr(Atom(nstag + ".scheme", nosep=True), "/", Atom(nstag + ".path", nosep=True), "#", Atom(local + ".local", nosep=True)))

    fill = [iri2("P1", "n1"), iri2("P2", "n2"), iri2("P3", "n3")]
    hit_then_miss = [iri2("P1", "n7"), iri2("P4", "n4"), iri2("P5", "n5")]
    again = [iri2("P1", "n8"), iri2("P4", "n9"), iri2("P6", "n6")]
    if arity == 4:
        fill.append(iri2("P3", "n3b"))
        hit_then_miss.append(iri2("P5", "n5b"))
        again.append(iri2("P6", "n6b"))
    out.append(("lru-stress-prefix-name", [tuple(fill), tuple(hit_then_miss), tuple(again), tuple(fill)]))
    # partially filled table, then a statement that hits the oldest entry and fills the table up
    part = [iri2("Q1", "m1"), iri2("Q1", "m1"), iri2("Q1", "m1")]
    grow = [iri2("Q1", "m5"), iri2("Q2", "m2"), iri2("Q3", "m3")]
    more = [iri2("Q1", "m6"), iri2("Q4", "m4"), iri2("Q2", "m7")]
    if arity == 4:
        part.append(iri2("Q1", "m1"))
        grow.append(iri2("Q3", "m3"))
        more.append(iri2("Q2", "m2"))
    out.append(("lru-stress-fill-mid-statement", [tuple(part), tuple(grow), tuple(more), tuple(grow)]))
    # the table becomes full in the MIDDLE of a statement that first hit the oldest entry and then overflows by one
    pa = [iri2("R1", "k1"), iri2("R2", "k2"), iri2("R1", "k1")]
    pb = [iri2("R1", "k9"), iri2("R3", "k3"), iri2("R4", "k4")]  # same prefix as pa's subject, different term (not elided)
    if arity == 4:
        pa.append(iri2("R2", "k2"))
        pb.append(iri2("R4", "k4"))
    out.append(("lru-stress-overflow-at-fill", [tuple(pa), tuple(pb), tuple(pa)]))
    da = [lit("w1", "DA"), lit("w2", "DB"), lit("w3", "DA")] if False else None
    # datatypes: churn through more datatypes than a tight table holds, then reuse evicted ones
    def lit(tag: str, dt: str) -> tuple:
        return ("lit", sstr(Atom(tag + ".lex")), None, sstr(Atom(dt + ".dt")))

    churn = []
    for i, dt in enumerate(["DA", "DB", "DA", "DC", "DB", "DA", "DC"]):
        st = base(f"c{i}", arity)
        st[2] = lit(f"c{i}", dt)
        churn.append(tuple(st))
    out.append(("datatype-churn", churn))
    # generalized: typed literals in s, p, o of one statement (hit on the oldest datatype, then misses)
    g1 = [lit("x1", "DA"), lit("x2", "DB"), lit("x3", "DC")]
    g2 = [lit("y1", "DA"), lit("y2", "DD"), lit("y3", "DE")]
    g3 = [lit("z1", "DA"), lit("z2", "DD"), lit("z3", "DF")]
    if arity == 4:
        g1.append(P.t_iri("gg"))
        g2.append(P.t_iri("gg"))
        g3.append(P.t_iri("gg"))
    out.append(("lru-stress-datatypes-generalized", [tuple(g1), tuple(g2), tuple(g3), tuple(g1)]))
    h1 = [lit("h1", "DA"), lit("h2", "DB"), lit("h3", "DA")]
    h2 = [lit("h4", "DA"), lit("h5", "DC"), lit("h6", "DD")]
    if arity == 4:
        h1.append(P.t_iri("gg"))
        h2.append(P.t_iri("gg"))
    out.append(("lru-stress-datatypes-overflow-at-fill", [tuple(h1), tuple(h2), tuple(h1)]))
    # two different quoted triples in a row that share terms position by position
    qa = P.t_triple(P.t_iri("k.s"), P.t_iri("k.p"), P.t_iri("k.o1"))
    qb = P.t_triple(P.t_iri("k.s"), P.t_iri("k.p"), P.t_iri("k.o2"))
    s1 = list(base("k", arity)); s1[2] = qa
    s2 = list(base("k2", arity)); s2[2] = qb
    s3 = list(base("k3", arity)); s3[0] = qb
    out.append(("consecutive-quoted-triples-sharing-terms", [tuple(s1), tuple(s2), tuple(s3), tuple(s1)]))
    # IRIs without any separator right after prefixed IRIs (empty prefix vs "same prefix")
    u1 = [P.t_iri("v.s"), ("iri", "urn:isbn:1"), ("iri", sstr(Atom("mail.whole", nosep=True)))]
    u2 = [("iri", "urn:isbn:2"), P.t_iri("v.p"), ("iri", "urn:isbn:1")]
    if arity == 4:
        u1.append(("iri", "urn:g"))
        u2.append(P.t_iri("v.g"))
    out.append(("separator-less-iris-after-prefixed", [tuple(u1), tuple(u2), tuple(u1)]))
    # literals that differ only in the case of the language tag are different terms (components compared as strings)
    # (different subjects: an rdflib store would otherwise merge the first two, its Literal equality ignores tag case)
    c1 = list(base("lc", arity)); c1[2] = ("lit", "chat", "en-US", None)
    c2 = list(base("ld", arity)); c2[2] = ("lit", "chat", "en-us", None)
    c3 = list(base("le", arity)); c3[2] = ("lit", "Chat", "en-us", None)
    out.append(("literals-differing-in-case-only", [tuple(c1), tuple(c2), tuple(c3), tuple(c1)]))
    # same-slot terms of consecutive statements that agree in all components but one (the repeated-term elision compares
    # terms with the integration's own ==): same lexical form with no / different datatypes / different language tags,
    # and the same string once as IRI and once as blank node label
    lx, ly = sstr(Atom("eq.lex")), sstr(Atom("eq.lex2"))
    dta, dtb = sstr(Atom("EQA.dt")), sstr(Atom("EQB.dt"))
    objs = [("lit", lx, None, None), ("lit", lx, None, dta), ("lit", lx, None, dtb), ("lit", lx, "en", None), ("lit", lx, "fr", None), ("lit", ly, "fr", None), ("lit", ly, None, dtb), ("lit", lx, None, dtb), ("lit", lx, None, None), ("lit", lx, None, P.XSD_STRING), ("lit", lx, None, None), ("lit", lx, None, dta)]
    eqseq = []
    for o in objs:
        st = base("eq", arity)
        st[2] = o
        eqseq.append(tuple(st))
    out.append(("same-slot-literals-differing-in-one-component", eqseq))
    same = sstr(Atom("eqkind.str", nosep=True))
    k1 = base("ek", arity); k1[0] = ("iri", same); k1[2] = ("bnode", same)
    k2 = base("ek", arity); k2[0] = ("bnode", same); k2[2] = ("iri", same)
    out.append(("same-string-as-iri-and-as-blank-node", [tuple(k1), tuple(k2), tuple(k1)]))
    # a statement that needs more than 8 names: deep quoted triples in subject and object
    def deep(tag: str) -> tuple:
        return P.t_triple(P.t_iri(tag + ".1"), P.t_iri(tag + ".2"), P.t_triple(P.t_iri(tag + ".3"), P.t_iri(tag + ".4"), P.t_triple(P.t_iri(tag + ".5"), P.t_iri(tag + ".6"), P.t_iri(tag + ".7"))))

    d = [deep("d.s"), P.t_iri("d.p"), deep("d.o")]
    if arity == 4:
        d.append(P.t_iri("d.g"))
    a2, b2 = base("a", arity), base("b", arity)
    out.append(("deep-quoted-15-names", [tuple(a2), tuple(b2), tuple(d), tuple(a2), tuple(d)]))
    # same graph, interleaved graphs
    if arity == 4:
        g1, g2 = P.t_iri("G1"), P.t_bnode("G2")
        q = []
        for i, g in enumerate((g1, g1, g2, g1, P.DEFAULT, P.DEFAULT)):
            st = base(f"q{i}", 3)
            q.append(tuple(st + [g]))
        out.append(("graphs g1,g1,g2,g1,default,default", q))
    return out
