"""Statement-sequence corpus (neutral term specs) used by the pipeline rules."""
from __future__ import annotations

from . import pipe as P

SPO_KINDS = [
    "iri-hash", "iri-slash", "iri-nosep", "iri-opaque", "iri-empty", "iri-const", "iri-trailing-hash",
    "bnode", "lit-plain", "lit-lang", "lit-typed", "lit-xsd", "lit-empty", "triple-1", "triple-2",
]
G_KINDS = ["default", "iri-hash", "iri-nosep", "bnode", "lit-plain", "lit-typed"]
RDF11_S = ["iri-hash", "iri-slash", "iri-nosep", "bnode"]
RDF11_P = ["iri-hash", "iri-slash", "iri-nosep"]
RDF11_O = ["iri-hash", "iri-nosep", "bnode", "lit-plain", "lit-lang", "lit-typed", "lit-xsd", "lit-empty"]
RDF11_G = ["default", "iri-hash", "iri-nosep", "bnode"]


def term(kind: str, tag: str) -> tuple:
    if kind == "iri-hash":
        return P.t_iri(tag, "hash")
    if kind == "iri-slash":
        return P.t_iri(tag, "slash")
    if kind == "iri-nosep":
        return P.t_iri(tag, "nosep")
    if kind == "iri-opaque":
        return P.t_iri(tag, "opaque")
    if kind == "iri-empty":
        return P.t_iri_const("")
    if kind == "iri-const":
        return P.t_iri_const("http://example.org/ns/räksmörgås#Ünï")
    if kind == "iri-trailing-hash":
        return P.t_iri_const("http://example.org/ns#")
    if kind == "bnode":
        return P.t_bnode(tag)
    if kind.startswith("lit-"):
        return P.t_lit(tag, {"plain": "plain", "lang": "lang", "typed": "typed", "xsd": "xsdstring", "empty": "empty"}[kind[4:]])
    if kind == "triple-1":
        return P.t_triple(P.t_iri(tag + ".qs"), P.t_iri(tag + ".qp"), P.t_lit(tag + ".qo", "lang"))
    if kind == "triple-2":
        return P.t_triple(P.t_bnode(tag + ".qs"), P.t_iri(tag + ".qp"), P.t_triple(P.t_iri(tag + ".qqs"), P.t_iri(tag + ".qqp"), P.t_lit(tag + ".qqo", "typed")))
    if kind == "default":
        return P.DEFAULT
    raise ValueError(kind)


def base(tag: str, arity: int) -> list:
    st = [P.t_iri(tag + ".s"), P.t_iri(tag + ".p"), P.t_iri(tag + ".o")]
    if arity == 4:
        st.append(P.t_iri(tag + ".g"))
    return st


def kind_sequences(arity: int, s_kinds=None, p_kinds=None, o_kinds=None, g_kinds=None) -> list[tuple[str, list]]:
    """For every slot and kind: [statement with that kind, the same statement again (fresh equal
    objects -> every term repeated), an unrelated statement, the first one again]."""
    out = []
    slots = [("s", 0, s_kinds or SPO_KINDS), ("p", 1, p_kinds or SPO_KINDS), ("o", 2, o_kinds or SPO_KINDS)]
    if arity == 4:
        slots.append(("g", 3, g_kinds or G_KINDS))
    for sname, idx, kinds in slots:
        for kind in kinds:
            a = base("a", arity)
            a[idx] = term(kind, f"a.{sname}")
            b = base("b", arity)
            out.append((f"{sname}={kind}", [tuple(a), tuple(a), tuple(b), tuple(a)]))
    return out


def repeat_masks(arity: int) -> list[tuple[str, list]]:
    out = []
    for mask in range(1 << arity):
        a = base("a", arity)
        b = base("b", arity)
        second = [a[i] if mask & (1 << i) else b[i] for i in range(arity)]
        out.append((f"repeat-mask={mask:0{arity}b}", [tuple(a), tuple(second)]))
    return out


def sharing_sequences(arity: int) -> list[tuple[str, list]]:
    out = []
    ns = P.sstr if False else None
    from .values import Atom, sstr

    def iri(nstag: str, local: str) -> tuple:
        return ("iri", sstr(Atom(nstag + ".ns"), "#", Atom(local + ".local", nosep=True)))

    st1 = [iri("A", "x"), iri("A", "y"), iri("B", "x")]
    st2 = [iri("B", "y"), iri("A", "x"), iri("C", "z")]
    if arity == 4:
        st1.append(iri("A", "g"))
        st2.append(iri("C", "g"))
    out.append(("shared-prefixes-and-names", [tuple(st1), tuple(st2), tuple(st1)]))
    a = base("a", arity)
    out.append(("duplicates", [tuple(a), tuple(a), tuple(a)]))
    seq = []
    for i in range(5):
        st = base(f"s{i}", arity)
        st[2] = P.t_lit(f"s{i}.o", "typed" if i % 2 else "lang")
        if arity == 4 and i % 2:
            st[3] = P.DEFAULT
        seq.append(tuple(st))
    out.append(("five-statements", seq))
    # a statement that needs more than 8 names: deep quoted triples in subject and object
    def deep(tag: str) -> tuple:
        return P.t_triple(P.t_iri(tag + ".1"), P.t_iri(tag + ".2"), P.t_triple(P.t_iri(tag + ".3"), P.t_iri(tag + ".4"), P.t_triple(P.t_iri(tag + ".5"), P.t_iri(tag + ".6"), P.t_iri(tag + ".7"))))

    d = [deep("d.s"), P.t_iri("d.p"), deep("d.o")]
    if arity == 4:
        d.append(P.t_iri("d.g"))
    a2, b2 = base("a", arity), base("b", arity)
    out.append(("deep-quoted-15-names", [tuple(a2), tuple(b2), tuple(d), tuple(a2), tuple(d)]))
    # same graph, interleaved graphs
    if arity == 4:
        g1, g2 = P.t_iri("G1"), P.t_bnode("G2")
        q = []
        for i, g in enumerate((g1, g1, g2, g1, P.DEFAULT, P.DEFAULT)):
            st = base(f"q{i}", 3)
            q.append(tuple(st + [g]))
        out.append(("graphs g1,g1,g2,g1,default,default", q))
    return out
