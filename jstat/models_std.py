"""Models of pure standard-library helpers that refactorings tend to introduce (operator, itertools, functools,
dataclasses helpers, collections, ...).  Trusted base like jstat.models: each model follows the documented
semantics of the function on the abstract value domain.  Pure functions of concrete immutable arguments are
evaluated by the host implementation itself (`host_call`).
"""
from __future__ import annotations

import builtins as _pybuiltins
from typing import Any

from .errors import AnalysisError
from .values import ADict, AIter, AList, ASet, ClassInfo, EnumInt, ExtObj, ExtRef, FuncRef, GenObj, Obj, PyRaise, SStr, SymIter, Unknown, fresh_unknown

MISSING = object()


# ----------------------------------------------------------------------------- concrete host evaluation


def is_concrete(v: Any) -> bool:
    if isinstance(v, EnumInt):
        return True
    if v is None or isinstance(v, (bool, int, float, str, bytes)):
        return True
    if isinstance(v, tuple):
        return all(is_concrete(x) for x in v)
    return False


def from_host(v: Any) -> Any:
    if isinstance(v, list):
        return AList([from_host(x) for x in v])
    if isinstance(v, dict):
        return ADict([[from_host(k), from_host(x)] for k, x in v.items()])
    if isinstance(v, (set, frozenset)):
        return ASet([from_host(x) for x in sorted(v, key=repr)])
    if isinstance(v, tuple):
        return tuple(from_host(x) for x in v)
    if isinstance(v, bytearray):
        return AList(list(v), kind="bytearray")
    if isinstance(v, memoryview):
        return bytes(v)
    return v


def host_call(interp, fn: Any, args: list, kwargs: dict) -> Any:
    """Call a pure host function on concrete arguments; host exceptions become exceptions of the analysed program."""
    try:
        return from_host(fn(*args, **kwargs))
    except Exception as e:  # noqa: BLE001 - the analysed program sees the same exception class
        raise interp.exc(type(e).__name__, *([e.args[0]] if e.args else [""]))


def concrete_method(interp, recv: Any, name: str, args: list, kwargs: dict) -> Any:
    """recv.name(*args) for a concrete str/bytes/int/float/tuple receiver and concrete arguments, else MISSING."""
    if not (is_concrete(recv) and not isinstance(recv, bool | type(None))):
        return MISSING
    plain = []
    for a in args:
        if isinstance(a, AList) and all(is_concrete(x) for x in a.items):
            plain.append(bytearray(a.items) if a.kind == "bytearray" else list(a.items))
        elif is_concrete(a):
            plain.append(a)
        elif isinstance(a, ADict) and all(is_concrete(k_) and is_concrete(v_) for k_, v_ in a.pairs):
            plain.append({k_: v_ for k_, v_ in a.pairs})
        else:
            return MISSING
    if not all(is_concrete(v) for v in kwargs.values()):
        return MISSING
    if name.startswith("__") and name not in ("__getitem__", "__contains__", "__len__", "__add__", "__mul__", "__eq__", "__ne__", "__lt__", "__le__", "__gt__", "__ge__", "__hash__", "__str__", "__repr__", "__mod__", "__format__", "__int__", "__bool__", "__index__", "__and__", "__or__", "__xor__", "__lshift__", "__rshift__", "__neg__", "__sub__", "__floordiv__", "__iter__"):
        return MISSING
    if name == "__hash__" and isinstance(recv, (str, bytes)):
        return MISSING  # randomised per process
    m = getattr(recv, name, MISSING)
    if m is MISSING:
        raise interp.exc("AttributeError", f"'{type(recv).__name__}' object has no attribute '{name}'")
    if name == "__iter__":
        return AIter(iter(recv), type(recv).__name__)
    return host_call(interp, m, plain, kwargs)


PURE_BUILTINS = {
    "divmod", "round", "abs", "pow", "ord", "chr", "hex", "bin", "oct", "int", "float", "bool", "complex", "ascii", "format",
}
PURE_CLASSMETHODS = {
    "builtins.int.from_bytes": int.from_bytes,
    "builtins.bytes.fromhex": bytes.fromhex,
    "builtins.str.maketrans": str.maketrans,
    "builtins.float.fromhex": float.fromhex,
}


# ----------------------------------------------------------------------------- helpers on abstract values


def _callable_obj(kind: str, **attrs: Any) -> ExtObj:
    return ExtObj(kind, attrs)


def _attrgetter(interp, args, kwargs):
    if not all(isinstance(a, str) for a in args) or not args:
        raise interp.unsupported("attrgetter with non-constant names")
    return _callable_obj("operator.attrgetter", names=list(args))


def _itemgetter(interp, args, kwargs):
    if not args:
        raise interp.exc("TypeError", "itemgetter expected 1 argument, got 0")
    return _callable_obj("operator.itemgetter", items=list(args))


def _methodcaller(interp, args, kwargs):
    if not args or not isinstance(args[0], str):
        raise interp.unsupported("methodcaller with non-constant name")
    return _callable_obj("operator.methodcaller", name=args[0], args=list(args[1:]), kwargs=dict(kwargs))


def call_callable_obj(interp, fn: ExtObj, args: list, kwargs: dict) -> Any:
    k = fn.kind
    if k == "operator.attrgetter":
        def get(o, dotted):
            for part in dotted.split("."):
                o = interp.getattr(o, part)
            return o

        vals = [get(args[0], n) for n in fn.attrs["names"]]
        return vals[0] if len(vals) == 1 else tuple(vals)
    if k == "operator.itemgetter":
        from . import models

        vals = [models.getitem(interp, args[0], i) for i in fn.attrs["items"]]
        return vals[0] if len(vals) == 1 else tuple(vals)
    if k == "operator.methodcaller":
        return interp.call(interp.getattr(args[0], fn.attrs["name"]), list(fn.attrs["args"]), dict(fn.attrs["kwargs"]))
    if k == "wrapped_function":
        return interp.call(fn.attrs["wrapper"], args, kwargs)
    return MISSING


_BINOPS = {
    "add": "Add", "sub": "Sub", "mul": "Mult", "truediv": "Div", "floordiv": "FloorDiv", "mod": "Mod", "pow": "Pow", "lshift": "LShift", "rshift": "RShift",
    "and_": "BitAnd", "or_": "BitOr", "xor": "BitXor", "concat": "Add",
}
_CMPOPS = {"eq": "Eq", "ne": "NotEq", "lt": "Lt", "le": "LtE", "gt": "Gt", "ge": "GtE", "is_": "Is", "is_not": "IsNot"}


def _operator_fn(name: str):
    import ast

    def model(interp, args, kwargs):
        if name in _BINOPS:
            return interp.binop(getattr(ast, _BINOPS[name]), args[0], args[1])
        if name in _CMPOPS:
            return interp.compare(getattr(ast, _CMPOPS[name]), args[0], args[1])
        if name == "not_":
            return not interp.truth(args[0], "operator.not_")
        if name == "truth":
            return interp.truth(args[0], "operator.truth")
        if name == "contains":
            return interp.contains(args[0], args[1])
        if name == "getitem":
            from . import models

            return models.getitem(interp, args[0], args[1])
        if name == "neg":
            return interp.binop(ast.Sub, 0, args[0])
        if name == "index":
            return args[0]
        raise interp.unsupported(f"operator.{name}")

    return model


def _reduce(interp, args, kwargs):
    fn, seq = args[0], args[1]
    items = interp.drain(seq)
    if len(args) > 2:
        acc = args[2]
    else:
        if not items:
            raise interp.exc("TypeError", "reduce() of empty iterable with no initial value")
        acc, items = items[0], items[1:]
    for x in items:
        acc = interp.call(fn, [acc, x], {})
    return acc


def _wraps(interp, args, kwargs):
    return ExtObj("functools.wraps", {"wrapped": args[0]})


def _lazy(interp, label: str, host_gen) -> GenObj:
    g = GenObj(None, label)
    g.host = host_gen
    g.shared = interp.init_depth > 0
    return g


def _tee(interp, args, kwargs):
    n = args[1] if len(args) > 1 else kwargs.get("n", 2)
    src = interp.get_iter(args[0])
    buffers: list[list] = [[] for _ in range(n)]

    def branch(i: int):
        while True:
            if not buffers[i]:
                ok, v = interp.next_value(src)
                if not ok:
                    return
                for b in buffers:
                    b.append(v)
            yield buffers[i].pop(0)

    interp.emit("materialise", what="itertools.tee", source=repr(args[0]))
    return tuple(_lazy(interp, f"tee[{i}]", branch(i)) for i in range(n))


def _starmap(interp, args, kwargs):
    fn, src = args[0], interp.get_iter(args[1])

    def gen():
        while True:
            ok, v = interp.next_value(src)
            if not ok:
                return
            yield interp.call(fn, interp.unpack_values(v), {})

    return _lazy(interp, "starmap", gen())


def _takewhile(interp, args, kwargs):
    fn, src = args[0], interp.get_iter(args[1])

    def gen():
        while True:
            ok, v = interp.next_value(src)
            if not ok or not interp.truth(interp.call(fn, [v], {}), "takewhile"):
                return
            yield v

    return _lazy(interp, "takewhile", gen())


def _dropwhile(interp, args, kwargs):
    fn, src = args[0], interp.get_iter(args[1])

    def gen():
        dropping = True
        while True:
            ok, v = interp.next_value(src)
            if not ok:
                return
            if dropping and interp.truth(interp.call(fn, [v], {}), "dropwhile"):
                continue
            dropping = False
            yield v

    return _lazy(interp, "dropwhile", gen())


def _zip_longest(interp, args, kwargs):
    fill = kwargs.get("fillvalue")
    its = [interp.get_iter(a) for a in args]

    def gen():
        live = [True] * len(its)
        while True:
            row = []
            for i, it in enumerate(its):
                if live[i]:
                    ok, v = interp.next_value(it)
                    if not ok:
                        live[i] = False
                        v = fill
                else:
                    v = fill
                row.append(v)
            if not any(live):
                return
            yield tuple(row)

    return _lazy(interp, "zip_longest", gen())


def _pairwise(interp, args, kwargs):
    src = interp.get_iter(args[0])

    def gen():
        ok, prev = interp.next_value(src)
        if not ok:
            return
        while True:
            ok, cur = interp.next_value(src)
            if not ok:
                return
            yield (prev, cur)
            prev = cur

    return _lazy(interp, "pairwise", gen())


def _repeat(interp, args, kwargs):
    v = args[0]
    times = args[1] if len(args) > 1 else kwargs.get("times")

    def gen():
        i = 0
        while times is None or i < times:
            i += 1
            yield v

    return _lazy(interp, "repeat", gen())


def _count(interp, args, kwargs):
    start = args[0] if args else kwargs.get("start", 0)
    step = args[1] if len(args) > 1 else kwargs.get("step", 1)

    def gen():
        n = start
        while True:
            yield n
            n = n + step

    return _lazy(interp, "count", gen())


def _accumulate(interp, args, kwargs):
    import ast

    src = interp.get_iter(args[0])
    fn = args[1] if len(args) > 1 else kwargs.get("func")
    initial = kwargs.get("initial", MISSING)

    def gen():
        if initial is not MISSING and initial is not None:
            acc = initial
            yield acc
        else:
            ok, acc = interp.next_value(src)
            if not ok:
                return
            yield acc
        while True:
            ok, v = interp.next_value(src)
            if not ok:
                return
            acc = interp.call(fn, [acc, v], {}) if fn is not None else interp.binop(ast.Add, acc, v)
            yield acc

    return _lazy(interp, "accumulate", gen())


def _product(interp, args, kwargs):
    import itertools

    pools = [interp.drain(a) for a in args] * int(kwargs.get("repeat", 1))
    return AIter(iter([tuple(t) for t in itertools.product(*pools)]), "product")


def _dc_fields_of(interp, obj_or_cls: Any) -> tuple[ClassInfo, list]:
    cls = obj_or_cls.cls if isinstance(obj_or_cls, Obj) else obj_or_cls
    if not isinstance(cls, ClassInfo) or not any(isinstance(c, ClassInfo) and c.dataclass is not None for c in cls.mro):
        raise interp.exc("TypeError", "must be called with a dataclass type or instance")
    return cls, interp.dataclass_fields(cls)


def _dc_to(interp, v: Any, as_dict: bool) -> Any:
    if isinstance(v, Obj) and any(isinstance(c, ClassInfo) and c.dataclass is not None for c in v.cls.mro):
        _cls, fields = _dc_fields_of(interp, v)
        if as_dict:
            return ADict([[n, _dc_to(interp, v.attrs[n], True)] for n, _ in fields])
        return tuple(_dc_to(interp, v.attrs[n], False) for n, _ in fields)
    if isinstance(v, AList):
        return AList([_dc_to(interp, x, as_dict) for x in v.items], kind=v.kind)
    if isinstance(v, tuple):
        return tuple(_dc_to(interp, x, as_dict) for x in v)
    if isinstance(v, ADict):
        return ADict([[_dc_to(interp, k, as_dict), _dc_to(interp, x, as_dict)] for k, x in v.pairs])
    return v


def _dc_asdict(interp, args, kwargs):
    _dc_fields_of(interp, args[0])
    return _dc_to(interp, args[0], True)


def _dc_astuple(interp, args, kwargs):
    _dc_fields_of(interp, args[0])
    return _dc_to(interp, args[0], False)


def _dc_fields(interp, args, kwargs):
    _cls, fields = _dc_fields_of(interp, args[0])
    return tuple(ExtObj("dataclasses.Field", {"name": n, "default": d}) for n, d in fields)


def _dc_is_dataclass(interp, args, kwargs):
    v = args[0]
    cls = v.cls if isinstance(v, Obj) else v
    return isinstance(cls, ClassInfo) and any(isinstance(c, ClassInfo) and c.dataclass is not None for c in cls.mro)


def _chainmap(interp, args, kwargs):
    maps = [a for a in args] or [ADict([])]
    if not all(isinstance(m, ADict) for m in maps):
        raise interp.unsupported("ChainMap over non-dict mappings")
    return ExtObj("collections.ChainMap", {"maps": AList(list(maps))})


def _counter(interp, args, kwargs):
    d = ADict([], kind="Counter")
    if args:
        src = args[0]
        if isinstance(src, ADict):
            for k, v in src.pairs:
                d.pairs.append([k, v])
        else:
            for x in interp.drain(src):
                for p in d.pairs:
                    if interp.truth(interp.eq(p[0], x), "Counter"):
                        p[1] = p[1] + 1
                        break
                else:
                    d.pairs.append([x, 1])
    return d


def _memoryview(interp, args, kwargs):
    v = args[0]
    if isinstance(v, bytes):
        return v  # read-only view of immutable bytes: indexing, slicing, len, bytes() agree
    if isinstance(v, AList) and v.kind == "bytearray":
        return v
    raise interp.unsupported(f"memoryview({v!r})")


def _pure_builtin(name: str):
    fn = getattr(_pybuiltins, name)

    def model(interp, args, kwargs):
        if all(is_concrete(a) for a in args) and all(is_concrete(v) for v in kwargs.values()):
            return host_call(interp, fn, args, kwargs)
        if name in ("int", "float", "bool") and len(args) == 1:
            if name == "bool":
                return interp.truth(args[0], "bool()")
            if isinstance(args[0], Unknown):
                return Unknown((name, args[0].key), f"{name}({args[0]!r})")
        raise interp.unsupported(f"{name}() on abstract value {args!r}")

    return model


def _callable(interp, args, kwargs):
    v = args[0]
    from .values import BoundMethod, ExtMethod, MsgClass, SingleDispatch

    if isinstance(v, (FuncRef, BoundMethod, ClassInfo, ExtRef, ExtMethod, MsgClass, SingleDispatch)):
        return True
    if isinstance(v, Obj):
        return type(interp.lookup_class_attr(v.cls, "__call__")).__name__ != "_Missing"
    if isinstance(v, ExtObj):
        return v.kind in ("functools.partial", "operator.attrgetter", "operator.itemgetter", "operator.methodcaller", "wrapped_function")
    if isinstance(v, Unknown):
        raise interp.unsupported("callable(unknown)")
    return False


def _unicodedata_normalize(interp, args, kwargs):
    """Normalisation maps some strings to different strings: on symbolic text the result is a *different* symbolic
    string (a transform of the input), on concrete text the host function."""
    import unicodedata

    form, text = args[0], args[1]
    if isinstance(form, str) and isinstance(text, str):
        return host_call(interp, unicodedata.normalize, [form, text], {})
    from .values import Atom, sstr

    interp.emit("str_transform", op=f"unicodedata.normalize({form!r})", value=text)
    return sstr(Atom(f"normalize[{form}]({text!r})", nonempty=None))


def _unicodedata_is_normalized(interp, args, kwargs):
    import unicodedata

    form, text = args[0], args[1]
    if isinstance(form, str) and isinstance(text, str):
        return host_call(interp, unicodedata.is_normalized, [form, text], {})
    return Unknown(("is_normalized", repr(form), repr(text)), f"is_normalized({form!r}, {text!r})")


def _dict_fromkeys(interp, args, kwargs):
    keys = interp.drain(args[0])
    val = args[1] if len(args) > 1 else None
    d = ADict([])
    from . import models

    for k_ in keys:
        if models.dict_find(interp, d, k_) is None:
            d.pairs.append([k_, val])
    return d


MODELS: dict[str, Any] = {
    "builtins.dict.fromkeys": _dict_fromkeys,
    "unicodedata.normalize": _unicodedata_normalize,
    "unicodedata.is_normalized": _unicodedata_is_normalized,
    "operator.attrgetter": _attrgetter,
    "operator.itemgetter": _itemgetter,
    "operator.methodcaller": _methodcaller,
    "functools.reduce": _reduce,
    "functools.wraps": _wraps,
    "itertools.tee": _tee,
    "itertools.starmap": _starmap,
    "itertools.takewhile": _takewhile,
    "itertools.dropwhile": _dropwhile,
    "itertools.zip_longest": _zip_longest,
    "itertools.pairwise": _pairwise,
    "itertools.repeat": _repeat,
    "itertools.count": _count,
    "itertools.accumulate": _accumulate,
    "itertools.product": _product,
    "dataclasses.asdict": _dc_asdict,
    "dataclasses.astuple": _dc_astuple,
    "dataclasses.fields": _dc_fields,
    "dataclasses.is_dataclass": _dc_is_dataclass,
    "collections.ChainMap": _chainmap,
    "collections.Counter": _counter,
    "builtins.memoryview": _memoryview,
    "builtins.callable": _callable,
}
for _n in list(_BINOPS) + list(_CMPOPS) + ["not_", "truth", "contains", "getitem", "neg", "index"]:
    MODELS[f"operator.{_n}"] = _operator_fn(_n)
for _n in PURE_BUILTINS:
    MODELS.setdefault(f"builtins.{_n}", _pure_builtin(_n))


def call(interp, name: str, args: list, kwargs: dict) -> Any:
    fn = MODELS.get(name)
    if fn is not None:
        return fn(interp, args, kwargs)
    host = PURE_CLASSMETHODS.get(name)
    if host is not None and all(is_concrete(a) for a in args) and all(is_concrete(v) for v in kwargs.values()):
        return host_call(interp, host, args, kwargs)
    return MISSING
