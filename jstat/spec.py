"""Facts of the Jelly format frozen as data (the oracle no sibling implementation can supply).

Each fact cites the Jelly specification (https://w3id.org/jelly, 'Jelly serialization format
specification', protocol version 1.1.x) section it comes from.
"""
from __future__ import annotations

PHYSICAL = {"UNSPECIFIED": 0, "TRIPLES": 1, "QUADS": 2, "GRAPHS": 3}
LOGICAL = {"UNSPECIFIED": 0, "FLAT_TRIPLES": 1, "FLAT_QUADS": 2, "GRAPHS": 3, "DATASETS": 4, "SUBJECT_GRAPHS": 13, "NAMED_GRAPHS": 14, "TIMESTAMPED_NAMED_GRAPHS": 114}

# "Logical stream types": base type = last digit; triples-based logical types (FLAT_TRIPLES, GRAPHS and its
# subtype SUBJECT_GRAPHS) require physical TRIPLES; the quads-based ones require QUADS or GRAPHS.
TRIPLES_LOGICAL = {1, 3, 13}
QUADS_LOGICAL = {2, 4, 14, 114}
FLAT_LOGICAL = {1, 2}
GROUPED_LOGICAL = {3, 4, 13, 14, 114}


def compatible(physical: int, logical: int) -> bool:
    """'Consistency with physical stream types' table; UNSPECIFIED on either side is compatible."""
    if physical == 0 or logical == 0:
        return True
    if physical == 1:
        return logical in TRIPLES_LOGICAL
    return logical in QUADS_LOGICAL


# "Stream options": max_name_table_size MUST be >= 8; this implementation caps every table at 4096 on read.
MIN_NAME_TABLE = 8
MAX_TABLE_ON_READ = 4096
# "Versioning": version 1 = Jelly 1.0; version 2 = 1.1 (namespace declarations).
VERSION_PLAIN = 1
VERSION_NAMESPACES = 2
SUPPORTED_MAX_VERSION = 2

# "Physical stream types": which statement/graph rows a stream of each physical type may carry
ROW_KINDS = {
    1: {"triple"},
    2: {"quad"},
    3: {"graph_start", "triple", "graph_end"},
}
COMMON_ROWS = {"options", "name", "prefix", "datatype", "namespace"}

# term kind -> wire field suffix ("RDF terms and graph nodes")
TERM_FIELDS = {"iri": "iri", "bnode": "bnode", "literal": "literal", "triple": "triple_term", "default_graph": "default_graph"}
