"""Front end: read and parse every module of /repo/pyjelly (never imported, never executed)."""
from __future__ import annotations

import ast
import hashlib
import os
from dataclasses import dataclass, field
from pathlib import Path

from .errors import AnalysisError
from .schema import Schema, load_schema

REPO = Path(os.environ.get("JSTAT_REPO", "/repo"))

# generated / schema modules that are replaced by the descriptor-derived namespace
SCHEMA_MODULES = {"pyjelly.jelly", "pyjelly.jelly.rdf_pb2"}


@dataclass
class Program:
    repo: Path
    modules: dict[str, ast.Module] = field(default_factory=dict)
    paths: dict[str, Path] = field(default_factory=dict)
    sha256: dict[str, str] = field(default_factory=dict)
    sources: dict[str, str] = field(default_factory=dict)
    schema: Schema | None = None

    def relpath(self, module: str) -> str:
        return str(self.paths[module].relative_to(self.repo))

    def files_evidence(self) -> list[dict]:
        return [
            {"file": self.relpath(m), "sha256": self.sha256[m]} for m in sorted(self.paths)
        ]

    def find_function(self, module: str, qualname: str) -> ast.AST:
        """Locate a def by dotted qualname inside a module; AnalysisError when it vanished."""
        node: ast.AST = self.modules.get(module)  # type: ignore[assignment]
        if node is None:
            raise AnalysisError(f"anchor vanished: module {module}")
        for part in qualname.split("."):
            found = None
            for child in ast.iter_child_nodes(node):
                if isinstance(child, (ast.FunctionDef, ast.ClassDef, ast.AsyncFunctionDef)) and child.name == part:
                    found = child
                    break
                # defs nested in if/try at module level
            if found is None:
                for child in ast.walk(node):
                    if isinstance(child, (ast.FunctionDef, ast.ClassDef)) and child.name == part:
                        found = child
                        break
            if found is None:
                raise AnalysisError(f"anchor vanished: {module}:{qualname}")
            node = found
        return node


def load_program(repo: Path | None = None) -> Program:
    repo = Path(repo or REPO)
    pkg = repo / "pyjelly"
    if not pkg.is_dir():
        raise AnalysisError(f"anchor vanished: {pkg}")
    prog = Program(repo)
    for path in sorted(pkg.rglob("*.py")):
        rel = path.relative_to(repo).with_suffix("")
        parts = list(rel.parts)
        if parts[-1] == "__init__":
            parts = parts[:-1]
        name = ".".join(parts)
        src = path.read_text()
        try:
            tree = ast.parse(src, filename=str(path))
        except SyntaxError as e:  # the tree does not compile: not a verdict
            raise AnalysisError(f"syntax error in {path}: {e}") from e
        prog.modules[name] = tree
        prog.paths[name] = path
        prog.sources[name] = src
        prog.sha256[name] = hashlib.sha256(src.encode()).hexdigest()
    prog.schema = load_schema(repo)
    return prog
