"""Symbolic writer -> reader pipeline harness shared by C01, C02, C03, C14, C15, C18, C19, C20.

Terms are described neutrally (('iri', s) | ('bnode', s) | ('lit', lex, lang, dt) |
('triple', s, p, o) | ('default',)) with symbolic strings, built into generic or rdflib terms
through the public constructors, pushed through the real serializer source, and the abstract
frames are handed to the real parser source and/or to the reference decoder.
"""
from __future__ import annotations

from typing import Any

from . import kit as K
from . import models_rdflib as R
from .errors import AnalysisError
from .freeze import freeze
from .interp import Interp
from .values import ADict, AList, Atom, ExtMethod, ExtObj, GenObj, Msg, Obj, SStr, is_strlike, sstr

XSD_STRING = K.XSD_STRING
STREAM_FOR = {1: "TripleStream", 2: "QuadStream", 3: "GraphStream"}


# ----------------------------------------------------------------------------- neutral term specs


def t_iri(tag: str, shape: str = "hash") -> tuple:
    return ("iri", K.Kit.iri_str(tag, shape))


def t_iri_const(s: str) -> tuple:
    return ("iri", s)


def t_bnode(tag: str) -> tuple:
    return ("bnode", sstr(Atom(tag + ".id")))


def t_lit(tag: str, kind: str = "plain") -> tuple:
    lex = sstr(Atom(tag + ".lex"))
    if kind == "plain":
        return ("lit", lex, None, None)
    if kind == "lang":
        return ("lit", lex, sstr(Atom(tag + ".lang")), None)
    if kind == "typed":
        return ("lit", lex, None, sstr(Atom(tag + ".dt")))
    if kind == "xsdstring":
        return ("lit", lex, None, XSD_STRING)
    if kind == "empty":
        return ("lit", "", None, None)
    raise ValueError(kind)


def t_triple(s: tuple, p: tuple, o: tuple) -> tuple:
    return ("triple", s, p, o)


DEFAULT = ("default",)


def normalise(term: tuple) -> tuple:
    """What the reader is expected to deliver: xsd:string typed literal == plain literal."""
    if term[0] == "lit" and term[3] == XSD_STRING:
        return ("lit", term[1], term[2], None)
    if term[0] == "triple":
        return ("triple",) + tuple(normalise(t) for t in term[1:])
    return term


def uses_typed_literal(term: tuple) -> bool:
    if term[0] == "lit":
        return term[3] is not None and term[3] != XSD_STRING
    if term[0] == "triple":
        return any(uses_typed_literal(t) for t in term[1:])
    return False


def rdf11(stmts: list) -> bool:
    """True when the sequence only uses RDF 1.1 terms in legal positions (representable in rdflib)."""
    for st in stmts:
        s_, p_, o_ = st[0], st[1], st[2]
        if s_[0] not in ("iri", "bnode") or p_[0] != "iri" or o_[0] not in ("iri", "bnode", "lit"):
            return False
        if len(st) > 3 and st[3][0] not in ("default", "iri", "bnode"):
            return False
    return True


def uses_kind(term: tuple, kind: str) -> bool:
    if term[0] == kind:
        return True
    if term[0] == "triple":
        return any(uses_kind(t, kind) for t in term[1:])
    return False


# ----------------------------------------------------------------------------- builders


def build_generic(k: K.Kit, term: tuple) -> Any:
    kind = term[0]
    if kind == "iri":
        return k.new(K.GK, "IRI", term[1])
    if kind == "bnode":
        return k.new(K.GK, "BlankNode", term[1])
    if kind == "lit":
        return k.new(K.GK, "Literal", term[1], term[2], term[3])
    if kind == "triple":
        return k.new(K.GK, "Triple", *[build_generic(k, t) for t in term[1:]])
    if kind == "default":
        return k.get(K.GK, "DefaultGraph")
    raise ValueError(kind)


def build_rdflib(term: tuple) -> Any:
    kind = term[0]
    if kind == "iri":
        return R.uri(term[1])
    if kind == "bnode":
        return R.bnode(term[1])
    if kind == "lit":
        return R.literal(term[1], term[2], R.uri(term[3]) if term[3] is not None else None)
    if kind == "default":
        return R.uri(R.DEFAULT_GRAPH_IRI)
    raise AnalysisError(f"rdflib has no term of kind {kind}")


def generic_statement(k: K.Kit, st: tuple) -> Obj:
    terms = [build_generic(k, t) for t in st]
    return k.new(K.GK, "Triple" if len(terms) == 3 else "Quad", *terms)


def rdflib_statement(k: K.Kit, st: tuple, plain: bool = False) -> Any:
    """pyjelly's Triple/Quad named tuples, or (plain=True) the bare tuples rdflib itself yields (Graph.triples, Dataset.quads)."""
    terms = [build_rdflib(t) for t in st]
    if plain:
        return tuple(terms)
    return k.new(K.RP, "Triple" if len(terms) == 3 else "Quad", *terms)


def neutral_of_generic(it: Interp, v: Any) -> Any:
    """Neutral rendering of what the generic reader returned, through its public shape:
    class name + constructor-ordered attributes (IRI(iri), BlankNode(identifier), Literal(lex, langtag, datatype))."""
    if isinstance(v, Obj):
        n = v.cls.name
        if v.tuple_items is not None:
            items = tuple(neutral_of_generic(it, x) for x in v.tuple_items)
            if n == "Triple":
                return ("triple",) + items
            if n == "Quad":
                return ("quad",) + items
            if n == "Prefix":
                return ("ns",) + items
            return (n,) + items
        # the generic term classes expose their components through these attributes (the same ones the encoder reads);
        # further private attributes a class may carry are ignored
        def comp(name: str) -> Any:
            if name not in v.attrs:
                raise AnalysisError(f"generic term {n} has no attribute {name} (anchor vanished)")
            return v.attrs[name]

        if n == "IRI":
            return ("iri", comp("_iri"))
        if n == "BlankNode":
            return ("bnode", comp("_identifier"))
        if n == "Literal":
            return ("lit", comp("_lex"), comp("_langtag"), comp("_datatype"))
        if n == "_DefaultGraph":
            return ("default",)
        return (n,) + tuple(neutral_of_generic(it, x) for x in v.attrs.values())
    if v is None:
        return None
    return v


def neutral_of_rdflib(it: Interp, v: Any) -> Any:
    if isinstance(v, ExtObj):
        if v.kind == "rdflib.URIRef":
            if v.attrs["value"] == R.DEFAULT_GRAPH_IRI:
                return ("default",)
            return ("iri", v.attrs["value"])
        if v.kind == "rdflib.BNode":
            return ("bnode", v.attrs["value"])
        if v.kind == "rdflib.Literal":
            dt = v.attrs["datatype"]
            return ("lit", v.attrs["lex"], v.attrs["language"], dt.attrs["value"] if isinstance(dt, ExtObj) else dt)
        if v.kind in R.GRAPH_KINDS:
            return neutral_of_rdflib(it, v.attrs["identifier"])
    if isinstance(v, Obj) and v.tuple_items is not None:
        items = tuple(neutral_of_rdflib(it, x) for x in v.tuple_items)
        return ({"Triple": "triple", "Quad": "quad", "Prefix": "ns"}.get(v.cls.name, v.cls.name),) + items
    if isinstance(v, tuple):
        return tuple(neutral_of_rdflib(it, x) for x in v)
    return v


def expected_items(stmts: list[tuple], physical: int) -> list[tuple]:
    out = []
    for st in stmts:
        terms = tuple(normalise(t) for t in st)
        out.append(("triple" if len(terms) == 3 else "quad",) + terms)
    return out


def unsplit(it: Interp, v: Any) -> Any:
    """Undo symbolic rpartition splits recorded on this path: (head, sep, tail) -> original atom."""
    laws = [(k[1], k[2], k[3], p) for k, p in it.assume.items() if isinstance(k, tuple) and k and k[0] == "split"]
    if not laws:
        return v

    def fix(x: Any) -> Any:
        if isinstance(x, SStr):
            parts = list(x.parts)
            changed = True
            while changed:
                changed = False
                for a, sep, b, p in laws:
                    for i in range(len(parts)):
                        # pattern: a, sep(+...), b   where sep may be merged into a constant piece
                        if parts[i] == a and i + 1 < len(parts) and isinstance(parts[i + 1], str) and parts[i + 1].startswith(sep):
                            rest = parts[i + 1][len(sep) :]
                            if rest == "" and i + 2 < len(parts) and parts[i + 2] == b:
                                parts[i : i + 3] = [p]
                                changed = True
                                break
                            if b.nonempty is not True and False:
                                pass
                    if changed:
                        break
            return sstr(*parts)
        if isinstance(x, tuple):
            return tuple(fix(y) for y in x)
        if isinstance(x, list):
            return [fix(y) for y in x]
        return x

    return fix(v)


def table_needs(stmts: list[tuple]) -> tuple[int, int, int]:
    """(names, prefixes, datatypes) one statement of the sequence needs at most (term occurrences)."""
    best = [0, 0, 0]

    def walk(t: tuple, acc: list) -> None:
        if t[0] == "iri":
            acc[0] += 1
            acc[1] += 1
        elif t[0] == "lit":
            if t[3] is not None and t[3] != XSD_STRING:
                acc[2] += 1
        elif t[0] == "triple":
            for x in t[1:]:
                walk(x, acc)

    for st in stmts:
        acc = [0, 0, 0]
        for t in st:
            walk(t, acc)
        best = [max(a, b) for a, b in zip(best, acc)]
    return (best[0], best[1], best[2])


# ----------------------------------------------------------------------------- writer / reader drivers


def make_options(k: K.Kit, *, logical: int | None = None, delimited: bool = True, frame_size: int | None = 250, preset: tuple = (8, 8, 8), namespaces: bool = False, generalized: bool = True, rdf_star: bool = True, flow: Any = None, version: int | None = None) -> Obj:
    pkw: dict[str, Any] = dict(delimited=delimited, namespace_declarations=namespaces, generalized_statements=generalized, rdf_star=rdf_star)
    if version is not None:
        pkw["version"] = version  # what the caller asks for; the library decides what is declared
    params = k.params(**pkw)
    kw: dict[str, Any] = dict(params=params, lookup_preset=k.preset(*preset))
    if frame_size is not None:  # None: the library's own default (a tunable, see tunables.py)
        kw["frame_size"] = frame_size
    if logical is not None:
        kw["logical_type"] = logical
    if flow is not None:
        kw["flow"] = flow
    return k.options(**kw)


def write_generic(k: K.Kit, physical: int, stmts: list[tuple], opts: Obj, *, via: str = "sink", namespaces: list | None = None) -> tuple[list, Obj]:
    it = k.it
    if namespaces:
        namespaces = [(p, k.new(K.GK, "IRI", ns) if is_strlike(ns) else ns) for p, ns in namespaces]
    objs = [generic_statement(k, st) for st in stmts]
    if via == "flat":
        frames = it.drain(k.call(k.get(K.GS, "flat_stream_to_frames"), k.generator(objs), opts))
        streams = [e["obj"] for e in it.events if e["kind"] == "setattr" and e["attr"] == "flow" and isinstance(e.get("obj"), Obj) and isinstance(e.get("value"), Obj)]
        return frames, streams[-1]
    enc = k.generic_encoder(k.attr(opts, "lookup_preset"))
    stream = k.stream(STREAM_FOR[physical], enc, opts)
    if via == "grouped2":
        half = (len(objs) + 1) // 2
        sinks = [k.g_sink(objs[:half], namespaces), k.g_sink(objs[half:], namespaces)]
        frames = it.drain(k.call(k.get(K.GS, "grouped_stream_to_frames"), k.generator(sinks), opts))
        streams = [e["obj"] for e in it.events if e["kind"] == "setattr" and e["attr"] == "flow" and isinstance(e.get("obj"), Obj) and isinstance(e.get("value"), Obj)]
        return frames, (streams[-1] if streams else stream)
    if via == "sink":
        data: Any = k.g_sink(objs, namespaces)
    else:
        data = k.generator(objs)
    frames = it.drain(k.call(k.get(K.GS, "stream_frames"), stream, data))
    return frames, stream


def rdflib_store_for(k: K.Kit, physical: int, stmts: list[tuple], namespaces: list | None = None) -> ExtObj:
    it = k.it
    if physical == 1:
        g = R.new_graph(it, R.uri(sstr(Atom("graph-id", nosep=True))))
        for st in stmts:
            R._add_triple(it, g, tuple(build_rdflib(t) for t in st))
        store = g
    else:
        store = R.new_dataset(it)
        for st in stmts:
            gname = build_rdflib(st[3])
            ctx = store.attrs["default"] if st[3] == DEFAULT else R._get_context(it, store, gname)
            R._add_triple(it, ctx, tuple(build_rdflib(t) for t in st[:3]))
    for prefix, ns in namespaces or []:
        R.method(it, ExtMethod(store, store.kind, "bind"), [prefix, R.uri(ns) if is_strlike(ns) else ns], {})
    return store


def write_rdflib(k: K.Kit, physical: int, stmts: list[tuple], opts: Obj, *, via: str = "store", namespaces: list | None = None) -> tuple[list, Obj]:
    it = k.it
    if via in ("flat", "flat-plain"):
        frames = it.drain(k.call(k.get(K.RS, "flat_stream_to_frames"), k.generator([rdflib_statement(k, st, plain=via == "flat-plain") for st in stmts]), opts))
        streams = [e["obj"] for e in it.events if e["kind"] == "setattr" and e["attr"] == "flow" and isinstance(e.get("obj"), Obj) and isinstance(e.get("value"), Obj)]
        return frames, streams[-1]
    stream = k.method(k.get(K.ST, STREAM_FOR[physical]), "for_rdflib", opts)
    if via == "grouped2":
        half = (len(stmts) + 1) // 2
        stores = [rdflib_store_for(k, physical, stmts[:half], namespaces), rdflib_store_for(k, physical, stmts[half:], namespaces)]
        frames = it.drain(k.call(k.get(K.RS, "grouped_stream_to_frames"), k.generator(stores), opts))
        streams = [e["obj"] for e in it.events if e["kind"] == "setattr" and e["attr"] == "flow" and isinstance(e.get("obj"), Obj) and isinstance(e.get("value"), Obj)]
        return frames, (streams[-1] if streams else stream)
    if via == "store":
        data: Any = rdflib_store_for(k, physical, stmts, namespaces)
    else:
        data = k.generator([rdflib_statement(k, st, plain=via == "generator-plain") for st in stmts])
    frames = it.drain(k.call(k.get(K.RS, "stream_frames"), stream, data))
    return frames, stream


def read_items(k: K.Kit, integ: str, parser: str, frames: list, delimited: bool = True, **kw: Any) -> list:
    """Run a public parser of one integration over abstract frames; returns neutral items."""
    it = k.it
    mod = K.GP if integ == "generic" else K.RP
    neutral = neutral_of_generic if integ == "generic" else neutral_of_rdflib
    inp = k.input_stream(list(frames), delimited=delimited)
    res = k.call(k.get(mod, parser), inp, **kw)
    out: list = []
    if parser == "parse_jelly_flat":
        for item in it.drain(res):
            out.append(neutral(it, item))
    elif parser == "parse_jelly_grouped":
        # a streaming consumer: every group is read when it is yielded, before the next one is requested
        g = it.get_iter(res)
        while True:
            ok, sink = it.next_value(g)
            if not ok:
                break
            out.append(("group", sink_items(k, integ, sink)))
    elif parser == "parse_jelly_to_graph":
        out = sink_items(k, integ, res)
    return out


def sink_items(k: K.Kit, integ: str, sink: Any) -> list:
    it = k.it
    out: list = []
    if integ == "generic":
        for prefix, ns in it.drain(k.attr(sink, "namespaces")):
            out.append(("ns", prefix, neutral_of_generic(it, ns)))
        for st in it.drain(sink):
            out.append(neutral_of_generic(it, st))
        return out
    for prefix, ns in sink.attrs["ns"].items:
        out.append(("ns", prefix, neutral_of_rdflib(it, ns)))
    if sink.kind == "rdflib.Dataset":
        for g in R._contexts(it, sink):
            for (s, p, o) in g.attrs["data"].items:
                out.append(("quad", neutral_of_rdflib(it, s), neutral_of_rdflib(it, p), neutral_of_rdflib(it, o), neutral_of_rdflib(it, g.attrs["identifier"])))
    else:
        for (s, p, o) in sink.attrs["data"].items:
            out.append(("triple", neutral_of_rdflib(it, s), neutral_of_rdflib(it, p), neutral_of_rdflib(it, o)))
    return out


LANGCASE_CONSTRUCT = "pyjelly.serialize.encode.encode_spo:repeated-term-equality:language-tag-case"


def fold_langcase(v: Any) -> Any:
    """Frozen neutral items with every constant language tag lower-cased (RDF language tags are case-insensitive and
    rdflib's Literal equality ignores their case)."""
    if isinstance(v, (tuple, list)):
        if len(v) == 4 and v[0] == "lit" and isinstance(v[2], str):
            return ("lit", fold_langcase(v[1]), v[2].lower(), fold_langcase(v[3]))
        return tuple(fold_langcase(x) for x in v)
    return v


def only_langcase_differs(a: Any, b: Any) -> bool:
    return a != b and fold_langcase(a) == fold_langcase(b)
