"""C01 — generic API round trip: symbolic writer∘reader composite is the identity.

Necessary structural conditions decided: for every term kind x slot x repeat pattern x preset
variant x framing, the real serializer source followed by the real parser source maps a symbolic
statement sequence to itself (same length, order, duplicates, components), modulo the one
documented normalisation (xsd:string == plain).
"""
from __future__ import annotations

from typing import Any

from .. import corpus as C
from .. import kit as K
from .. import pipe as P
from ..par import pmap
from ..report import Check
from . import pipejob


def jobs_for(tier: str) -> list[dict]:
    jobs: list[dict] = []
    all_parsers = [("generic", "parse_jelly_flat"), ("generic", "parse_jelly_to_graph"), ("generic", "parse_jelly_grouped")]
    for physical in (1, 2, 3):
        arity = 3 if physical == 1 else 4
        flat_lt = 1 if physical == 1 else 2
        kinds = C.kind_sequences(arity)
        small = C.repeat_masks(arity) + C.sharing_sequences(arity)
        # full kind coverage at the reference configuration
        for name, stmts in kinds + small:
            jobs.append(dict(integ="generic", physical=physical, name=name, stmts=stmts, preset=(8, 8, 8), delimited=True, frame_size=250, logical=flat_lt, via="sink", parsers=all_parsers if tier == "thorough" or name.startswith(("o=", "g=", "repeat", "shared", "five", "graphs")) else [("generic", "parse_jelly_flat")]))
        # configuration sweep on the reduced set (+ literal/quoted kinds so that disabled tables are exercised)
        sweep = small + [k for k in kinds if k[0] in ("o=lit-typed", "o=lit-xsd", "o=triple-2", "s=iri-nosep", "o=iri-slash", "g=lit-typed", "g=default", "s=triple-1")]
        for preset in ((8, 0, 8), (8, 8, 0), (8, 0, 0), "tight", (4000, 150, 32)):
            for name, stmts in sweep:
                if preset == "tight":
                    n, pf, dt = P.table_needs(stmts)
                    # the smallest legal sizing: every enabled table holds exactly what one statement needs
                    preset_v = (max(8, n), max(1, pf), max(1, dt))
                else:
                    preset_v = preset
                jobs.append(dict(integ="generic", physical=physical, name=name, stmts=stmts, preset=preset_v, delimited=True, frame_size=250, logical=flat_lt, via="sink", parsers=[("generic", "parse_jelly_flat")]))
        framings = [dict(delimited=True, frame_size=1, logical=flat_lt), dict(delimited=True, frame_size=3, logical=flat_lt), dict(delimited=False, frame_size=250, logical=flat_lt), dict(delimited=True, frame_size=250, logical=None)]
        if physical == 1:
            framings.append(dict(delimited=True, frame_size=250, logical=3))
        else:
            framings.append(dict(delimited=True, frame_size=250, logical=4))
        for fr in framings:
            for via in ("sink", "generator"):
                for name, stmts in small if tier == "quick" else sweep:
                    jobs.append(dict(integ="generic", physical=physical, name=name, stmts=stmts, preset=(8, 8, 8), via=via, parsers=all_parsers, **fr))
    # thresholds written in the source (batch sizes, default frame size, chunk sizes) scaled below the sequence length
    jobs += pipejob.scaled_jobs("generic", all_parsers)
    return jobs


def fit_presets(jobs: list[dict]) -> list[dict]:
    """Precondition of the property: every *enabled* table holds what one statement needs."""
    for j in jobs:
        need = P.table_needs(j["stmts"])
        j["preset"] = tuple(max(p, n) if p > 0 else 0 for p, n in zip(j.get("preset", (8, 8, 8)), need))
    return jobs


def judge(chk: Check, rule: str, res: dict, reader_keys: list[str] | None = None) -> None:
    job = res["job"]
    cfg = f"physical={job['physical']} preset={job.get('preset')} delimited={job.get('delimited')} frame_size={job.get('frame_size')} logical={job.get('logical')} via={job.get('via')}"
    inst_base = f"{job['name']} | {cfg}"
    for pi, rec in enumerate(res["paths"]):
        chk.paths += 1
        inst = inst_base + (f" | path {pi}" if len(res["paths"]) > 1 else "")
        if rec["writer"][0] == "raise":
            typed_disabled = res["typed"] and job["preset"][2] == 0
            if typed_disabled and rec["writer"][1] == "JellyConformanceError":
                chk.ok(rule, inst, {"writer": "refuses typed literal with disabled datatype table"})
            else:
                chk.fail(rule, inst, f"pyjelly.integrations.{job['integ']}.serialize:{_where(rec['writer'][2])}", f"serialising {job['name']} raises {rec['writer'][1]} at {rec['writer'][2]} ({cfg})")
            continue
        for key, out in rec["readers"].items():
            if reader_keys is not None and key not in reader_keys:
                continue
            if out[0] == "raise":
                chk.fail(rule, f"{inst} | {key}", f"pyjelly.{key}:{_where(out[2])}", f"parsing pyjelly's own output raises {out[1]} at {out[2]}: {job['name']} ({cfg}); rows: {rec['frames']}")
                continue
            got = out[1]
            want = res["expected"]
            if key.endswith("parse_jelly_grouped"):
                flat = []
                for g in got:
                    flat.extend(g[1])
                got = tuple(flat)
            if got == want:
                chk.ok(rule, f"{inst} | {key}", {"statements": len(want), "frames": rec["frames"], "decisions": [d[0] for d in rec["decisions"]][:4]})
            else:
                chk.fail(rule, f"{inst} | {key}", f"pyjelly.integrations.{job['integ']}:roundtrip:{job['name'].split('=')[0] if '=' in job['name'] else 'sequence'}", f"round trip is not the identity for {job['name']} ({cfg}) via {key}: {pipejob.first_diff(got, want)}", {"rows": rec["frames"]})


def _where(site: str) -> str:
    # "('module', line, 'func')" -> module.func (line numbers are not part of the key)
    try:
        mod, _line, fn = eval(site)  # noqa: S307 - our own repr of a tuple of constants
        return f"{mod}.{fn}"
    except Exception:  # noqa: BLE001
        return site


def check(chk: Check) -> None:
    chk.rule("C01.PIPE.identity", "generic writer∘reader composite == identity on symbolic statement sequences (every term kind x slot, repeat patterns, presets, framings, entry points)", floor=400)
    chk.trusted += ["protobuf carries the abstract messages faithfully", "str.rpartition law", "generic-position assumption: structurally different symbolic strings are different strings"]
    chk.undecided += ["equality for concrete data beyond the kinds/patterns enumerated", "table sizing below one statement's needs (C18)"]
    jobs = fit_presets(jobs_for(chk.tier))
    results = pmap(pipejob.run, jobs)
    for res in results:
        if res is None:
            continue
        chk.functions.update(res["funcs"])
        judge(chk, "C01.PIPE.identity", res)
    chk.note(f"{len(jobs)} pipeline jobs")
