"""C14 — namespace declarations round-trip and never affect statements."""
from __future__ import annotations

from typing import Any

from .. import corpus as C
from .. import kit as K
from .. import models_rdflib as R
from .. import pipe as P
from .. import refdec
from ..freeze import freeze
from ..interp import Interp, explore
from ..report import Check
from ..values import Atom, ExtObj, Obj, PyRaise, SStr, is_strlike, sstr
from . import pipejob

NS = [
    (sstr(Atom("pfx1", nosep=True)), sstr(Atom("ns1.iri"), "#")),
    ("", sstr(Atom("ns2.iri"), "/")),
    (sstr(Atom("pfx3", nosep=True)), sstr(Atom("ns3.whole", nosep=True))),
    ("ex", "http://example.org/ünï/"),
    # two namespaces without a trailing separator that share their parent path: the second one's prefix part equals the
    # first one's, so it travels as prefix_id 0 ("same as the last prefix used")
    ("alpha", sstr(Atom("ns5.scheme", nosep=True), "/", Atom("ns5.path", nosep=True), "/alpha")),
    ("beta", sstr(Atom("ns5.scheme", nosep=True), "/", Atom("ns5.path", nosep=True), "/beta")),
    # the namespace of the first statement's subject (declared last: the first IRI after the declarations shares its prefix)
    ("subj", sstr(Atom("a.s.scheme", nosep=True), "/", Atom("a.s.path", nosep=True), "#")),
]


def _reader_ns(k: K.Kit, integ: str, frames: list) -> tuple[list, list, list]:
    """Prefix events of parse_jelly_flat (neutral), namespaces bound on the sink of parse_jelly_to_graph,
    and the raw IRI payload classes (to detect double adaptation)."""
    it = k.it
    mod = K.GP if integ == "generic" else K.RP
    events = []
    shapes = []
    for item in it.drain(k.call(k.get(mod, "parse_jelly_flat"), k.input_stream(list(frames)))):
        if isinstance(item, Obj) and item.cls.name == "Prefix":
            prefix, iri = item.tuple_items
            if integ == "generic":
                inner = list(iri.attrs.values())[0] if isinstance(iri, Obj) and iri.attrs else iri
                shapes.append("str" if is_strlike(inner) else type(inner).__name__ + ":" + getattr(getattr(inner, "cls", None), "name", ""))
                events.append((prefix, inner if is_strlike(inner) else P.neutral_of_generic(it, inner)))
            else:
                shapes.append("str" if isinstance(iri, ExtObj) and is_strlike(iri.attrs.get("value")) else repr(iri))
                events.append((prefix, iri.attrs["value"] if isinstance(iri, ExtObj) else iri))
    sink = k.call(k.get(mod, "parse_jelly_to_graph"), k.input_stream(list(frames)))
    bound = [(x[1], x[2][1] if isinstance(x[2], tuple) else x[2]) for x in P.sink_items(k, integ, sink) if x[0] == "ns"]
    # grouped parsing: the declarations of a frame are bound on that frame's sink; over all sinks, in order, they are
    # the declarations of the stream
    grouped: list = []
    g = it.get_iter(k.call(k.get(mod, "parse_jelly_grouped"), k.input_stream(list(frames))))
    while True:
        ok, gs = it.next_value(g)
        if not ok:
            break
        grouped += [(x[1], x[2][1] if isinstance(x[2], tuple) else x[2]) for x in P.sink_items(k, integ, gs) if x[0] == "ns"]
    k.it.__dict__.setdefault("_c14_grouped", []).append(grouped)
    return events, bound, shapes


def _write(k: K.Kit, integ: str, physical: int, stmts: list, ns_enabled: bool, bindings: list, via: str, frame_size: int = 250, preset: tuple = (8, 8, 8)) -> list:
    opts = P.make_options(k, logical=None, namespaces=ns_enabled, generalized=integ == "generic", rdf_star=integ == "generic", frame_size=frame_size, preset=preset)
    writer = P.write_generic if integ == "generic" else P.write_rdflib
    frames, _stream = writer(k, physical, stmts, opts, via=via, namespaces=bindings)
    return frames


def check(chk: Check) -> None:
    prog = chk.program
    rp, ro, rg, rs, rf = "C14.PIPE.identity", "C14.PATH.order", "C14.TAINT.guard", "C14.PIPE.statements-unaffected", "C14.PIPE.fixpoint"
    chk.rule(rp, "every (prefix, IRI) bound on the source reaches the reader as the same prefix and the same IRI string; the adapter's term constructor is applied once", floor=10)
    chk.rule(ro, "declarations are delivered in source iteration order", floor=10)
    chk.rule(rg, "with the option off no namespace row is written", floor=10)
    chk.rule(rs, "enabling declarations does not change the statements read back (nor make serialisation fail)", floor=10)
    chk.rule(rf, "re-serialising what was read reproduces the same namespace rows", floor=6)
    chk.trusted += ["rdflib Graph.namespaces()/bind model: binding order is preserved", "protobuf carries the abstract messages faithfully"]
    chk.undecided += ["interaction with evictions on concrete data (C05)", "rdflib's own default bindings (a fresh rdflib Graph pre-binds ~25 prefixes; the model starts empty)"]
    chk.part("prebound-target", lambda: _prebound(chk))
    chk.part("reused-sink", lambda: _reused_sink(chk))
    for integ in ("generic", "rdflib"):
        for physical in (1, 2, 3):
            arity = 3 if physical == 1 else 4
            plain_stmts = [tuple(C.base("a", arity)), tuple(C.base("b", arity))]
            vias = ("sink", "grouped2", "generator") if integ == "generic" else ("store", "grouped2", "generator")
            # "chain": the second sink's first IRI is an IRI of the first sink's last statement (object / last term), so
            # the declarations of the second sink fall between two uses of one IRI
            for via, fsz, preset, chain in [(v, f_, (8, 8, 8), None) for v in vias for f_ in (250, 2)] + [(vias[0], 250, (8, 0, 8), None), (vias[0], 250, (16, 2, 8), None), ("grouped2", 250, (8, 8, 8), 2), ("grouped2", 250, (8, 8, 8), -1), ("grouped2", 250, (8, 0, 8), 2)]:
                stmts = plain_stmts
                if chain is not None:
                    b_ = list(C.base("b", arity))
                    b_[0] = plain_stmts[0][chain]
                    stmts = [plain_stmts[0], tuple(b_)]

                def scenario(it: Interp) -> Any:
                    k = K.Kit(it)
                    out: dict[str, Any] = {}
                    bindings = NS if via != "generator" else None
                    try:
                        off = _write(k, integ, physical, stmts, False, bindings, via, fsz, preset)
                        out["off_rows"] = [x for x in refdec.decode(it.schema, off).items if x[0] == "ns"]
                        out["off_stmts"] = freeze([x for x in refdec.decode(it.schema, off).items if x[0] != "ns"])
                    except PyRaise as pr:
                        out["off_error"] = (it.exc_class_name(pr.exc), str(pr.site))
                    try:
                        on = _write(k, integ, physical, stmts, True, bindings, via, fsz, preset)
                    except PyRaise as pr:
                        out["on_error"] = (it.exc_class_name(pr.exc), str(pr.site))
                        return out
                    out["reorder"] = [(e["what"], e["site"][2]) for e in it.events if e["kind"] == "reorder"]
                    ref = refdec.decode(it.schema, on)
                    out["ref_errors"] = ref.errors
                    out["on_rows"] = freeze(P.unsplit(it, [(x[1], x[2]) for x in ref.items if x[0] == "ns"]))
                    out["on_stmts"] = freeze([x for x in ref.items if x[0] != "ns"])
                    out["version"] = ref.options["version"] if ref.options else None
                    try:
                        events, bound, shapes = _reader_ns(k, integ, on)
                        out["events"] = freeze(P.unsplit(it, events))
                        out["bound"] = freeze(P.unsplit(it, bound))
                        out["grouped_bound"] = freeze(P.unsplit(it, it.__dict__.get("_c14_grouped", [[]])[-1]))
                        out["shapes"] = shapes
                        # fixpoint: write again from what was read
                        if via != "generator":
                            again = _write(k, integ, physical, stmts, True, [(p, i) for p, i in bound], "sink" if integ == "generic" else "store", 250, preset)
                            out["again_rows"] = freeze(P.unsplit(it, [(x[1], x[2]) for x in refdec.decode(it.schema, again).items if x[0] == "ns"]))
                    except PyRaise as pr:
                        out["reader_error"] = (it.exc_class_name(pr.exc), str(pr.site))
                    return out

                inst = f"{integ} physical={physical} via={via} frame_size={fsz}" + (f" preset={preset}" if preset != (8, 8, 8) else "") + (f" second sink starts with term {chain} of the first sink's statement" if chain is not None else "")
                for it, res in explore(prog, scenario, max_paths=16, generic_strings=True):
                    chk.paths += 1
                    chk.saw_functions(it)
                    if res[0] != "ok":
                        raise AssertionError("unreachable")
                    o = res[1]
                    base = f"pyjelly.integrations.{integ}"
                    want = freeze([(p, i) for p, i in NS]) if via != "generator" else ()
                    n_rep = 2 if via == "grouped2" else 1
                    # guard
                    if "off_error" in o:
                        chk.fail(rg, inst, f"{base}.serialize:ns-off", f"serialisation with declarations off raises {o['off_error']}")
                    elif o["off_rows"]:
                        chk.fail(rg, inst, f"{base}.serialize:namespace-guard", "namespace rows are written although namespace_declarations is off")
                    else:
                        chk.ok(rg, inst, {"rows": 0})
                    # statements unaffected / serialisation still works
                    if "on_error" in o:
                        chk.fail(rs, inst, f"{base}.serialize:namespace_declarations-on-{via}", f"enabling namespace declarations makes serialisation of a {via} raise {o['on_error'][0]} at {o['on_error'][1]}")
                        continue
                    if "off_stmts" in o and o["on_stmts"] != o["off_stmts"]:
                        chk.fail(rs, inst, f"{base}.serialize:statements-changed", "statements decoded from the stream differ between declarations on and off")
                    elif o["ref_errors"]:
                        chk.fail(rs, inst, f"{base}.serialize:invalid-with-ns", f"stream with declarations is invalid: {o['ref_errors'][:2]}")
                    elif o["version"] != 2:
                        chk.fail(rs, inst, "pyjelly.options.StreamParameters.__post_init__", f"declarations enabled but the stream declares version {o['version']}")
                    else:
                        chk.ok(rs, inst, {"statements": len(o["on_stmts"])})
                    if via == "generator":
                        continue
                    if o.get("reorder"):
                        chk.fail(ro, inst + " | source order", f"{base}.serialize.namespace_declarations:reordered", f"the bindings pass through a reordering construct ({o['reorder'][0][0]} in {o['reorder'][0][1]}) between the source and the stream: declarations are not written in source order")
                    # identity on the wire
                    rows = o["on_rows"]
                    if tuple(rows) == tuple(want) * n_rep:
                        chk.ok(rp, inst + " | wire", {"rows": len(rows)})
                        chk.ok(ro, inst + " | wire", None)
                    elif sorted(map(repr, rows)) == sorted(map(repr, tuple(want) * n_rep)):
                        chk.fail(ro, inst + " | wire", f"{base}.serialize.namespace_declarations:order", f"declarations are written in a different order than the source yields them: {rows}")
                    else:
                        chk.fail(rp, inst + " | wire", f"{base}.serialize.namespace_declarations", f"declarations on the wire {rows} differ from the bindings {want}")
                    if "reader_error" in o:
                        chk.fail(rp, inst + " | reader", f"{base}.parse:namespace", f"reading the declarations raises {o['reader_error']}")
                        continue
                    # identity at the reader (events) and on the sink
                    if any(s != "str" for s in o["shapes"]):
                        chk.fail(rp, inst + " | reader events", "pyjelly.parse.decode.Decoder.decode_namespace_declaration:double-adaptation", f"Prefix.iri wraps {o['shapes'][0]} instead of a string: the adapter's IRI constructor is applied twice")
                    elif tuple(o["events"]) == tuple(rows):
                        chk.ok(rp, inst + " | reader events", {"events": len(o["events"])})
                    elif sorted(map(repr, o["events"])) == sorted(map(repr, rows)):
                        chk.fail(ro, inst + " | reader events", f"{base}.parse:namespace-order", "Prefix events are delivered in a different order than written")
                    else:
                        chk.fail(rp, inst + " | reader events", f"{base}.parse:namespace", f"Prefix events {o['events']} differ from the rows {rows}")
                    uniq = tuple(dict.fromkeys(tuple(want)))
                    if tuple(o["bound"]) == uniq and all(s == "str" for s in o["shapes"]):
                        chk.ok(rp, inst + " | sink bindings", {"bound": len(o["bound"])})
                    elif all(s == "str" for s in o["shapes"]):
                        chk.fail(rp, inst + " | sink bindings", f"{base}.parse.parse_jelly_to_graph:bind", f"namespaces bound on the sink {o['bound']} differ from the source bindings {uniq}")
                    if all(s == "str" for s in o["shapes"]):
                        gb = tuple(o.get("grouped_bound", ()))
                        # one sink per frame: a binding repeated in a later frame is bound again on that frame's sink
                        if gb == tuple(rows) or tuple(dict.fromkeys(gb)) == uniq and len(gb) <= len(rows):
                            chk.ok(rp, inst + " | grouped sink bindings", {"bound": len(gb)})
                        else:
                            chk.fail(rp, inst + " | grouped sink bindings", f"{base}.parse.parse_jelly_grouped:bind", f"namespaces bound on the sinks of grouped parsing {gb} differ from the declarations of the stream {tuple(rows)}")
                    if "again_rows" in o and all(s == "str" for s in o["shapes"]):
                        if tuple(o["again_rows"]) == uniq:
                            chk.ok(rf, inst, None)
                        else:
                            chk.fail(rf, inst, f"{base}:namespace-fixpoint", f"re-serialising the parsed bindings writes {o['again_rows']}, the original bindings were {uniq}")


def _prebound(chk: Check) -> None:
    """rdflib reader: a namespace the target already knows under another prefix must end up under the declared prefix."""
    rule = "C14.PIPE.identity"
    prog = chk.program
    for physical in (1, 2):

        def scenario(it: Interp) -> Any:
            k = K.Kit(it)
            arity = 3 if physical == 1 else 4
            stmts = [tuple(C.base("a", arity))]
            ns_iri = sstr(Atom("known.scheme", nosep=True), "/", Atom("known.path", nosep=True), "#")
            frames = _write(k, "rdflib", physical, stmts, True, [("mine", ns_iri)], "store")

            def pre(target: ExtObj) -> ExtObj:
                R.method(it, R.ExtMethod(target, target.kind, "bind"), ["theirs", R.uri(ns_iri)], {})
                return target

            from ..values import ExtRef, FuncRef

            g = pre(R.new_graph(it, R.uri(sstr(Atom("tgt", nosep=True))))) if physical == 1 else pre(R.new_dataset(it))
            # factories handed to parse_jelly_to_graph return the caller's pre-bound object
            fac = lambda i_, a_, k_: g  # noqa: E731
            it.models._EXT["jstat.prebound_factory"] = fac
            res = k.call(k.get(K.RP, "parse_jelly_to_graph"), k.input_stream(list(frames)), graph_factory=ExtRef("jstat.prebound_factory"), dataset_factory=ExtRef("jstat.prebound_factory"))
            return [(p_, n_.attrs["value"]) for p_, n_ in res.attrs["ns"].items], ns_iri

        inst = f"rdflib physical={physical}: target already binds the namespace under another prefix"
        for it, out in explore(prog, scenario, max_paths=8, generic_strings=True):
            chk.paths += 1
            if out[0] != "ok":
                chk.fail(rule, inst, "pyjelly.integrations.rdflib.parse.parse_jelly_to_graph:bind", f"raises {it.exc_class_name(out[1].exc)} at {out[1].site}")
                continue
            bound, ns_iri = out[1]
            if ("mine", ns_iri) in bound and not any(p_ == "theirs" for p_, _n in bound):
                chk.ok(rule, inst, {"bound": [p_ for p_, _n in bound]})
            else:
                chk.fail(rule, inst, "pyjelly.integrations.rdflib.parse.parse_jelly_to_graph:bind", f"the declared prefix 'mine' is not what the target ends up with for that namespace (bindings: {[p_ for p_, _n in bound]}): re-serialising writes a different declaration")


def _reused_sink(chk: Check) -> None:
    """generic reader: a sink that already had bindings (and had them listed) is reused with sink.parse()."""
    rule = "C14.PIPE.identity"
    prog = chk.program

    def scenario(it: Interp) -> Any:
        k = K.Kit(it)
        stmts = [tuple(C.base("a", 3))]
        ns_new = sstr(Atom("new.scheme", nosep=True), "/", Atom("new.path", nosep=True), "#")
        ns_old = sstr(Atom("old.scheme", nosep=True), "/", Atom("old.path", nosep=True), "/")
        frames = _write(k, "generic", 1, stmts, True, [("mine", ns_new)], "sink")
        sink = k.g_sink([], [("theirs", k.new(K.GK, "IRI", ns_old))])
        before = [(p_, P.neutral_of_generic(it, n_)) for p_, n_ in it.drain(k.attr(sink, "namespaces"))]
        k.method(sink, "parse", k.input_stream(list(frames)))
        after = [(p_, P.neutral_of_generic(it, n_)) for p_, n_ in it.drain(k.attr(sink, "namespaces"))]
        again = [(p_, P.neutral_of_generic(it, n_)) for p_, n_ in it.drain(k.attr(sink, "namespaces"))]
        return before, after, again, ns_new

    inst = "generic sink.parse() on a sink whose earlier bindings were listed before"
    for it, out in explore(prog, scenario, max_paths=8, generic_strings=True):
        chk.paths += 1
        if out[0] != "ok":
            chk.fail(rule, inst, "pyjelly.integrations.generic.generic_sink.GenericStatementSink.parse", f"raises {it.exc_class_name(out[1].exc)} at {out[1].site}")
            continue
        before, after, again, ns_new = out[1]
        want = [("mine", ("iri", ns_new))]
        if freeze(after) == freeze(want) and freeze(again) == freeze(want):
            chk.ok(rule, inst, {"bindings_after_parse": [p_ for p_, _ in after]})
        else:
            chk.fail(rule, inst, "pyjelly.integrations.generic.generic_sink.GenericStatementSink.namespaces:stale-after-parse", f"after sink.parse() the sink lists {[p_ for p_, _ in after]} (then {[p_ for p_, _ in again]}); the file declares ['mine']: bindings read from the file are not what the sink reports (and would re-serialise)")
