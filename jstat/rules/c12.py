"""C12 — streams are isolated and serialization is deterministic.

Whole-package ownership and effect analysis:
* OWN.shared-objects (traces + syntactic sweep): nothing created at import time is mutated later;
* OWN.fresh-instance-state: two instances of a stateful class share no mutable object;
* TABLE.defaults: every parameter / dataclass default is immutable (or a default_factory);
* TAINT.nondeterminism: no hash/id/random/time/set-iteration/non-deterministic serialisation on
  the encode and parse paths; the writer never fills the metadata map.
"""
from __future__ import annotations

import ast
from typing import Any

from .. import corpus as C
from .. import kit as K
from .. import models_rdflib as R
from .. import pipe as P
from ..errors import AnalysisError
from ..interp import Interp, explore
from ..report import Check
from ..values import ADict, AList, ASet, ClassInfo, EnumInt, ExtObj, ExtRef, FuncRef, Msg, MsgClass, Obj, PyRaise, SingleDispatch, SStr, Unknown

SANCTIONED_EXT_WRITES = {
    "rdflib.util.SUFFIX_FORMAT_MAP": "idempotent registration of the '.jelly' suffix at import time (outside any stream)",
    "mimetypes.add_type": "idempotent MIME type registration (outside any stream)",
}
MUTATORS = {"append", "extend", "insert", "pop", "popitem", "clear", "update", "setdefault", "remove", "add", "discard", "sort", "reverse", "move_to_end", "appendleft", "popleft", "__setitem__", "__delitem__"}


def is_immutable(v: Any, depth: int = 0) -> bool:
    if v is None or isinstance(v, (bool, int, float, str, bytes, SStr, EnumInt, FuncRef, ClassInfo, ExtRef, MsgClass, SingleDispatch)):
        return True
    if isinstance(v, tuple):
        return all(is_immutable(x, depth + 1) for x in v)
    if isinstance(v, ASet):
        return v.frozen and all(is_immutable(x, depth + 1) for x in v.items)
    if isinstance(v, Obj):
        if v.cls.is_enum and "_name_" in v.attrs:
            return True  # enum members are immutable singletons
        frozen = any(isinstance(c, ClassInfo) and c.dataclass and c.dataclass["frozen"] for c in v.cls.mro)
        if frozen or v.tuple_items is not None:
            vals = list(v.attrs.values()) + list(v.tuple_items or ())
            return all(is_immutable(x, depth + 1) for x in vals)
        return not v.attrs and not any(isinstance(c, ExtRef) and c.name != "builtins.object" for c in v.cls.mro)
    if isinstance(v, ExtObj):
        return v.kind in ("dataclasses.Field", "NotImplemented", "Ellipsis", "enum.auto") or v.kind in R.TERM_KINDS
    return False


# ----------------------------------------------------------------------------- scenarios whose traces are inspected


def _scenarios() -> list[tuple[str, Any]]:
    out = []
    for integ in ("generic", "rdflib"):
        for physical in (1, 2, 3):
            arity = 3 if physical == 1 else 4

            def sc(it: Interp, integ=integ, physical=physical, arity=arity) -> Any:
                k = K.Kit(it)
                stmts = [tuple(C.base("a", arity)), tuple(C.base("a", arity)), tuple(C.base("b", arity))]
                stmts[2] = tuple(list(stmts[2][:2]) + [P.t_lit("l", "typed")] + list(stmts[2][3:]))
                frames_all = []
                for delimited in (True, False):
                    opts = P.make_options(k, logical=1 if physical == 1 else 2, delimited=delimited, namespaces=True, generalized=integ == "generic", rdf_star=integ == "generic")
                    writer = P.write_generic if integ == "generic" else P.write_rdflib
                    for via in (("sink", "generator", "grouped2") if integ == "generic" else ("store", "generator", "grouped2")):
                        frames, _ = writer(k, physical, stmts, opts, via=via, namespaces=[("ex", "http://example.org/")] if via != "generator" else None)
                        frames_all.append((delimited, frames))
                        if via == "generator" and integ == "rdflib":
                            out_ = k.output()
                            ser = k.new(K.RS, "RDFLibJellySerializer", P.rdflib_store_for(k, physical, stmts))
                            k.method(ser, "serialize", out_, options=opts)
                for delimited, frames in frames_all[:2] + frames_all[3:4]:
                    for rinteg in ("generic", "rdflib"):
                        for parser in ("parse_jelly_flat", "parse_jelly_grouped", "parse_jelly_to_graph"):
                            P.read_items(k, rinteg, parser, frames, delimited=delimited)
                return frames_all

            out.append((f"{integ} physical={physical}: write (sink/generator/grouped, both framings) then parse with all six parsers", sc))
    return out


def traces(chk: Check) -> None:
    ra, rd, rm = "C12.OWN.shared-objects", "C12.TAINT.nondeterminism", "C12.OWN.metadata-untouched"
    for name, sc in _scenarios():
        for it, outcome in explore(chk.program, sc, max_paths=16, generic_strings=True):
            chk.paths += 1
            chk.saw_functions(it)
            if outcome[0] != "ok":
                raise AnalysisError(f"C12 scenario '{name}' raises {outcome[1]}")
            shared = []
            nondet = []
            for e in it.events:
                if e.get("shared") and e["kind"] in ("mutate", "setattr", "msg_set"):
                    tgt = e.get("target", e.get("obj", e.get("msg")))
                    shared.append((e["kind"], repr(tgt)[:80], e.get("attr") or e.get("op") or e.get("field"), e["site"]))
                if e["kind"] == "ext_write" and e["target"] not in SANCTIONED_EXT_WRITES:
                    shared.append(("ext_write", e["target"], None, e["site"]))
                if e["kind"] == "nondet":
                    nondet.append((e["what"], e["site"]))
                if e["kind"] == "set_iteration":
                    nondet.append(("iteration over a set", e["site"]))
                if e["kind"] == "serialize" and e["deterministic"] is not True:
                    nondet.append(("SerializeToString without deterministic=True", e["site"]))
                if e["kind"] == "reorder":
                    nondet.append((e["what"], e["site"]))
            if shared:
                s0 = shared[0]
                chk.fail(ra, name, f"{s0[3][0]}.{s0[3][2]}:writes-shared-state", f"an object created at import time is modified while serialising/parsing: {s0[0]} {s0[2]} on {s0[1]} in {s0[3][2]} ({s0[3][0]})", {"all": [str(x) for x in shared[:10]]})
            else:
                chk.ok(ra, name, {"events": len(it.events)})
            nd = [n for n in nondet if n[0] not in ("sorted", "reversed", "list.sort")]
            if nd:
                chk.fail(rd, name, f"{nd[0][1][0]}.{nd[0][1][2]}:nondeterminism", f"non-deterministic source on the encode/parse path: {nd[0][0]} in {nd[0][1][2]} ({nd[0][1][0]})")
            else:
                chk.ok(rd, name, None)
            # writer never fills the metadata map
            touched = False
            for _d, frames in outcome[1]:
                for f in frames:
                    md = f.fields.get("metadata") if isinstance(f, Msg) else None
                    if isinstance(md, ADict) and md.pairs:
                        touched = True
            if touched:
                chk.fail(rm, name, "pyjelly.serialize.flows.FrameFlow.to_stream_frame:metadata", "the writer fills the frame metadata map (the only map field: its wire order is not canonical)")
            else:
                chk.ok(rm, name, None)


def pipejob_first_diff(a: Any, b: Any) -> str:
    from . import pipejob

    return pipejob.first_diff(a, b)


def interleaving(chk: Check) -> None:
    """Two independent workloads stepped alternately (generator steps / statement calls / a statement of one stream encoded
    while another stream is in the middle of a statement) must produce exactly what each produces alone."""
    from .. import refenc
    from ..freeze import freeze
    from ..values import GenObj

    rule = "C12.DIFF.interleaving"

    def streams_for(it: Interp, physical: int):
        k = K.Kit(it)
        w = K.Wire(it)
        out = []
        for tag in ("A", "B"):
            arity = 3 if physical == 1 else 4
            stmts = []
            for i in range(4):
                st = C.base(f"{tag}{i // 2}", arity)  # pairs of equal statements: repeated terms are used
                st[2] = P.t_lit(f"{tag}{i}", "typed" if i % 2 else "plain")
                if arity == 4:
                    st[3] = P.t_iri(f"{tag}.g{i // 3}")
                stmts.append(tuple(st))
            enc = refenc.RefEncoder(w, physical, 0, (8, 8, 8), refenc.Policy(framing="per-statement"))
            for st in stmts:
                enc.statement(st)
            out.append((stmts, enc.finish()))
        return k, out

    # (a) parsers
    for integ, mod in (("generic", K.GP), ("rdflib", K.RP)):
        for physical in (1, 2, 3):
            for parser in ("parse_jelly_flat", "parse_jelly_grouped"):

                def scenario(it: Interp) -> Any:
                    k, data = streams_for(it, physical)
                    neutral = P.neutral_of_generic if integ == "generic" else P.neutral_of_rdflib

                    def norm(item: Any) -> Any:
                        if parser.endswith("grouped"):
                            return freeze([x for x in P.sink_items(k, integ, item) if x[0] != "ns"])
                        return freeze(neutral(it, item))

                    solo = [[norm(x) for x in it.drain(k.call(k.get(mod, parser), k.input_stream(list(fr))))] for _s, fr in data]
                    gens = [it.get_iter(k.call(k.get(mod, parser), k.input_stream(list(fr)))) for _s, fr in data]
                    inter: list[list] = [[], []]
                    live = [True, True]
                    while any(live):
                        for i in (0, 1):
                            if live[i]:
                                ok, item = it.next_value(gens[i])
                                if ok:
                                    inter[i].append(norm(item))
                                else:
                                    live[i] = False
                    return solo, inter

                inst = f"{integ}.{parser} physical={physical}: two parsers stepped alternately"
                for it, out in explore(chk.program, scenario, max_paths=8, generic_strings=True):
                    chk.paths += 1
                    if out[0] != "ok":
                        chk.fail(rule, inst, f"pyjelly.integrations.{integ}.parse.{parser}:interleaved", f"parsers that work alone fail when interleaved: {it.exc_class_name(out[1].exc)} at {out[1].site}")
                    elif out[1][0] != out[1][1]:
                        chk.fail(rule, inst, f"pyjelly.integrations.{integ}.parse.{parser}:interleaved", "a parser's output changes when another parser is consumed alternately with it (state shared between parsers)")
                    else:
                        chk.ok(rule, inst, {"items": [len(x) for x in out[1][0]]})
    # (b), (c) serializers
    for integ in ("generic", "rdflib"):
        for physical in (1, 2):
            modes = ["alternating statements", "statement of B encoded while A iterates its terms"]
            if chk.tier == "thorough":
                import itertools as _it

                # every interleaving of the two streams' three statements each (20 schedules)
                modes += ["schedule:" + "".join("A" if i in pos else "B" for i in range(6)) for pos in _it.combinations(range(6), 3)]
            for mode in modes:

                def scenario(it: Interp) -> Any:
                    k = K.Kit(it)
                    arity = 3 if physical == 1 else 4
                    seqs = {}
                    for tag in ("A", "B"):
                        stmts = []
                        for i in range(3):
                            st = C.base(f"{tag}{i // 2}", arity)
                            st[2] = P.t_lit(f"{tag}{i}", "typed" if i % 2 else "plain")
                            if tag == "B":
                                # a workload of a different shape, so that anything leaking between the streams shows on the wire
                                st[0] = P.t_bnode(f"B{i}")
                                st[2] = P.t_iri(f"B{i}.o") if i % 2 == 0 else P.t_lit(f"B{i}", "lang")
                            if i == 2:
                                # the two streams carry literals that some libraries treat as equal (language tags differing in
                                # case only) but that are different on the wire: a cache shared between streams would mix them
                                st[2] = ("lit", "chat", "en-GB" if tag == "A" else "en-gb", None)
                            stmts.append(tuple(st))
                        seqs[tag] = stmts

                    def mk_stream() -> Any:
                        opts = P.make_options(k, logical=None, frame_size=3, generalized=integ == "generic", rdf_star=integ == "generic")
                        if integ == "generic":
                            return k.stream(P.STREAM_FOR[physical], k.generic_encoder(k.attr(opts, "lookup_preset")), opts)
                        return k.method(k.get(K.ST, P.STREAM_FOR[physical]), "for_rdflib", opts)

                    def build(st: tuple) -> tuple:
                        return tuple((P.build_generic(k, t) if integ == "generic" else P.build_rdflib(t)) for t in st)

                    meth = "triple" if physical == 1 else "quad"

                    def run_solo(tag: str) -> Any:
                        s_ = mk_stream()
                        k.method(s_, "enroll")
                        frames = []
                        for st in seqs[tag]:
                            fr = k.method(s_, meth, build(st))
                            if fr is not None:
                                frames.append(fr)
                        fr = k.method(k.attr(s_, "flow"), "to_stream_frame")
                        if fr is not None:
                            frames.append(fr)
                        return freeze(frames)

                    solo = {t: run_solo(t) for t in ("A", "B")}
                    sa, sb = mk_stream(), mk_stream()
                    k.method(sa, "enroll")
                    k.method(sb, "enroll")
                    fa: list = []
                    fb: list = []
                    if mode.startswith("schedule:"):
                        nxt = {"A": 0, "B": 0}
                        for who in mode.split(":")[1]:
                            s_, acc = (sa, fa) if who == "A" else (sb, fb)
                            fr = k.method(s_, meth, build(seqs[who][nxt[who]]))
                            nxt[who] += 1
                            if fr is not None:
                                acc.append(fr)
                    elif mode == "alternating statements":
                        for st_a, st_b in zip(seqs["A"], seqs["B"]):
                            for s_, st, acc in ((sa, st_a, fa), (sb, st_b, fb)):
                                fr = k.method(s_, meth, build(st))
                                if fr is not None:
                                    acc.append(fr)
                    else:
                        for st_a, st_b in zip(seqs["A"], seqs["B"]):
                            terms_a = build(st_a)

                            def host(ta=terms_a, stb=st_b):
                                yield ta[0]
                                # the other stream encodes a whole statement while this one is in the middle of its own
                                fr_b = k.method(sb, meth, build(stb))
                                if fr_b is not None:
                                    fb.append(fr_b)
                                for t_ in ta[1:]:
                                    yield t_

                            fr = k.method(sa, meth, GenObj(host(), "lazy terms"))
                            if fr is not None:
                                fa.append(fr)
                    for s_, acc in ((sa, fa), (sb, fb)):
                        fr = k.method(k.attr(s_, "flow"), "to_stream_frame")
                        if fr is not None:
                            acc.append(fr)
                    # content oracle, independent of the solo runs (which share the process history with the interleaved ones):
                    # what each interleaved stream wrote decodes, by the specification alone, to that stream's own input
                    from .. import refdec

                    content = {}
                    for tag, acc in (("A", fa), ("B", fb)):
                        ref = refdec.decode(it.schema, acc)
                        content[tag] = (ref.errors[:1], pipejob_first_diff(freeze(P.unsplit(it, list(ref.items))), freeze(P.expected_items(seqs[tag], physical))))
                    return solo, {"A": freeze(fa), "B": freeze(fb)}, content

                inst = f"{integ} {'TripleStream' if physical == 1 else 'QuadStream'}: {mode}"
                for it, out in explore(chk.program, scenario, max_paths=8, generic_strings=True):
                    chk.paths += 1
                    if out[0] != "ok":
                        chk.fail(rule, inst, f"pyjelly.serialize:{integ}:interleaved", f"streams that work alone fail when interleaved: {it.exc_class_name(out[1].exc)} at {out[1].site}")
                    elif any(out[1][2][t][0] or out[1][2][t][1] for t in ("A", "B")):
                        t = next(t for t in ("A", "B") if out[1][2][t][0] or out[1][2][t][1])
                        chk.fail(rule, inst, f"pyjelly.serialize:{integ}:interleaved-content", f"with two streams alive in one process, stream {t} does not decode to its own input: {out[1][2][t][0] or out[1][2][t][1]}")
                    elif out[1][0] != out[1][1]:
                        which = [t for t in ("A", "B") if out[1][0][t] != out[1][1][t]]
                        chk.fail(rule, inst, f"pyjelly.serialize.encode:{'statement-scratch-state' if mode.startswith('statement of B') else 'stream-state'}:interleaved", f"the frames of stream {which} differ from what the same stream writes alone when another stream is driven {mode} (state shared between streams)")
                    else:
                        chk.ok(rule, inst, None)


def fresh_state(chk: Check) -> None:
    rule = "C12.OWN.fresh-instance-state"

    def mutable_reach(root: Any, skip_ids: set) -> dict[int, str]:
        out: dict[int, str] = {}
        stack = [(root, "self")]
        seen = set()
        while stack:
            v, path = stack.pop()
            if id(v) in seen or id(v) in skip_ids:
                continue
            seen.add(id(v))
            if isinstance(v, Obj):
                if not is_immutable(v):
                    out[id(v)] = path
                for k_, x in v.attrs.items():
                    stack.append((x, f"{path}.{k_}"))
            elif isinstance(v, (AList, ASet)):
                out[id(v)] = path
                for i, x in enumerate(v.items):
                    stack.append((x, f"{path}[{i}]"))
            elif isinstance(v, ADict):
                out[id(v)] = path
                for k_, x in v.pairs:
                    stack.append((x, f"{path}[{k_!r}]"))
            elif isinstance(v, Msg):
                out[id(v)] = path
            elif isinstance(v, tuple):
                for i, x in enumerate(v):
                    stack.append((x, f"{path}[{i}]"))
            elif isinstance(v, ExtObj) and v.kind not in R.TERM_KINDS and v.kind != "dataclasses.Field":
                out[id(v)] = path
        return out

    def makers(k: K.Kit) -> list[tuple[str, Any]]:
        def popts() -> Any:
            return k.new(K.DE, "ParserOptions", k.new(K.OP, "StreamTypes", 1, 1), k.preset(), k.params())

        m: list[tuple[str, Any]] = [
            ("pyjelly.serialize.streams.SerializerOptions", lambda: k.options()),
            ("pyjelly.serialize.lookup.Lookup", lambda: k.new(K.LK, "Lookup", 8)),
            ("pyjelly.serialize.lookup.LookupEncoder", lambda: k.new(K.LK, "LookupEncoder", lookup_size=8)),
            ("pyjelly.parse.lookup.LookupDecoder", lambda: k.new(K.PL, "LookupDecoder", lookup_size=8)),
            ("pyjelly.serialize.encode.TermEncoder", lambda: k.new(K.EN, "TermEncoder")),
            ("pyjelly.integrations.generic.serialize.GenericSinkTermEncoder", lambda: k.new(K.GS, "GenericSinkTermEncoder")),
            ("pyjelly.integrations.rdflib.serialize.RDFLibTermEncoder", lambda: k.new(K.RS, "RDFLibTermEncoder")),
            ("pyjelly.integrations.generic.generic_sink.GenericStatementSink", lambda: k.new(K.GK, "GenericStatementSink")),
        ]
        for fc in ("ManualFrameFlow", "BoundedFrameFlow", "FlatTriplesFrameFlow", "FlatQuadsFrameFlow", "GraphsFrameFlow", "DatasetsFrameFlow"):
            m.append((f"pyjelly.serialize.flows.{fc}", lambda fc=fc: k.flow(fc)))
        for sc in ("TripleStream", "QuadStream", "GraphStream"):
            m.append((f"pyjelly.serialize.streams.{sc}", lambda sc=sc: k.stream(sc, k.new(K.EN, "TermEncoder"))))
            m.append((f"pyjelly.serialize.streams.{sc}.for_rdflib", lambda sc=sc: k.method(k.get(K.ST, sc), "for_rdflib")))
        for mod, names in ((K.GP, ("GenericTriplesAdapter", "GenericQuadsAdapter", "GenericGraphsAdapter")), (K.RP, ("RDFLibTriplesAdapter", "RDFLibQuadsAdapter", "RDFLibGraphsAdapter"))):
            for n in names:
                m.append((f"{mod}.{n}", lambda mod=mod, n=n: k.new(mod, n, popts())))
                m.append((f"pyjelly.parse.decode.Decoder[{n}]", lambda mod=mod, n=n: k.new(K.DE, "Decoder", adapter=k.new(mod, n, popts()))))
        return m

    it = Interp(chk.program, generic_strings=True)
    k = K.Kit(it)
    for name, make in makers(k):
        a, b = make(), make()
        ra_, rb_ = mutable_reach(a, set()), mutable_reach(b, set())
        common = set(ra_) & set(rb_)
        if common:
            path = ra_[next(iter(common))]
            chk.fail(rule, name, f"{name}.__init__:shared-field:{path.split('.')[1] if '.' in path else path}", f"two instances of {name} share the mutable object at {path}: state of one stream/parser leaks into another")
        else:
            chk.ok(rule, name, {"mutable_objects_per_instance": len(ra_)})
    # two streams / decoders built from ONE caller-owned options object: whatever pyjelly creates for one of
    # them must not be reachable from the other (the options object itself is the caller's and is excluded)
    for sc in ("TripleStream", "QuadStream", "GraphStream"):
        for label, mk_opts in (("default options", lambda: k.options()), ("non-delimited", lambda: k.options(params=k.params(delimited=False))), ("grouped", lambda sc=sc: k.options(logical_type=3 if sc == "TripleStream" else 4))):
            for factory in ("ctor", "for_rdflib"):
                opts = mk_opts()
                pre = set(mutable_reach(opts, set()))
                if factory == "ctor":
                    a = k.stream(sc, k.new(K.EN, "TermEncoder"), opts)
                    b = k.stream(sc, k.new(K.EN, "TermEncoder"), opts)
                else:
                    a = k.method(k.get(K.ST, sc), "for_rdflib", opts)
                    b = k.method(k.get(K.ST, sc), "for_rdflib", opts)
                ra_, rb_ = mutable_reach(a, pre), mutable_reach(b, pre)
                common = set(ra_) & set(rb_)
                name = f"pyjelly.serialize.streams.{sc} x2 from one SerializerOptions ({label}, {factory})"
                if common:
                    path = ra_[next(iter(common))]
                    chk.fail(rule, name, f"pyjelly.serialize.streams.Stream.__init__:shared-via-options:{path.split('.')[1] if '.' in path else path}", f"two streams built from the same options object share the mutable object at {path} (rows/state of one stream leak into the other)")
                else:
                    chk.ok(rule, name, None)
    if it.decisions:
        raise AnalysisError("C12.fresh-instance-state: unexpected undecided branch while constructing objects")


def defaults(chk: Check) -> None:
    rule = "C12.TABLE.defaults"
    it = Interp(chk.program)
    seen: set[int] = set()

    def visit_fn(f: FuncRef, where: str) -> None:
        if id(f) in seen:
            return
        seen.add(id(f))
        for pname, val in f.defaults.items():
            inst = f"{where}({pname}=...)"
            if is_immutable(val):
                chk.ok(rule, inst, None, nontrivial=val is not None)
            else:
                chk.fail(rule, inst, f"{f.info.module}.{f.info.qualname}:default:{pname}", f"parameter default {pname}={val!r} is a mutable object shared by every call")

    for mod in sorted(chk.program.modules):
        if mod in ("pyjelly.jelly", "pyjelly.jelly.rdf_pb2"):
            continue
        ns = it.module_ns(mod)
        for name, v in ns.items():
            if isinstance(v, FuncRef) and v.info.module == mod:
                visit_fn(v, f"{mod}.{name}")
            elif isinstance(v, SingleDispatch):
                visit_fn(v.default, f"{mod}.{name}")
                for _c, fn in v.registry:
                    visit_fn(fn, f"{mod}.{fn.info.qualname}")
            elif isinstance(v, ClassInfo) and v.module == mod:
                for an, av in v.attrs.items():
                    if isinstance(av, FuncRef):
                        visit_fn(av, f"{mod}.{v.name}.{an}")
                if v.dataclass is not None:
                    for fname, default in it.dataclass_fields(v):
                        inst = f"{mod}.{v.name}.{fname} (dataclass field)"
                        if default.__class__.__name__ == "_Missing":
                            chk.ok(rule, inst, None, nontrivial=False)
                        elif isinstance(default, ExtObj) and default.kind == "dataclasses.Field":
                            d = default.attrs.get("default", None)
                            if "default" in default.attrs and not is_immutable(d):
                                chk.fail(rule, inst, f"{mod}.{v.name}:field-default:{fname}", f"dataclass field default {d!r} is mutable and shared by all instances")
                            else:
                                chk.ok(rule, inst, {"default_factory": repr(default.attrs.get("default_factory"))})
                        elif is_immutable(default):
                            chk.ok(rule, inst, None)
                        else:
                            chk.fail(rule, inst, f"{mod}.{v.name}:field-default:{fname}", f"dataclass field default {default!r} is a mutable object shared by all instances")


def subclass_hooks(chk: Check) -> None:
    """A user subclass of each library class is defined in the abstract program; the library's import-time containers
    (module-level and class-level dicts/lists/sets) must keep every entry they had."""
    rule = "C12.OWN.subclass-does-not-rewire"
    prog = chk.program
    mods = [m for m in sorted(prog.modules) if m not in ("pyjelly.jelly", "pyjelly.jelly.rdf_pb2")]
    probe = Interp(prog)
    targets = []
    for mod in mods:
        for name, v in probe.module_ns(mod).items():
            if isinstance(v, ClassInfo) and v.module == mod and not v.is_enum and not v.is_namedtuple and not (v.dataclass and v.dataclass.get("frozen")):
                targets.append((mod, name))

    def snapshot(it: Interp) -> dict:
        snap = {}
        for mod in mods:
            for name, v in it.module_ns(mod).items():
                holders = [(f"{mod}.{name}", v)] if isinstance(v, (ADict, AList, ASet)) else []
                if isinstance(v, ClassInfo) and v.module == mod:
                    holders += [(f"{mod}.{name}.{an}", av) for an, av in v.attrs.items() if isinstance(av, (ADict, AList, ASet))]
                for label, c in holders:
                    if isinstance(c, ADict):
                        snap[label] = (c, [(k, id(x)) for k, x in c.pairs])
                    else:
                        snap[label] = (c, [(i, id(x)) for i, x in enumerate(c.items)])
        return snap

    for mod, name in targets:
        it = Interp(prog)
        for m in mods:
            it.module_ns(m)
        base = it.module_ns(mod)[name]
        before = snapshot(it)
        node = ast.parse(f"class _JstatUserSubclass(_Base):\n    pass\n").body[0]
        from ..interp import Env

        env = Env({"_Base": base}, None, "jstat_user_module")
        inst = f"class UserSubclass({mod}.{name})"
        try:
            it.make_class(node, env)
        except PyRaise as pr:
            chk.ok(rule, inst, {"refused": it.exc_class_name(pr.exc)}, nontrivial=False)
            continue
        after = snapshot(it)
        changed = None
        for label, (obj, entries) in before.items():
            now = dict((repr(k), v) for k, v in after[label][1]) if label in after else {}
            for k, v in entries:
                if now.get(repr(k)) != v:
                    changed = (label, k)
                    break
            if changed:
                break
        if changed:
            chk.fail(rule, inst, f"{mod}.{name}.__init_subclass__:rewires:{changed[0]}", f"defining a subclass of {name} in user code replaces/removes the entry {changed[1]!r} of {changed[0]}: every stream created afterwards in this process is dispatched differently (state leaks across streams through an import-time table)")
        else:
            chk.ok(rule, inst, None, nontrivial=False)


def syntactic_sweep(chk: Check) -> None:
    """Functions no scenario entered are swept syntactically for writes to import-time state."""
    rule = "C12.OWN.shared-objects.sweep"
    it = Interp(chk.program)
    for mod in sorted(chk.program.modules):
        if mod in ("pyjelly.jelly", "pyjelly.jelly.rdf_pb2"):
            continue
        ns = it.module_ns(mod)
        mutable_globals = {n for n, v in ns.items() if isinstance(v, (AList, ADict, ASet)) and not (isinstance(v, ASet) and v.frozen)}
        class_mutables: set[str] = set()
        for v in ns.values():
            if isinstance(v, ClassInfo):
                for an, av in v.attrs.items():
                    if isinstance(av, (AList, ADict, ASet)) and not (isinstance(av, ASet) and av.frozen):
                        class_mutables.add(an)
        tree = chk.program.modules[mod]
        for fn in ast.walk(tree):
            if not isinstance(fn, (ast.FunctionDef, ast.AsyncFunctionDef)):
                continue
            if fn.name in ("__init_subclass__", "__set_name__", "__class_getitem__"):
                continue  # class-definition-time hooks: judged semantically by C12.OWN.subclass-does-not-rewire
            local_names = {a.arg for a in fn.args.args + fn.args.kwonlyargs + fn.args.posonlyargs}
            for n in ast.walk(fn):
                if isinstance(n, ast.Assign):
                    for t in n.targets:
                        for x in ast.walk(t):
                            if isinstance(x, ast.Name) and isinstance(x.ctx, ast.Store):
                                local_names.add(x.id)
            inst = f"{mod}.{fn.name}"
            found = None
            for n in ast.walk(fn):
                if isinstance(n, ast.Global):
                    found = f"'global {', '.join(n.names)}'"
                    break
                target = None
                if isinstance(n, (ast.Assign, ast.AugAssign, ast.Delete)):
                    tg = n.targets if isinstance(n, (ast.Assign, ast.Delete)) else [n.target]
                    for t in tg:
                        if isinstance(t, (ast.Subscript, ast.Attribute)):
                            target = t.value if isinstance(t, ast.Subscript) else t
                            what = "item/attribute assignment"
                            root = target
                            if isinstance(t, ast.Attribute):
                                # attribute assignment on a module-level mutable or class attr holder is checked below
                                root = t.value
                                if not (isinstance(root, ast.Name) and root.id in ns and isinstance(ns[root.id], (ClassInfo,)) and root.id not in local_names):
                                    continue
                                found = f"assignment to class attribute {root.id}.{t.attr}"
                                break
                            if self_hits(target, mutable_globals, class_mutables, local_names):
                                found = f"{what} on {ast.unparse(target)}"
                                break
                    if found:
                        break
                if isinstance(n, ast.Call) and isinstance(n.func, ast.Attribute) and n.func.attr in MUTATORS:
                    if self_hits(n.func.value, mutable_globals, class_mutables, local_names):
                        found = f"{ast.unparse(n.func)}(...)"
                        break
            if found:
                chk.fail(rule, inst, f"{mod}.{fn.name}:writes-import-time-state", f"{found} modifies an object created at import time (shared by every stream and thread)")
            else:
                chk.ok(rule, inst, None, nontrivial=bool(mutable_globals or class_mutables))


def self_hits(expr: ast.AST, mutable_globals: set, class_mutables: set, local_names: set) -> bool:
    if isinstance(expr, ast.Name):
        return expr.id in mutable_globals and expr.id not in local_names
    if isinstance(expr, ast.Attribute):
        # X.registry / self.registry / cls.registry where 'registry' is a class-level mutable
        return expr.attr in class_mutables
    return False


def header_history(chk: Check) -> None:
    """C12.DIFF.header-history-independent: the options row of a stream does not depend on streams created earlier in
    the process.  For every field of the header in turn, stream A is created and enrolled, then stream B whose options
    differ from A's in exactly that field; B's first frame must be what B writes in a fresh process.  (A memo keyed by an
    equality that ignores a field, a shared default object, a class-level 'last options' are all found this way.)"""
    from ..freeze import freeze

    rule = "C12.DIFF.header-history-independent"
    STREAMS = {1: "TripleStream", 2: "QuadStream", 3: "GraphStream"}
    base = dict(phys=1, lt=1, gen=False, star=False, nd=False, name="A", sizes=(16, 8, 8), delim=True)
    variants = {
        "stream_name": dict(name="B"), "stream_name (default)": dict(name=None), "generalized_statements": dict(gen=True), "rdf_star": dict(star=True),
        "namespace_declarations/version": dict(nd=True), "max_name_table_size": dict(sizes=(17, 8, 8)), "max_prefix_table_size": dict(sizes=(16, 9, 8)),
        "max_datatype_table_size": dict(sizes=(16, 8, 9)), "logical_type": dict(lt=3), "physical_type": dict(phys=2, lt=2), "delimited": dict(delim=False),
    }

    def build(k: K.Kit, cfg: dict, integ: str) -> Any:
        from ..values import Atom, sstr

        pkw = dict(generalized_statements=cfg["gen"], rdf_star=cfg["star"], namespace_declarations=cfg["nd"], delimited=cfg["delim"])
        if cfg["name"] is not None:
            pkw["stream_name"] = sstr(Atom("stream-name-" + cfg["name"], nonempty=None))
        preset = k.preset(*cfg["sizes"])
        opts = k.options(params=k.params(**pkw), lookup_preset=preset, logical_type=cfg["lt"])
        if integ == "rdflib":
            stream = k.method(k.get(K.ST, STREAMS[cfg["phys"]]), "for_rdflib", opts)
        else:
            stream = k.stream(STREAMS[cfg["phys"]], k.generic_encoder(preset), opts)
        k.method(stream, "enroll")
        return k.method(k.attr(stream, "flow"), "to_stream_frame")

    for integ in ("generic", "rdflib"):
        for field, delta in variants.items():
            for order in ("A then B", "B then A"):
                first, second = (base, {**base, **delta}) if order == "A then B" else ({**base, **delta}, base)

                def solo(it: Interp, second: dict = second) -> Any:
                    return freeze(build(K.Kit(it), second, integ))

                def with_history(it: Interp, first: dict = first, second: dict = second) -> Any:
                    k = K.Kit(it)
                    build(k, first, integ)
                    return freeze(build(k, second, integ))

                inst = f"{integ}: header of a stream created after one that differs only in {field} ({order})"
                outs = []
                for sc in (solo, with_history):
                    res = list(explore(chk.program, sc, max_paths=4, generic_strings=True))
                    chk.paths += len(res)
                    chk.saw_functions(res[0][0])
                    outs.append([(o[0], o[1] if o[0] == "ok" else res[0][0].exc_class_name(o[1].exc)) for _it, o in res])
                if outs[0] == outs[1] and all(o[0] == "ok" for o in outs[0]):
                    chk.ok(rule, inst, {"paths": len(outs[0])})
                elif any(o[0] != "ok" for o in outs[0]):
                    raise AnalysisError(f"C12 header-history: scenario raises on its own: {outs[0]}")
                else:
                    from .pipejob import first_diff

                    chk.fail(rule, inst, "pyjelly.serialize.encode.encode_options:history", f"the first frame of the second stream differs from what the same stream writes in a fresh process: {first_diff(outs[1], outs[0])}")


def check(chk: Check) -> None:
    chk.rule("C12.DIFF.header-history-independent", "the options row a stream writes is what it writes in a fresh process, whatever stream (differing in exactly one header field) was created and enrolled before it", floor=40)
    chk.part("header-history", lambda: header_history(chk))
    chk.rule("C12.OWN.shared-objects", "on the traces of serialising and parsing (both integrations, all entry points) no object created at import time is modified", floor=6)
    chk.rule("C12.OWN.shared-objects.sweep", "no function of the package assigns to / mutates a module-level or class-level mutable binding", floor=150)
    chk.rule("C12.OWN.fresh-instance-state", "two instances of every stateful class share no mutable object", floor=30)
    chk.rule("C12.TABLE.defaults", "every parameter default and dataclass field default is immutable or a default_factory", floor=60)
    chk.rule("C12.TAINT.nondeterminism", "no hash/id/random/time/set iteration/non-deterministic SerializeToString on the encode and parse traces", floor=6)
    chk.rule("C12.OWN.metadata-untouched", "the writer never fills the frame metadata map", floor=6)
    chk.trusted += ["protobuf serialisation is a deterministic function of the message when deterministic=True / no map fields are set", "rdflib store iteration order for a given store is not analysed"]
    chk.undecided += ["rdflib's iteration order, protobuf internals, true parallelism inside C extensions"]
    chk.rule("C12.DIFF.interleaving", "parsers stepped alternately, and serializers driven alternately (statement by statement, and one statement encoded in the middle of another stream's statement), produce what each produces alone", floor=20)
    chk.part("traces", lambda: traces(chk))
    chk.part("interleaving", lambda: interleaving(chk))
    chk.part("fresh-state", lambda: fresh_state(chk))
    chk.part("defaults", lambda: defaults(chk))
    chk.part("sweep", lambda: syntactic_sweep(chk))
    chk.rule("C12.OWN.subclass-does-not-rewire", "defining a user subclass of any library class leaves every import-time table entry of the library as it was (a class-definition hook may add entries, never replace or remove one)", floor=20)
    chk.part("subclass-hooks", lambda: subclass_hooks(chk))
