"""C13 — stream header fidelity and stream-type validation (finite; decided completely)."""
from __future__ import annotations

from typing import Any

from .. import kit as K
from .. import spec
from ..errors import AnalysisError
from ..freeze import freeze
from ..interp import Interp, explore
from ..report import Check
from ..values import Atom, Msg, Obj, PyRaise, sstr

ACCEPTED_REJECTIONS = {"JellyConformanceError", "JellyAssertionError", "AssertionError", "NotImplementedError", "JellyNotImplementedError", "ValueError"}


def _one_path(chk: Check, scenario, what: str, **kw) -> tuple[Interp, tuple]:
    res = list(explore(chk.program, scenario, max_paths=8, generic_strings=True, **kw))
    chk.paths += len(res)
    if len(res) != 1:
        raise AnalysisError(f"C13: {what}: expected a single path over constants, got {len(res)} (undecided: {res[0][0].tags})")
    chk.saw_functions(res[0][0])
    return res[0]


STREAM_FOR = {1: "TripleStream", 2: "QuadStream", 3: "GraphStream"}


def header_bijection(chk: Check) -> None:
    rule = "C13.TABLE.header-bijection"
    construct_w = "pyjelly.serialize.encode.encode_options"
    prog = chk.program
    lts = sorted(prog.schema.enums["LogicalStreamType"].values.values())
    fields = set(prog.schema.messages["RdfStreamOptions"].fields)
    n = 0
    for phys in (1, 2, 3):
        for lt in lts:
            if not spec.compatible(phys, lt):
                continue
            for combo in range(8):
                gen, star, nd = bool(combo & 1), bool(combo & 2), bool(combo & 4)
                for delim, flowmode in ((True, "explicit"), (False, "explicit"), (True, "inferred"), (False, "inferred")):
                    if flowmode == "inferred" and combo not in (0, 5):
                        continue
                    sizes = (11 + combo, 12 + phys, 13 + (lt % 7))
                    name = sstr(Atom("stream-name", nonempty=None))

                    def scenario(it: Interp) -> Any:
                        k = K.Kit(it)
                        params = k.params(generalized_statements=gen, rdf_star=star, namespace_declarations=nd, delimited=delim, stream_name=name)
                        preset = k.preset(*sizes)
                        if flowmode == "explicit":
                            opts = k.options(params=params, lookup_preset=preset, flow=k.flow("ManualFrameFlow", logical_type=lt))
                        else:
                            # the flow is inferred by Stream from options.logical_type / params.delimited
                            opts = k.options(params=params, lookup_preset=preset, logical_type=lt)
                        stream = k.stream(STREAM_FOR[phys], k.generic_encoder(preset), opts)
                        k.method(stream, "enroll")
                        frame = k.method(k.attr(stream, "flow"), "to_stream_frame")
                        row = K.Kit.rows_of(frame)[0]
                        inp = k.input_stream([frame], delimited=delim)
                        popts, _frames = it.unpack_values(k.call(k.get(K.IO, "get_options_and_frames"), inp))
                        return row, popts

                    inst = f"phys={phys} lt={lt} gen={gen} star={star} nd={nd} delimited={delim} flow={flowmode}"
                    it, out = _one_path(chk, scenario, inst)
                    n += 1
                    if out[0] != "ok":
                        chk.fail(rule, inst, construct_w, f"header round trip raises {it.exc_class_name(out[1].exc)} at {out[1].site}")
                        continue
                    row, popts = out[1]
                    o = row.fields.get("options")
                    # an UNSPECIFIED logical type of a delimited stream is inferred as the flat type of the stream class
                    lt_w = lt if not (flowmode == "inferred" and lt == 0 and delim) else (1 if phys == 1 else 2)
                    want_w = {
                        "stream_name": name, "physical_type": phys, "logical_type": lt_w, "generalized_statements": gen, "rdf_star": star,
                        "max_name_table_size": sizes[0], "max_prefix_table_size": sizes[1], "max_datatype_table_size": sizes[2],
                        "version": spec.VERSION_NAMESPACES if nd else spec.VERSION_PLAIN,
                    }
                    if set(want_w) != fields:
                        raise AnalysisError(f"C13: RdfStreamOptions fields changed in the descriptor: {sorted(fields)}")
                    bad = {f: (o.fields.get(f, prog.schema.messages['RdfStreamOptions'].fields[f].default()) if isinstance(o, Msg) else None) for f in want_w}
                    bad = {f: v for f, v in bad.items() if v != want_w[f] and not (v is want_w[f])}
                    if bad:
                        chk.fail(rule, inst, construct_w, f"options row written with {bad}, expected {({f: want_w[f] for f in bad})}", {"row": repr(row)})
                        continue
                    k2 = K.Kit(it)
                    got_r = {
                        "physical_type": k2.attr(popts, "stream_types.physical_type"), "logical_type": k2.attr(popts, "stream_types.logical_type"),
                        "max_names": k2.attr(popts, "lookup_preset.max_names"), "max_prefixes": k2.attr(popts, "lookup_preset.max_prefixes"), "max_datatypes": k2.attr(popts, "lookup_preset.max_datatypes"),
                        "stream_name": k2.attr(popts, "params.stream_name"), "generalized_statements": k2.attr(popts, "params.generalized_statements"), "rdf_star": k2.attr(popts, "params.rdf_star"),
                        "version": k2.attr(popts, "params.version"), "namespace_declarations": k2.attr(popts, "params.namespace_declarations"), "delimited": k2.attr(popts, "params.delimited"),
                    }
                    want_r = {
                        "physical_type": phys, "logical_type": lt_w, "max_names": sizes[0], "max_prefixes": sizes[1], "max_datatypes": sizes[2], "stream_name": name,
                        "generalized_statements": gen, "rdf_star": star, "version": want_w["version"], "namespace_declarations": nd, "delimited": delim,
                    }
                    diff = {f: got_r[f] for f in want_r if got_r[f] != want_r[f]}
                    if diff:
                        chk.fail(rule, inst, "pyjelly.parse.decode.options_from_frame", f"reader is told {diff}, stream was written with {({f: want_r[f] for f in diff})}")
                    else:
                        chk.ok(rule, inst, {"written": {k_: repr(v) for k_, v in want_w.items()}, "read": {k_: repr(v) for k_, v in got_r.items()}})


def version_table(chk: Check) -> None:
    rule = "C13.TABLE.version"
    for nd in (True, False):
        for v in (0, 1, 2, 3, None):

            def scenario(it: Interp) -> Any:
                k = K.Kit(it)
                kw = {"namespace_declarations": nd}
                if v is not None:
                    kw["version"] = v
                return k.attr(k.params(**kw), "version")

            inst = f"StreamParameters(namespace_declarations={nd}, version={v})"
            it, out = _one_path(chk, scenario, inst)
            want = 2 if nd else 1
            if out[0] == "ok" and out[1] == want:
                chk.ok(rule, inst, {"declared_version": out[1]})
            else:
                chk.fail(rule, inst, "pyjelly.options.StreamParameters.__post_init__", f"declared version is {out[1] if out[0]=='ok' else 'exception'}; must be {want}")
    # reader side: version of the options row -> namespace flag; too-new versions rejected when parsing
    for v in (0, 1, 2, 3, 4):
        for integ, mod in (("generic", K.GP), ("rdflib", K.RP)):

            def scenario(it: Interp) -> Any:
                k = K.Kit(it)
                w = K.Wire(it)
                frame = w.frame([w.options_row(1, 1, version=v)] + w.statement_rows(1))
                inp = k.input_stream([frame])
                popts, frames = it.unpack_values(k.call(k.get(K.IO, "get_options_and_frames"), inp))
                nd = k.attr(popts, "params.namespace_declarations")
                items = it.drain(k.call(k.get(mod, "parse_jelly_flat"), inp, frames, popts))
                return nd, len(items)

            inst = f"read options row version={v} ({integ})"
            it, out = _one_path(chk, scenario, inst)
            if v > spec.SUPPORTED_MAX_VERSION:
                if out[0] == "raise":
                    chk.ok(rule, inst, {"rejected_with": it.exc_class_name(out[1].exc)})
                else:
                    chk.fail(rule, inst, "pyjelly.parse.decode.Decoder.validate_stream_options", f"stream declaring protocol version {v} (> {spec.SUPPORTED_MAX_VERSION}) is accepted")
            else:
                if out[0] == "raise":
                    chk.fail(rule, inst, "pyjelly.parse.decode.options_from_frame", f"valid version {v} rejected with {it.exc_class_name(out[1].exc)}")
                elif bool(out[1][0]) != (v >= 2):
                    chk.fail(rule, inst, "pyjelly.parse.decode.options_from_frame", f"version {v}: reader derives namespace_declarations={out[1][0]}")
                else:
                    chk.ok(rule, inst, {"namespace_declarations": out[1][0], "items": out[1][1]})


def compat_table(chk: Check) -> None:
    rule = "C13.TABLE.compat"
    prog = chk.program
    lts = sorted(prog.schema.enums["LogicalStreamType"].values.values())
    phs = sorted(prog.schema.enums["PhysicalStreamType"].values.values())
    if set(lts) != set(spec.LOGICAL.values()) or set(phs) != set(spec.PHYSICAL.values()):
        raise AnalysisError("C13: enum values in the descriptor differ from jstat.spec")
    for ph in phs:
        for lt in lts:
            want = spec.compatible(ph, lt)
            # (a) the validator itself, through StreamTypes
            def s1(it: Interp) -> Any:
                return K.Kit(it).new(K.OP, "StreamTypes", physical_type=ph, logical_type=lt)

            # (b) writer side: Stream.__init__ with a flow of that logical type
            def s2(it: Interp) -> Any:
                k = K.Kit(it)
                opts = k.options(flow=k.flow("ManualFrameFlow", logical_type=lt) if lt else k.flow("ManualFrameFlow"), lookup_preset=k.preset())
                return k.stream(STREAM_FOR[ph], k.generic_encoder(k.preset()), opts)

            # (c) reader side: options row with that pair
            def s3(it: Interp) -> Any:
                k = K.Kit(it)
                w = K.Wire(it)
                frame = w.frame([w.options_row(ph, lt)] + w.statement_rows(ph or 1))
                return k.call(k.get(K.IO, "get_options_and_frames"), k.input_stream([frame]))

            for label, sc, construct in (("StreamTypes", s1, "pyjelly.options.validate_type_compatibility"), ("Stream.__init__", s2, "pyjelly.serialize.streams.Stream.__init__"), ("get_options_and_frames", s3, "pyjelly.parse.decode.options_from_frame")):
                if label == "Stream.__init__" and ph == 0:
                    continue
                inst = f"{label} physical={ph} logical={lt}"
                it, out = _one_path(chk, sc, inst)
                accepted = out[0] == "ok"
                if accepted == want:
                    chk.ok(rule, inst, {"accepted": accepted, "exc": None if accepted else it.exc_class_name(out[1].exc)})
                else:
                    chk.fail(rule, inst, construct, f"pair physical={ph} logical={lt} is {'accepted' if accepted else 'rejected (' + it.exc_class_name(out[1].exc) + ')'}; the specification says {'compatible' if want else 'incompatible'}")


def size_limits(chk: Check) -> None:
    rule = "C13.TABLE.sizes"
    # minimum name table on both sides
    for n in (0, 1, 7, 8, 9):
        def w(it: Interp) -> Any:
            return K.Kit(it).preset(n, 8, 8)

        def r(it: Interp) -> Any:
            k = K.Kit(it)
            wire = K.Wire(it)
            frame = wire.frame([wire.options_row(1, 1, names=n)] + wire.statement_rows(1))
            return it.drain(k.call(k.get(K.GP, "parse_jelly_flat"), k.input_stream([frame])))

        for label, sc, construct in (("writer LookupPreset", w, "pyjelly.options.LookupPreset.__post_init__"), ("reader options row", r, "pyjelly.parse.decode.options_from_frame")):
            inst = f"{label} max_names={n}"
            it, out = _one_path(chk, sc, inst)
            accepted = out[0] == "ok"
            want = n >= spec.MIN_NAME_TABLE
            if accepted == want:
                chk.ok(rule, inst, {"accepted": accepted})
            else:
                chk.fail(rule, inst, construct, f"name table size {n} is {'accepted' if accepted else 'rejected'}; minimum is {spec.MIN_NAME_TABLE}")
    # maximum on read, each table
    for table in ("names", "prefixes", "datatypes"):
        for n in (8, 4096, 4097, 100_000):
            kw = {"names": 8, "prefixes": 8, "datatypes": 8}
            kw[table] = n

            def r2(it: Interp) -> Any:
                k = K.Kit(it)
                wire = K.Wire(it)
                frame = wire.frame([wire.options_row(1, 1, **kw)] + wire.statement_rows(1))
                return len(it.drain(k.call(k.get(K.GP, "parse_jelly_flat"), k.input_stream([frame]))))

            inst = f"reader table {table}={n}"
            it, out = _one_path(chk, r2, inst)
            accepted = out[0] == "ok"
            want = n <= spec.MAX_TABLE_ON_READ
            if accepted == want:
                chk.ok(rule, inst, {"accepted": accepted})
            else:
                chk.fail(rule, inst, "pyjelly.parse.lookup.LookupDecoder.__init__", f"{table} table size {n} on read is {'accepted' if accepted else 'rejected'}; cap is {spec.MAX_TABLE_ON_READ}")


def strict_gates(chk: Check) -> None:
    rule = "C13.TABLE.strict"
    rule2 = "C13.TABLE.non-interference"
    prog = chk.program
    lts = sorted(prog.schema.enums["LogicalStreamType"].values.values())
    for integ, mod in (("generic", K.GP), ("rdflib", K.RP)):
        for parser in ("parse_jelly_flat", "parse_jelly_grouped"):
            for ph in (1, 2, 3):
                baseline: dict[bool, Any] = {}
                for lt in lts:
                    if not spec.compatible(ph, lt):
                        continue
                    for strict in (True, False):

                        def scenario(it: Interp) -> Any:
                            k = K.Kit(it)
                            w = K.Wire(it)
                            f1 = w.frame([w.options_row(ph, lt)] + w.statement_rows(ph, 2, "a"))
                            f2 = w.frame(w.statement_rows(ph, 1, "b"))
                            inp = k.input_stream([f1, f2])
                            res = it.drain(k.call(k.get(mod, parser), inp, logical_type_strict=strict))
                            return freeze(res)

                        inst = f"{integ}.{parser} physical={ph} logical={lt} strict={strict}"
                        it, out = _one_path(chk, scenario, inst)
                        accepted = out[0] == "ok"
                        if strict:
                            want = (lt in spec.FLAT_LOGICAL) if parser == "parse_jelly_flat" else (lt in spec.GROUPED_LOGICAL)
                            if accepted == want:
                                chk.ok(rule, inst, {"accepted": accepted, "exc": None if accepted else it.exc_class_name(out[1].exc)})
                            else:
                                chk.fail(rule, inst, f"pyjelly.integrations.{integ}.parse.{parser}:strict-gate", f"strict {parser} {'accepts' if accepted else 'rejects'} logical type {lt}; it must accept exactly the {'flat' if parser.endswith('flat') else 'grouped'} logical types")
                        else:
                            if not accepted:
                                chk.fail(rule, inst, f"pyjelly.integrations.{integ}.parse.{parser}:strict-gate", f"non-strict {parser} rejects logical type {lt} with {it.exc_class_name(out[1].exc)}")
                                continue
                            chk.ok(rule, inst, {"accepted": True})
                            if False not in baseline:
                                baseline[False] = (lt, out[1])
                                chk.ok(rule2, inst, {"baseline": True})
                            elif baseline[False][1] != out[1]:
                                chk.fail(rule2, inst, f"pyjelly.integrations.{integ}.parse.{parser}:logical-type-influence", f"with strict checking off the result for logical type {lt} differs from the result for logical type {baseline[False][0]} on the same rows")
                            else:
                                chk.ok(rule2, inst, {"same_as_logical_type": baseline[False][0]})


def declared_sizes(chk: Check, rule: str = "C13.TABLE.declared-sizes-are-table-sizes") -> None:
    """C13.TABLE.declared-sizes-are-table-sizes: on every construction path on which the LIBRARY chooses the encoder, the
    options or both (no options given; options guessed from the sink; `for_rdflib`), the three table sizes announced
    in the options row are the sizes of the encoder's own tables.  (A caller who passes an encoder and options that
    disagree is outside the property; the library's own defaults are not.)"""
    from .. import corpus as C
    from .. import models_rdflib as R
    from .. import pipe as P

    def sizes_of(k: K.Kit, stream: Any) -> tuple:
        k.method(stream, "enroll")
        frame = k.method(k.attr(stream, "flow"), "to_stream_frame")
        o = K.Kit.rows_of(frame)[0].fields.get("options")
        declared = tuple(o.fields.get(f, 0) for f in ("max_name_table_size", "max_prefix_table_size", "max_datatype_table_size"))
        actual = tuple(k.attr(stream, f"encoder.{t}.lookup.max_size") for t in ("names", "prefixes", "datatypes"))
        return declared, actual

    paths: list[tuple[str, str, Any]] = []
    for cls in ("TripleStream", "QuadStream", "GraphStream"):
        paths.append((f"{cls}.for_rdflib() without options", "pyjelly.serialize.streams.Stream.for_rdflib", lambda k, cls=cls: k.method(k.get(K.ST, cls), "for_rdflib")))
        paths.append((f"{cls}.for_rdflib(options) with a custom preset", "pyjelly.serialize.streams.Stream.for_rdflib", lambda k, cls=cls: k.method(k.get(K.ST, cls), "for_rdflib", k.options(lookup_preset=k.preset(21, 9, 10)))))
        for mod, enc in ((K.EN, "TermEncoder"), (K.GS, "GenericSinkTermEncoder"), (K.RS, "RDFLibTermEncoder")):
            paths.append((f"{cls}(encoder={enc}()) without options", "pyjelly.serialize.streams.SerializerOptions:lookup_preset-default", lambda k, cls=cls, mod=mod, enc=enc: k.new(K.ST, cls, encoder=k.new(mod, enc))))
    for quads in (False, True):
        def g_guess(k: K.Kit, quads: bool = quads) -> Any:
            stmts = [tuple(C.base("a", 4 if quads else 3))]
            sink = k.g_sink([P.generic_statement(k, st) for st in stmts])
            return k.call(k.get(K.GS, "guess_stream"), k.call(k.get(K.GS, "guess_options"), sink), sink)

        def r_guess(k: K.Kit, quads: bool = quads) -> Any:
            stmts = [tuple(C.base("a", 4 if quads else 3))]
            store = P.rdflib_store_for(k, 2 if quads else 1, stmts)
            return k.call(k.get(K.RS, "guess_stream"), k.call(k.get(K.RS, "guess_options"), store), store)

        paths.append((f"generic guess_stream(guess_options(sink), sink) quads={quads}", "pyjelly.integrations.generic.serialize.guess_stream", g_guess))
        paths.append((f"rdflib guess_stream(guess_options(store), store) quads={quads}", "pyjelly.integrations.rdflib.serialize.guess_stream", r_guess))
    for inst, construct, build in paths:
        def scenario(it: Interp, build: Any = build) -> Any:
            k = K.Kit(it)
            return sizes_of(k, build(k))

        it, out = _one_path(chk, scenario, inst)
        if out[0] != "ok":
            chk.fail(rule, inst, construct, f"construction raises {it.exc_class_name(out[1].exc)} at {out[1].site}")
            continue
        declared, actual = out[1]
        if declared == actual:
            chk.ok(rule, inst, {"declared": declared, "encoder_tables": actual})
        else:
            chk.fail(rule, inst, construct, f"the options row announces table sizes {declared} but the encoder of this stream works with tables of sizes {actual}: the reader sizes its tables from the header, so ids above the announced size or a different eviction order follow ({inst})")


def check(chk: Check) -> None:
    chk.rule("C13.TABLE.declared-sizes-are-table-sizes", "on every path on which the library itself pairs encoder and options (no options, guessed options, for_rdflib) the announced table sizes equal the encoder's table sizes", floor=16)
    chk.rule("C13.TABLE.header-bijection", "options row written == options given, options read == options row, all 9 descriptor fields (Stream.enroll -> encode_options -> get_options_and_frames)", floor=200)
    chk.rule("C13.TABLE.version", "declared version is 2 iff namespace declarations, reader derives the flag from the version, newer versions rejected", floor=18)
    chk.rule("C13.TABLE.compat", "accept/reject over all 4x8 physical/logical pairs equals the specification, on construction and on parse", floor=80)
    chk.rule("C13.TABLE.sizes", "name table < 8 rejected on both sides; tables > 4096 rejected on read", floor=20)
    chk.rule("C13.TABLE.strict", "strict flat parsers accept exactly FLAT_*, strict grouped parsers exactly the grouped types; non-strict accept all", floor=100)
    chk.rule("C13.TABLE.non-interference", "with strict off the parse result is identical for every logical type", floor=40)
    chk.exhaustive = True
    chk.trusted += ["Jelly compatibility table and limits in jstat/spec.py", "protobuf message model", "stream names are represented by one symbolic string (the analysis is independent of its content)"]
    chk.undecided += ["byte-level encoding of the options row by protobuf"]
    chk.part("header", lambda: header_bijection(chk))
    chk.part("declared-sizes", lambda: declared_sizes(chk))
    chk.part("version", lambda: version_table(chk))
    chk.part("compat", lambda: compat_table(chk))
    chk.part("sizes", lambda: size_limits(chk))
    chk.part("strict", lambda: strict_gates(chk))
