"""C18 — a statement too big for the lookup tables is refused, not corrupted.

Presets in which an enabled table has fewer slots than one statement needs are pushed through
the real serializer source; the abstract stream is decoded by the reference decoder.  Outcome
must be: raises, or decodes to the input.
"""
from __future__ import annotations

from typing import Any

from .. import corpus as C
from .. import kit as K
from .. import pipe as P
from .. import refdec
from ..freeze import freeze
from ..interp import Interp, explore
from ..par import pmap
from ..report import Check
from ..values import PyRaise
from . import pipejob


def cases() -> list[dict]:
    out = []
    # prefixes: 3 (triple) / 4 (quad) distinct prefixes with 1..3 slots
    for physical in (1, 2, 3):
        arity = 3 if physical == 1 else 4
        for size in (1, 2, 3):
            if size >= arity:
                continue
            out.append(dict(table="prefix", physical=physical, size=size, preset=(8, size, 8), stmts=[tuple(C.base("a", arity)), tuple(C.base("b", arity))], integ="generic"))
            out.append(dict(table="prefix", physical=physical, size=size, preset=(8, size, 8), stmts=[tuple(C.base("a", arity)), tuple(C.base("b", arity))], integ="rdflib"))
    # prefixes: quoted triple with many IRIs
    q = [P.t_iri("s"), P.t_iri("p"), ("triple", P.t_iri("qs"), P.t_iri("qp"), P.t_iri("qo"))]
    for size in (2, 3, 4):
        out.append(dict(table="prefix", physical=1, size=size, preset=(8, size, 8), stmts=[tuple(q)], integ="generic"))
    # datatypes: generalized literals in several slots
    lits = [P.t_lit("s", "typed"), P.t_lit("p", "typed"), P.t_lit("o", "typed")]
    for size in (1, 2):
        out.append(dict(table="datatype", physical=1, size=size, preset=(8, 8, size), stmts=[tuple(lits)], integ="generic"))
        out.append(dict(table="datatype", physical=2, size=size, preset=(8, 8, size), stmts=[tuple(lits + [P.t_lit("g", "typed")])], integ="generic"))
    # names: nested quoted triples needing more than 8 names
    def deep(tag: str) -> tuple:
        return P.t_triple(P.t_iri(tag + ".1"), P.t_iri(tag + ".2"), P.t_triple(P.t_iri(tag + ".3"), P.t_iri(tag + ".4"), P.t_triple(P.t_iri(tag + ".5"), P.t_iri(tag + ".6"), P.t_iri(tag + ".7"))))

    for size in (8, 10, 14):
        out.append(dict(table="name", physical=1, size=size, preset=(size, 32, 8), stmts=[(deep("s"), P.t_iri("p"), deep("o"))], integ="generic"))
    # controls: tables exactly large enough -> must succeed and decode to the input
    out.append(dict(table="prefix", physical=2, size=4, preset=(8, 4, 8), stmts=[tuple(C.base("a", 4)), tuple(C.base("b", 4))], integ="generic", control=True))
    out.append(dict(table="datatype", physical=1, size=3, preset=(8, 8, 3), stmts=[tuple(lits)], integ="generic", control=True))
    out.append(dict(table="name", physical=1, size=15, preset=(15, 32, 8), stmts=[(deep("s"), P.t_iri("p"), deep("o"))], integ="generic", control=True))
    # controls with history: tables exactly as large as one statement needs, previous statements fill them first
    for physical in (1, 2):
        arity = 3 if physical == 1 else 4
        for name, stmts in C.sharing_sequences(arity):
            if name.startswith(("lru-stress", "datatype-churn")):
                n, pf, dt = P.table_needs(stmts)
                out.append(dict(table="all(tight):" + name, physical=physical, size=0, preset=(max(8, n), max(1, pf), max(1, dt)), stmts=stmts, integ="generic", control=True))
    # a single namespace with a one-slot prefix table (exactly large enough)
    one_ns = [("iri", P.sstr(P.Atom("one.scheme", nosep=True), "/", P.Atom("one.path", nosep=True), "#", P.Atom(f"l{i}", nosep=True))) for i in range(3)]
    out.append(dict(table="prefix(single namespace)", physical=1, size=1, preset=(8, 1, 8), stmts=[tuple(one_ns), tuple(reversed(one_ns))], integ="generic", control=True))
    out.append(dict(table="prefix(single namespace)", physical=1, size=1, preset=(8, 1, 8), stmts=[tuple(one_ns), tuple(reversed(one_ns))], integ="rdflib", control=True))
    # the same with local names that contain '/' after the '#': still one namespace (the '#' split has priority)
    frag = [("iri", P.sstr(P.Atom("one.scheme", nosep=True), "/", P.Atom("one.path", nosep=True), "#", P.Atom(f"l{i}", nosep=True), "/", P.Atom(f"m{i}", nosep=True))) for i in range(3)]
    for integ in ("generic", "rdflib"):
        out.append(dict(table="prefix(single namespace, '/' inside the fragment)", physical=1, size=1, preset=(8, 1, 8), stmts=[tuple(frag), tuple(reversed(frag))], integ=integ, control=True))
    return out


def exact_fit_histories(tier: str) -> list[dict]:
    """All 2-statement histories (first statement up to key renaming) over 5 keys for a 3-slot table that
    exactly fits one statement, for the prefix table (IRIs) and the datatype table (generalized literals);
    a third statement re-uses the first one's keys so that a diverged table state shows."""
    import itertools

    from ..values import Atom, sstr

    keys = ["KA", "KB", "KC", "KD", "KE"]
    firsts = [("KA", "KA", "KA"), ("KA", "KA", "KB"), ("KA", "KB", "KA"), ("KA", "KB", "KB"), ("KA", "KB", "KC")]
    out = []
    n = 0
    for table in ("prefix", "datatype"):
        for first in firsts:
            for second in itertools.product(keys, repeat=3):
                n += 1
                if tier == "quick" and table == "datatype" and n % 3:
                    continue

                def term(key: str, uniq: str) -> tuple:
                    if table == "prefix":
                        return ("iri", sstr(Atom(key + ".scheme", nosep=True), "/", Atom(key + ".path", nosep=True), "#", Atom(uniq + ".local", nosep=True)))
                    return ("lit", sstr(Atom(uniq + ".lex")), None, sstr(Atom(key + ".dt")))

                stmts = [tuple(term(k_, f"s{si}t{ti}") for ti, k_ in enumerate(st)) for si, st in enumerate((first, second, first))]
                preset = (9, 3, 8) if table == "prefix" else (8, 8, 3)
                out.append(dict(table=f"{table} exact-fit history {''.join(x[1] for x in first)}->{''.join(x[1] for x in second)}", physical=1, size=3, preset=preset, stmts=stmts, integ="generic", control=True, history=True))
    return out


def run(prog, case: dict) -> dict:
    def scenario(it: Interp) -> dict:
        k = K.Kit(it)
        opts = P.make_options(k, logical=None, preset=case["preset"], generalized=case["integ"] == "generic", rdf_star=case["integ"] == "generic")
        writer = P.write_generic if case["integ"] == "generic" else P.write_rdflib
        try:
            frames, _ = writer(k, case["physical"], case["stmts"], opts, via="generator")
        except PyRaise as pr:
            return {"outcome": "raises", "exc": it.exc_class_name(pr.exc)}
        ref = refdec.decode(it.schema, frames)
        want = freeze(P.expected_items(case["stmts"], case["physical"]))
        got = freeze(P.unsplit(it, [x for x in ref.items]))
        evictions = sum(1 for e in it.events if e["kind"] == "lru" and e["op"] == "popitem")
        return {"outcome": "written", "errors": ref.errors, "equal": got == want and not ref.errors, "diff": pipejob.first_diff(got, want), "evictions": evictions}

    paths = []
    for it, out in explore(prog, scenario, max_paths=32, generic_strings=True):
        if out[0] != "ok":
            paths.append({"outcome": "error", "exc": it.exc_class_name(out[1].exc)})
        else:
            paths.append(out[1])
    return {"case": {k_: v for k_, v in case.items() if k_ != "stmts"}, "paths": paths}


def check(chk: Check) -> None:
    rule = "C18.REF.refuse-or-correct"
    chk.rule(rule, "undersized enabled table: serialisation raises or the stream decodes (by the reference decoder) to the input", floor=20)
    chk.rule("C18.REF.control", "tables exactly as large as one statement needs: serialisation succeeds and decodes to the input", floor=10)
    chk.trusted += ["jstat.refdec (specification decoder)"]
    chk.undecided += ["which concrete statements overflow; sizes beyond the enumerated ones"]
    chk.rule("C18.REF.exact-fit-histories", "3-slot prefix/datatype table, every 2-statement history over 5 keys (first statement up to renaming) + a third statement: output decodes to the input", floor=400)
    for res in pmap(run, cases() + exact_fit_histories(chk.tier), min_parallel=8):
        if res is None:
            continue
        c = res["case"]
        inst = f"{c['integ']} table={c['table']} size={c['size']} physical={c['physical']}"
        for p in res["paths"]:
            chk.paths += 1
            if c.get("history"):
                if p["outcome"] == "written" and p["equal"]:
                    chk.ok("C18.REF.exact-fit-histories", c["table"], p)
                else:
                    chk.fail("C18.REF.exact-fit-histories", c["table"], f"pyjelly.serialize.lookup:exact-fit-{c['table'].split()[0]}", f"{c['table']}: a table that holds exactly what one statement needs, yet: {p.get('diff') or p}")
                continue
            if c.get("control"):
                if p["outcome"] == "written" and p["equal"]:
                    chk.ok("C18.REF.control", inst, p)
                else:
                    chk.fail("C18.REF.control", inst, f"pyjelly.serialize.encode.TermEncoder:exact-size-{c['table']}", f"{c['table']} table with exactly the slots one statement needs: {p}")
                continue
            if p["outcome"] == "raises" or (p["outcome"] == "written" and p["equal"]):
                chk.ok(rule, inst, p)
            elif p["outcome"] == "written" and p.get("evictions", 0) > 0:
                chk.fail(rule, inst, "pyjelly.serialize.lookup.Lookup.insert:in-use-eviction", f"{c['table']} table of size {c['size']} is smaller than one statement needs: serialisation succeeds but the stream decodes differently: {p['errors'][:1] or p['diff']}")
            else:
                chk.fail(rule, inst, f"pyjelly.serialize.encode.TermEncoder:undersized-{c['table']}", f"undersized {c['table']} table: {p}")
