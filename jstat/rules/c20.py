"""C20 — a rejected statement never poisons the rest of the stream.

Exception-safety (effect) analysis on abstract traces: a caller drives Stream.triple/quad/graph
statement by statement, one statement is made unencodable at one slot for one cause, the caller
catches and carries on.  The abstract frames written are decoded by the reference decoder: they
must be valid and decode to exactly the statements whose call returned normally (a stream that
refuses further use satisfies this trivially).
"""
from __future__ import annotations

from typing import Any

from .. import corpus as C
from .. import kit as K
from .. import pipe as P
from .. import refdec
from ..freeze import freeze
from ..interp import Interp, explore
from ..par import pmap
from ..report import Check
from ..values import Msg, PyRaise
from . import pipejob

CAUSES = ("unsupported-term", "typed-literal-disabled-table", "short-tuple", "interrupt-while-iterating-terms", "unsupported-term-after-known-terms")
BAD = ("bad",)


def _build(k: K.Kit, integ: str, term: tuple) -> Any:
    if term == BAD:
        return 42  # an object no encoder supports
    if term[0] == "triple" and integ == "generic":
        return k.new(K.GK, "Triple", *[_build(k, integ, t) for t in term[1:]])
    return P.build_generic(k, term) if integ == "generic" else P.build_rdflib(term)


def cases(arity: int, integ: str) -> list[dict]:
    out = []
    slots = ["s", "p", "o"] + (["g"] if arity == 4 else [])
    for cause in CAUSES:
        for si, slot in enumerate(slots):
            a = C.base("a", arity)
            b = C.base("b", arity)
            preset = (8, 8, 8)
            n_terms = arity
            if cause == "unsupported-term":
                b[si] = BAD
            elif cause == "typed-literal-disabled-table":
                if slot in ("s", "p") and integ == "rdflib":
                    continue
                if slot == "g" and integ == "rdflib":
                    continue
                b[si] = P.t_lit("b." + slot, "typed")
                preset = (8, 8, 0)
            elif cause == "short-tuple":
                if si == 0:
                    continue
                n_terms = si  # the tuple ends before this slot
            elif cause == "interrupt-while-iterating-terms":
                if si == 0:
                    continue
                n_terms = si  # the terms iterable raises KeyboardInterrupt when asked for this slot
            elif cause == "unsupported-term-after-known-terms":
                if si == 0:
                    continue
                # every term before the failing one is already known to the stream (lookup hits only: no new entries, but
                # the last-used indices move) and differs from the previous statement's term in that slot
                a_terms = C.base("a", arity)
                b = [a_terms[(i + 1) % 3] for i in range(3)] + ([a_terms[3]] if arity == 4 else [])
                b[si] = BAD
            # the statement after the failure repeats every term of b that was encoded before the failure
            c = [b[i] if i < si else C.base("c", arity)[i] for i in range(arity)]
            d = C.base("a", arity)
            out.append(dict(cause=cause, slot=slot, seq=[("ok", tuple(a)), ("bad", tuple(b[:n_terms])), ("ok", tuple(c)), ("ok", tuple(d))], preset=preset))
            if cause == "unsupported-term-after-known-terms":
                # afterwards: statements whose zero forms depend on the last-used name/prefix indices
                e = [C.base("a", arity)[1], C.base("a", arity)[2], C.base("a", arity)[0]] + ([C.base("a", arity)[3]] if arity == 4 else [])
                out[-1]["seq"] = [("ok", tuple(a)), ("bad", tuple(b[:n_terms])), ("ok", tuple(e)), ("ok", tuple(a))]
        if integ == "generic":
            # failure inside a quoted triple in the object position
            a = C.base("a", arity)
            b = C.base("b", arity)
            inner_bad = BAD if cause != "typed-literal-disabled-table" else P.t_lit("b.q", "typed")
            if cause == "short-tuple":
                continue
            b[2] = ("triple", P.t_iri("b.qs"), P.t_iri("b.qp"), inner_bad)
            c = [b[0], b[1], P.t_iri("b.qs")] + ([C.base("c", arity)[3]] if arity == 4 else [])
            out.append(dict(cause=cause, slot="nested", seq=[("ok", tuple(a)), ("bad", tuple(b)), ("ok", tuple(c)), ("ok", tuple(a))], preset=(8, 8, 0) if cause.startswith("typed") else (8, 8, 8)))
    return out


def run(prog, job: dict) -> dict:
    integ, physical, case = job["integ"], job["physical"], job["case"]

    def scenario(it: Interp) -> dict:
        k = K.Kit(it)
        opts = P.make_options(k, logical=None, preset=case["preset"], frame_size=job["frame_size"], generalized=True, rdf_star=integ == "generic")
        if integ == "generic":
            stream = k.stream(P.STREAM_FOR[physical], k.generic_encoder(k.attr(opts, "lookup_preset")), opts)
        else:
            stream = k.method(k.get(K.ST, P.STREAM_FOR[physical]), "for_rdflib", opts)
        k.method(stream, "enroll")
        frames: list = []
        accepted: list = []
        log: list = []

        def push(fr: Any) -> None:
            if isinstance(fr, Msg):
                frames.append(fr)

        precreated: list = []
        if physical == 3 and job.get("precreate"):
            # the per-graph generators are all obtained BEFORE any of them is consumed (a caller that prepares its work
            # list first): whatever graph() checks when it is called was checked before the failure happened
            for expect, st in case["seq"]:
                terms = [_build(k, integ, t) for t in st]
                gid = terms[3] if len(terms) > 3 else None
                try:
                    precreated.append((expect, st, k.method(stream, "graph", gid, k.generator([tuple(terms[:3])])), None))
                except PyRaise as pr:
                    precreated.append((expect, st, None, pr))
            for expect, st, gen, err in precreated:
                try:
                    if err is not None:
                        raise err
                    for fr in it.drain(gen):
                        push(fr)
                    log.append(("returned", expect))
                    if len(st) >= 4 and BAD not in st:
                        accepted.append(st)
                except PyRaise as pr:
                    log.append(("raised", expect, it.exc_class_name(pr.exc)))
        for expect, st in case["seq"] if not precreated else ():
            terms = [_build(k, integ, t) for t in st]
            payload: Any = tuple(terms)
            if expect == "bad" and case["cause"] == "interrupt-while-iterating-terms":
                from ..values import ExtObj as _E, GenObj as _G, PyRaise as _P

                def _host(ts=terms):
                    for t_ in ts:
                        yield t_
                    raise _P(_E("exc:KeyboardInterrupt", {"args": ()}), it.site)

                payload = _G(_host(), "terms iterator interrupted")
            try:
                if physical == 1:
                    push(k.method(stream, "triple", payload))
                elif physical == 2:
                    push(k.method(stream, "quad", payload))
                else:
                    # one graph per statement: graph(graph_id, [triple])
                    gid = terms[3] if len(terms) > 3 else None
                    inner = payload if not isinstance(payload, tuple) else tuple(terms[:3])
                    for fr in it.drain(k.method(stream, "graph", gid, k.generator([inner]))):
                        push(fr)
                log.append(("returned", expect))
                if len(st) >= (4 if physical != 1 else 3) and BAD not in st:
                    accepted.append(st)
            except PyRaise as pr:
                log.append(("raised", expect, it.exc_class_name(pr.exc)))
        push(k.method(k.attr(stream, "flow"), "to_stream_frame"))
        ref = refdec.decode(it.schema, frames)
        want = P.expected_items(accepted, physical)
        return {"log": log, "ref_errors": ref.errors, "got": freeze([x for x in ref.items]), "want": freeze(want), "rows": pipejob.frame_summary(frames)}

    paths = []
    funcs: set[str] = set()
    for it, out in explore(prog, scenario, max_paths=32, generic_strings=True):
        for e in it.events:
            if e["kind"] == "call":
                funcs.add(f"{e['module']}.{e['func']}")
        if out[0] != "ok":
            paths.append({"error": it.exc_class_name(out[1].exc), "site": str(out[1].site)})
        else:
            paths.append(out[1])
    return {"job": {"integ": integ, "physical": physical, "cause": case["cause"], "slot": case["slot"], "frame_size": job["frame_size"], "precreate": bool(job.get("precreate"))}, "paths": paths, "funcs": sorted(funcs)}


def run_driver(prog, job: dict) -> dict:
    """The integration's own driver (stream_frames(stream, statements)) used twice on one stream: the first batch
    contains the rejected statement; the caller catches and sends a second batch through the same stream."""
    integ, physical, case = job["integ"], job["physical"], job["case"]

    def scenario(it: Interp) -> dict:
        k = K.Kit(it)
        opts = P.make_options(k, logical=None, preset=case["preset"], frame_size=job["frame_size"], generalized=True, rdf_star=integ == "generic")
        if integ == "generic":
            stream = k.stream(P.STREAM_FOR[physical], k.generic_encoder(k.attr(opts, "lookup_preset")), opts)
        else:
            stream = k.method(k.get(K.ST, P.STREAM_FOR[physical]), "for_rdflib", opts)
        mod = K.GS if integ == "generic" else K.RS
        mk = P.generic_statement if integ == "generic" else P.rdflib_statement
        seq = case["seq"]
        cut = next(i for i, (e, _s) in enumerate(seq) if e == "bad") + 1
        frames: list = []
        accepted: list = []
        log: list = []
        for bi, batch in enumerate((seq[:cut], seq[cut:])):
            objs = []
            for expect, st in batch:
                if expect == "bad":
                    terms = [_build(k, integ, t) for t in st]
                    objs.append(k.new(K.GK if integ == "generic" else K.RP, "Triple" if len(terms) == 3 else "Quad", *terms) if len(terms) in (3, 4) else tuple(terms))
                else:
                    objs.append(mk(k, st))
            pulled: list = []
            gen_in = k.generator(objs, on_pull=lambda i, got, pulled=pulled: pulled.append(i))
            try:
                g = it.get_iter(k.call(k.get(mod, "stream_frames"), stream, gen_in))
                while True:
                    ok, fr = it.next_value(g)
                    if not ok:
                        break
                    if isinstance(fr, Msg):
                        frames.append(fr)
                log.append(("returned", f"batch{bi}"))
                accepted += [st for e, st in batch if e == "ok"]
            except PyRaise as pr:
                log.append(("raised", f"batch{bi}", it.exc_class_name(pr.exc)))
                if bi == 0:
                    accepted += [st for e, st in batch if e == "ok"]
        ref = refdec.decode(it.schema, frames)
        return {"log": log, "ref_errors": ref.errors, "got": freeze([x for x in ref.items]), "want_full": freeze(P.expected_items(accepted, physical)), "rows": pipejob.frame_summary(frames)}

    paths = []
    for it, out in explore(prog, scenario, max_paths=32, generic_strings=True):
        paths.append(out[1] if out[0] == "ok" else {"error": it.exc_class_name(out[1].exc), "site": str(out[1].site)})
    return {"job": {"integ": integ, "physical": physical, "cause": case["cause"], "slot": case["slot"], "frame_size": job["frame_size"]}, "paths": paths}


def _driver(chk: Check) -> None:
    rule = "C20.EFFECT.driver-exception-safety"
    chk.rule(rule, "stream_frames(stream, statements) raising on a rejected statement, caught, then used again on the same stream: the second call refuses, or everything written is valid and decodes to a prefix of the first batch's accepted statements followed by the second batch", floor=20)
    jobs = []
    for integ in ("generic", "rdflib"):
        for physical in (1, 2):
            arity = 3 if physical == 1 else 4
            for case in cases(arity, integ):
                if case["cause"] not in ("unsupported-term", "typed-literal-disabled-table", "unsupported-term-after-known-terms") or case["slot"] == "nested":
                    continue
                jobs.append(dict(integ=integ, physical=physical, case=case, frame_size=250))
    for res in pmap(run_driver, jobs):
        if res is None:
            continue
        jb = res["job"]
        inst = f"{jb['integ']} physical={jb['physical']} cause={jb['cause']} slot={jb['slot']} via stream_frames twice"
        construct = f"pyjelly.integrations.{jb['integ']}.serialize.stream_frames:dirty-state-after-exception"
        for p in res["paths"]:
            chk.paths += 1
            if "error" in p:
                chk.fail(rule, inst, construct, f"driver raises outside the calls: {p['error']} at {p['site']}")
                continue
            first, second = p["log"][0], p["log"][1]
            if first[0] != "raised":
                chk.fail("C20.EFFECT.rejection-raises", inst, construct.replace("dirty-state-after-exception", f"accepts-{jb['cause']}"), "the batch with the unencodable statement returns normally")
                continue
            if second[0] == "raised":
                errs = [e for e in p["ref_errors"] if not e.startswith("stream ends inside an open graph")]
                # refused: what was written must be a valid prefix
                if errs:
                    chk.fail(rule, inst, construct, f"stream refused further use but the rows written so far are invalid: {errs[:2]}")
                else:
                    chk.ok(rule, inst, {"second_batch": "refused", "exc": second[2]})
                continue
            # accepted: valid, and decodes to (a prefix of batch 1's accepted statements) + batch 2
            got, want = list(p["got"]), list(p["want_full"])
            n2 = len(want) - 1  # batch 1 has exactly one accepted statement before the bad one
            ok_content = not p["ref_errors"] and (got == want or got == want[1:]) and n2 >= 0
            if ok_content:
                chk.ok(rule, inst, {"second_batch": "accepted", "decoded": len(got)})
            else:
                chk.fail(rule, inst, construct, f"{jb['cause']} at slot {jb['slot']}: the same stream accepts the next batch, but what was written is {'invalid: ' + str(p['ref_errors'][:2]) if p['ref_errors'] else 'decoded differently: ' + pipejob.first_diff(got, want)}; calls: {p['log']}")


def _ns_after_failure(chk: Check) -> None:
    """After a rejected statement the other writing method of the stream, namespace_declaration, must refuse as well (or
    leave a valid stream)."""
    from ..values import Atom, sstr

    rule = "C20.EFFECT.exception-safety"
    for integ in ("generic", "rdflib"):
        for physical in (1, 2):
            arity = 3 if physical == 1 else 4

            def scenario(it: Interp) -> dict:
                k = K.Kit(it)
                opts = P.make_options(k, logical=None, preset=(8, 8, 8), frame_size=250, namespaces=True, generalized=True, rdf_star=integ == "generic")
                if integ == "generic":
                    stream = k.stream(P.STREAM_FOR[physical], k.generic_encoder(k.attr(opts, "lookup_preset")), opts)
                else:
                    stream = k.method(k.get(K.ST, P.STREAM_FOR[physical]), "for_rdflib", opts)
                k.method(stream, "enroll")
                meth = "triple" if physical == 1 else "quad"
                a, b = C.base("a", arity), C.base("b", arity)
                b[2] = BAD
                log = []
                frames: list = []
                for label, st in (("ok", a), ("bad", b)):
                    try:
                        fr = k.method(stream, meth, tuple(_build(k, integ, t) for t in st))
                        if isinstance(fr, Msg):
                            frames.append(fr)
                        log.append(("returned", label))
                    except PyRaise as pr:
                        log.append(("raised", label, it.exc_class_name(pr.exc)))
                ns = sstr(Atom("late.scheme", nosep=True), "/", Atom("late.path", nosep=True), "#")
                try:
                    k.method(stream, "namespace_declaration", "late", ns)
                    log.append(("returned", "namespace_declaration"))
                except PyRaise as pr:
                    log.append(("raised", "namespace_declaration", it.exc_class_name(pr.exc)))
                fr = k.method(k.attr(stream, "flow"), "to_stream_frame")
                if isinstance(fr, Msg):
                    frames.append(fr)
                ref = refdec.decode(it.schema, frames)
                return {"log": log, "ref_errors": ref.errors, "statements": len([x for x in ref.items if x[0] != "ns"])}

            def scenario2(it: Interp) -> dict:
                # the other way round: a namespace declaration is rejected half-way (its name entry is assigned, then the
                # prefix cannot be encoded), the caller carries on with statements
                k = K.Kit(it)
                opts = P.make_options(k, logical=None, preset=(8, 8, 8), frame_size=250, namespaces=True, generalized=True, rdf_star=integ == "generic")
                if integ == "generic":
                    stream = k.stream(P.STREAM_FOR[physical], k.generic_encoder(k.attr(opts, "lookup_preset")), opts)
                else:
                    stream = k.method(k.get(K.ST, P.STREAM_FOR[physical]), "for_rdflib", opts)
                k.method(stream, "enroll")
                meth = "triple" if physical == 1 else "quad"
                a, c = C.base("a", arity), C.base("c", arity)
                log = []
                frames: list = []
                accepted = []

                def stmt(label: str, st: list) -> None:
                    try:
                        fr = k.method(stream, meth, tuple(_build(k, integ, t) for t in st))
                        if isinstance(fr, Msg):
                            frames.append(fr)
                        log.append(("returned", label))
                        accepted.append(tuple(st))
                    except PyRaise as pr:
                        log.append(("raised", label, it.exc_class_name(pr.exc)))

                stmt("a", a)
                try:
                    # the label is not a string: the IRI (the namespace of c's subject) is encoded first, its lookup entries
                    # are assigned, then building the declaration fails and the entry rows never reach the flow
                    ns_c = sstr(Atom("c.s.scheme", nosep=True), "/", Atom("c.s.path", nosep=True), "#")
                    k.method(stream, "namespace_declaration", 42, ns_c)
                    log.append(("returned", "namespace_declaration(42)"))
                except PyRaise as pr:
                    log.append(("raised", "namespace_declaration(42)", it.exc_class_name(pr.exc)))
                stmt("c", c)
                stmt("a-again", a)
                fr = k.method(k.attr(stream, "flow"), "to_stream_frame")
                if isinstance(fr, Msg):
                    frames.append(fr)
                ref = refdec.decode(it.schema, frames)
                got = freeze([x for x in ref.items if x[0] != "ns"])
                return {"log": log, "ref_errors": ref.errors, "same": got == freeze(P.expected_items(accepted, physical)), "declared": [x for x in ref.items if x[0] == "ns"]}

            inst2 = f"{integ} physical={physical}: statements after a rejected namespace_declaration"
            for it, out in explore(chk.program, scenario2, max_paths=8, generic_strings=True):
                chk.paths += 1
                if out[0] != "ok":
                    chk.fail(rule, inst2, "pyjelly.serialize.streams.Stream.namespace_declaration:driver", f"raises outside the calls: {it.exc_class_name(out[1].exc)} at {out[1].site}")
                    continue
                p = out[1]
                if ("returned", "namespace_declaration(42)") in p["log"]:
                    chk.fail("C20.EFFECT.rejection-raises", inst2, "pyjelly.serialize.streams.Stream.namespace_declaration:accepts-unsupported-iri", "a namespace label that is not a string is accepted without an exception")
                elif not p["ref_errors"] and p["same"]:
                    chk.ok(rule, inst2, {"calls": p["log"]})
                else:
                    chk.fail(rule, inst2, "pyjelly.serialize.streams.Stream.namespace_declaration:dirty-state-after-exception", f"after the rejected declaration the stream written is invalid or decodes differently: {p['ref_errors'][:2]}; calls: {p['log']}")
            inst = f"{integ} physical={physical}: namespace_declaration after a rejected statement"
            for it, out in explore(chk.program, scenario, max_paths=8, generic_strings=True):
                chk.paths += 1
                if out[0] != "ok":
                    chk.fail(rule, inst, "pyjelly.serialize.streams.Stream.namespace_declaration:driver", f"raises outside the calls: {it.exc_class_name(out[1].exc)} at {out[1].site}")
                    continue
                p = out[1]
                refused = any(l[0] == "raised" and l[1] == "namespace_declaration" for l in p["log"])
                if refused or (not p["ref_errors"] and p["statements"] == 1):
                    chk.ok(rule, inst, {"calls": p["log"]})
                else:
                    chk.fail(rule, inst, "pyjelly.serialize.streams.Stream.namespace_declaration:dirty-state-after-exception", f"after the rejected statement namespace_declaration is accepted and the stream written is invalid or decodes differently: {p['ref_errors'][:2]} ({p['statements']} statements); calls: {p['log']}")


def check(chk: Check) -> None:
    chk.part("driver", lambda: _driver(chk))
    rule = "C20.EFFECT.exception-safety"
    chk.rule(rule, "after a statement is rejected with an exception and the caller carries on, the frames written are valid and decode to exactly the accepted statements (or the stream refuses further use)", floor=80)
    chk.part("namespace-after-failure", lambda: _ns_after_failure(chk))
    chk.rule("C20.EFFECT.rejection-raises", "each unencodable statement is actually rejected with an exception", floor=80)
    chk.trusted += ["jstat.refdec (specification decoder)", "protobuf message model"]
    chk.undecided += ["every position of arbitrary concrete sequences (one failing statement between accepted ones is analysed, at every slot and for every cause)"]
    jobs = []
    for integ in ("generic", "rdflib"):
        for physical in (1, 2, 3):
            arity = 3 if physical == 1 else 4
            for case in cases(arity, integ):
                for fs in ((1, 2, 3, 5, 250) if chk.tier == "thorough" else (1, 250)):
                    jobs.append(dict(integ=integ, physical=physical, case=case, frame_size=fs))
                if physical == 3 and case["cause"] != "interrupt-while-iterating-terms":
                    jobs.append(dict(integ=integ, physical=physical, case=case, frame_size=250, precreate=True))
    for res in pmap(run, jobs):
        if res is None:
            continue
        chk.functions.update(res["funcs"])
        jb = res["job"]
        inst = f"{jb['integ']} physical={jb['physical']} cause={jb['cause']} slot={jb['slot']} frame_size={jb['frame_size']}" + (" graph generators created up front" if jb.get("precreate") else "")
        method = {1: "TripleStream.triple", 2: "QuadStream.quad", 3: "GraphStream.graph"}[jb["physical"]]
        for p in res["paths"]:
            chk.paths += 1
            if "error" in p:
                chk.fail(rule, inst, f"pyjelly.serialize.streams.{method}:driver", f"driving the stream raises outside a statement call: {p['error']} at {p['site']}")
                continue
            bad_entries = [l for l in p["log"] if l[1] == "bad"]
            if bad_entries and bad_entries[0][0] == "returned":
                chk.fail("C20.EFFECT.rejection-raises", inst, f"pyjelly.serialize.streams.{method}:accepts-{jb['cause']}", f"the unencodable statement ({jb['cause']} at {jb['slot']}) is accepted without an exception")
            else:
                chk.ok("C20.EFFECT.rejection-raises", inst, {"exc": bad_entries[0][2] if bad_entries else None})
            refused = any(l[0] == "raised" and l[1] == "ok" for l in p["log"])
            if refused:
                # a stream that refuses further use leaves a *prefix*: it may end inside a graph
                p["ref_errors"] = [e for e in p["ref_errors"] if not e.startswith("stream ends inside an open graph")]
            if p["ref_errors"]:
                chk.fail(rule, inst, f"pyjelly.serialize.streams.{method}:dirty-state-after-exception", f"{jb['cause']} at slot {jb['slot']}: after the rejected statement the stream written is invalid: {p['ref_errors'][:2]}; calls: {p['log']}; rows: {p['rows']}")
            elif p["got"] != p["want"]:
                chk.fail(rule, inst, f"pyjelly.serialize.streams.{method}:dirty-state-after-exception", f"{jb['cause']} at slot {jb['slot']}: the stream decodes to statements that differ from the accepted ones: {pipejob.first_diff(p['got'], p['want'])}; calls: {p['log']}")
            else:
                chk.ok(rule, inst, {"calls": p["log"], "decoded": len(p["got"])})
