"""C07 — frame boundaries never change content; grouped I/O is one sink per frame.

Differential constant propagation: the same abstract row sequence is cut into frames in several
ways (incl. empty frames and frames carrying metadata) and pushed through the real parser
source; everything observable must be identical.  Grouped parsing: one sink per frame, in order,
metadata visible while that frame's sink is produced.  Grouped writing: one frame per non-empty
input graph/dataset.
"""
from __future__ import annotations

from typing import Any

from .. import corpus as C
from .. import kit as K
from .. import pipe as P
from .. import refdec, refenc
from ..errors import AnalysisError
from ..freeze import freeze
from ..interp import Interp, explore
from ..par import pmap
from ..report import Check
from ..values import ADict, AList, ExtObj, Msg, PyRaise
from . import c02, c04, pipejob


def partitions(w: K.Wire, rows: list[Msg], tier: str = "quick") -> list[tuple[str, list[Msg]]]:
    """Re-partitionings of one row sequence (the first frame always starts with the options row)."""
    meta = ADict([["producer", b"x"]])
    out = [("single frame", [w.frame(rows)])]
    out.append(("one row per frame", [w.frame([r]) for r in rows]))
    out.append(("two rows per frame", [w.frame(rows[i : i + 2]) for i in range(0, len(rows), 2)]))
    cut = max(1, len(rows) // 2)
    out.append(("leading empty frames + halves + empty frames with metadata", [w.frame([]), w.frame([], metadata=meta), w.frame(rows[:cut]), w.frame([]), w.frame(rows[cut:], metadata=meta), w.frame([], metadata=meta)]))
    out.append(("options alone then the rest", [w.frame(rows[:1]), w.frame(rows[1:])]))
    # cut between every entry and its use: entries in one frame, statements in the next
    a, b = [], []
    frames = []
    for r in rows:
        kind = K.Kit.row_kind(r)
        if kind in ("name", "prefix", "datatype"):
            if b:
                frames.append(w.frame(a + b))
                a, b = [], []
            a.append(r)
        else:
            if a:
                frames.append(w.frame(a))
                a = []
            b.append(r)
    if a or b:
        frames.append(w.frame(a + b))
    out.append(("cut between entries and their use", frames))
    if tier == "thorough":
        import itertools

        # every partitioning with one or two cuts, and every single cut with an empty frame in between
        n = len(rows)
        for c1 in range(1, n):
            out.append((f"cut at {c1}", [w.frame(rows[:c1]), w.frame(rows[c1:])]))
            out.append((f"cut at {c1} with an empty frame", [w.frame(rows[:c1]), w.frame([]), w.frame(rows[c1:])]))
        for c1, c2 in itertools.combinations(range(1, n), 2):
            if c2 - c1 > 3 and c1 != 1 and c2 != n - 1:
                continue  # distant cut pairs act independently: covered by the single cuts
            out.append((f"cuts at {c1},{c2}", [w.frame(rows[:c1]), w.frame(rows[c1:c2]), w.frame(rows[c2:])]))
    return out


def run_reframe(prog, job: dict) -> dict:
    physical, stmts = job["physical"], job["stmts"]

    def scenario(it: Interp) -> dict:
        k = K.Kit(it)
        w = K.Wire(it)
        enc = refenc.RefEncoder(w, physical, 0, (8, 4 if physical == 1 else 5, 2), refenc.Policy(framing="one"))
        for st in stmts:
            enc.statement(st)
        enc.finish()
        rows = [r for _t, r in enc.rows]
        res: dict[str, Any] = {}
        for pname, frames in partitions(w, rows, job.get("tier", "quick")):
            ref = refdec.decode(it.schema, frames)
            if ref.errors:
                raise AnalysisError(f"C07: re-partitioned reference stream invalid: {ref.errors[:2]}")
            entry: dict[str, Any] = {"n_frames": len(frames), "metadata": [freeze(f.fields.get("metadata")) if isinstance(f.fields.get("metadata"), ADict) and f.fields["metadata"].pairs else None for f in frames], "per_frame": ref.per_frame}
            for integ in job["integs"]:
                mod = K.GP if integ == "generic" else K.RP
                try:
                    entry[f"{integ}.flat"] = ("ok", freeze(P.read_items(k, integ, "parse_jelly_flat", frames)))
                except PyRaise as pr:
                    entry[f"{integ}.flat"] = ("raise", it.exc_class_name(pr.exc), str(pr.site))
                # grouped with a context variable: observe the value after each sink is produced
                cv = ExtObj("contextvars.ContextVar", {"name": "frame_metadata", "sets": []})
                try:
                    gen = it.get_iter(k.call(k.get(mod, "parse_jelly_grouped"), k.input_stream(list(frames)), frame_metadata=cv))
                    sinks = []
                    seen_meta = []
                    while True:
                        ok, sink = it.next_value(gen)
                        if not ok:
                            break
                        sinks.append(freeze([x for x in P.sink_items(k, integ, sink) if x[0] != "ns"]))
                        v = cv.attrs.get("value")
                        seen_meta.append(freeze(v) if isinstance(v, ADict) and v.pairs else None)
                    entry[f"{integ}.grouped"] = ("ok", sinks, seen_meta)
                except PyRaise as pr:
                    entry[f"{integ}.grouped"] = ("raise", it.exc_class_name(pr.exc), str(pr.site))
            res[pname] = entry
        return res

    paths = []
    funcs: set[str] = set()
    for it, outcome in explore(prog, scenario, max_paths=8, generic_strings=True, **({"max_steps": 200_000_000} if job.get("tier") == "thorough" else {})):
        for e in it.events:
            if e["kind"] == "call":
                funcs.add(f"{e['module']}.{e['func']}")
        if outcome[0] != "ok":
            raise AnalysisError(f"C07 scenario: uncaught {outcome[1]}")
        paths.append(outcome[1])
    return {"job": {"physical": physical, "name": job["name"], "integs": job["integs"]}, "paths": paths, "funcs": sorted(funcs)}


def run_grouped_write(prog, job: dict) -> dict:
    integ, physical, logical = job["integ"], job["physical"], job["logical"]

    def scenario(it: Interp) -> dict:
        k = K.Kit(it)
        arity = 3 if physical == 1 else 4
        groups = []
        for gi, n in enumerate(job["sizes"]):
            groups.append([tuple(C.base(f"g{gi}s{i}", arity)[:3] + ([P.t_iri(f"G{gi}")] if arity == 4 else [])) for i in range(n)])
        flow_obj = None
        if job.get("explicit_flow"):
            # the caller supplies the grouped flow object itself (a fresh, empty flow)
            flow_obj = k.flow("GraphsFrameFlow" if physical == 1 else "DatasetsFrameFlow")
        opts = P.make_options(k, logical=None if flow_obj is not None else logical, generalized=integ == "generic", rdf_star=integ == "generic", frame_size=job["frame_size"], flow=flow_obj)
        if job.get("dataset_of_graphs"):
            # rdflib only: a TripleStream fed with one Dataset writes one frame per non-empty graph of it
            quads = [tuple(list(st) + [P.t_iri(f"G{gi}")]) for gi, g in enumerate(groups) for st in g]
            ds = P.rdflib_store_for(k, 2, quads)
            stream = k.method(k.get(K.ST, "TripleStream"), "for_rdflib", opts)
            frames = it.drain(k.call(k.get(K.RS, "stream_frames"), stream, ds))
        elif integ == "generic":
            sinks = [k.g_sink([P.generic_statement(k, st) for st in g]) for g in groups]
            frames = it.drain(k.call(k.get(K.GS, "grouped_stream_to_frames"), k.generator(sinks), opts))
        else:
            sinks = [P.rdflib_store_for(k, physical, g) for g in groups]
            frames = it.drain(k.call(k.get(K.RS, "grouped_stream_to_frames"), k.generator(sinks), opts))
        ref = refdec.decode(it.schema, frames)
        return {"frames": len(frames), "per_frame": ref.per_frame, "errors": ref.errors, "want": [n for n in job["sizes"] if n], "rows": pipejob.frame_summary(frames)}

    paths = []
    for it, outcome in explore(prog, scenario, max_paths=8, generic_strings=True):
        if outcome[0] != "ok":
            paths.append({"raise": it.exc_class_name(outcome[1].exc), "site": str(outcome[1].site)})
        else:
            paths.append(outcome[1])
    return {"job": job, "paths": paths}


def check(chk: Check) -> None:
    ra, rb, rc, rd = "C07.DIFF.reframing", "C07.PATH.one-sink-per-frame", "C07.PATH.metadata-visible", "C07.PATH.one-frame-per-sink"
    chk.rule(ra, "flat parse result is identical for every re-partitioning of the same rows into frames", floor=60)
    chk.rule(rb, "grouped parsing yields exactly one sink per frame, in order, whose concatenation equals the flat parse", floor=60)
    chk.rule(rc, "while the sink of frame i is produced the context variable holds frame i's metadata ({} if none)", floor=60)
    chk.rule(rd, "grouped serialisation with a grouped logical type writes exactly one frame per non-empty input graph/dataset, with that sink's statements", floor=20)
    chk.trusted += ["jstat.refenc/refdec", "ContextVar.set model", "protobuf fidelity"]
    chk.undecided += ["all re-partitionings of concrete streams (six representative cuts incl. entry/use cuts are analysed)"]
    jobs = []
    for physical in (1, 2, 3):
        for name, stmts in c04.sequences(physical):
            rdf11 = name in ("long-mixed", "repeats")
            jobs.append(dict(physical=physical, name=name, stmts=stmts, integs=["generic"] + (["rdflib"] if rdf11 else []), tier=chk.tier))
    for res in pmap(run_reframe, jobs, min_parallel=4):
        if res is None:
            continue
        chk.functions.update(res["funcs"])
        jb = res["job"]
        for path in res["paths"]:
            chk.paths += 1
            base_name = "single frame"
            for integ in jb["integs"]:
                base = path[base_name][f"{integ}.flat"]
                for pname, entry in path.items():
                    inst = f"{jb['name']} physical={jb['physical']} {integ} | {pname}"
                    flat = entry[f"{integ}.flat"]
                    if flat[0] != "ok":
                        chk.fail(ra, inst, f"pyjelly.integrations.{integ}.parse.parse_jelly_flat:reframing", f"re-partitioned stream ({pname}) raises {flat[1]} at {flat[2]}")
                    elif flat != base:
                        chk.fail(ra, inst, f"pyjelly.integrations.{integ}.parse.parse_jelly_flat:reframing", f"flat parse differs between '{base_name}' and '{pname}': {pipejob.first_diff(flat[1], base[1])}")
                    else:
                        chk.ok(ra, inst, {"frames": entry["n_frames"], "items": len(flat[1])})
                    grp = entry[f"{integ}.grouped"]
                    if grp[0] != "ok":
                        chk.fail(rb, inst, f"pyjelly.integrations.{integ}.parse.parse_jelly_grouped:frames", f"grouped parse of ({pname}) raises {grp[1]} at {grp[2]}")
                        continue
                    sinks, seen_meta = grp[1], grp[2]
                    concat = tuple(x for s in sinks for x in s)
                    flat_stmts = tuple(x for x in flat[1] if x[0] != "ns") if flat[0] == "ok" else None
                    want_counts = entry["per_frame"]
                    if len(sinks) != entry["n_frames"]:
                        chk.fail(rb, inst, f"pyjelly.integrations.{integ}.parse.parse_jelly_grouped:one-per-frame", f"{len(sinks)} sinks for {entry['n_frames']} frames ({pname})")
                    elif integ == "generic" and [len(s) for s in sinks] != want_counts:
                        chk.fail(rb, inst, f"pyjelly.integrations.{integ}.parse.parse_jelly_grouped:one-per-frame", f"statements per sink {[len(s) for s in sinks]} differ from statements per frame {want_counts} ({pname})")
                    elif flat_stmts is not None and (c02._as_set(concat) != c02._as_set(flat_stmts) if integ == "rdflib" else concat != flat_stmts):
                        chk.fail(rb, inst, f"pyjelly.integrations.{integ}.parse.parse_jelly_grouped:concat", f"concatenated grouped parse differs from the flat parse ({pname}): {pipejob.first_diff(concat, flat_stmts)}")
                    else:
                        chk.ok(rb, inst, {"sinks": len(sinks)})
                    if len(seen_meta) == len(entry["metadata"]):
                        if seen_meta == entry["metadata"]:
                            chk.ok(rc, inst, {"metadata": seen_meta})
                        else:
                            chk.fail(rc, inst, f"pyjelly.integrations.{integ}.parse:frame-metadata", f"metadata seen while consuming each sink {seen_meta} differs from the frames' metadata {entry['metadata']} ({pname})")
    # grouped writing
    wjobs = []
    for integ in ("generic", "rdflib"):
        for physical, logical in ((1, 3), (1, 13), (2, 4), (2, 14), (3, 4), (3, 114)):
            for sizes in ((2, 1), (1, 0, 2), (3,), (0, 2, 1), (0, 0, 1)):
                for fs in (250, 1):
                    if integ == "rdflib" and physical == 3:
                        continue
                    wjobs.append(dict(integ=integ, physical=physical, logical=logical, sizes=sizes, frame_size=fs))
    for sizes in ((2, 1), (1, 2, 1)):
        wjobs.append(dict(integ="rdflib", physical=1, logical=3, sizes=sizes, frame_size=250, dataset_of_graphs=True))
    for integ in ("generic", "rdflib"):
        for physical, logical in ((1, 3), (2, 4)):
            wjobs.append(dict(integ=integ, physical=physical, logical=logical, sizes=(2, 1, 2), frame_size=1, explicit_flow=True))
    for res in pmap(run_grouped_write, wjobs, min_parallel=4):
        if res is None:
            continue
        jb = res["job"]
        inst = f"{jb['integ']} physical={jb['physical']} logical={jb['logical']} sinks={jb['sizes']} frame_size={jb['frame_size']}{' explicit flow object' if jb.get('explicit_flow') else ''}"
        for p in res["paths"]:
            chk.paths += 1
            construct = f"pyjelly.integrations.{jb['integ']}.serialize.grouped_stream_to_frames:one-frame-per-sink"
            if "raise" in p:
                chk.fail(rd, inst, construct, f"raises {p['raise']} at {p['site']}")
            elif p["errors"]:
                chk.fail(rd, inst, construct, f"stream invalid: {p['errors'][:2]}")
            elif jb["sizes"][0] == 0 and list(p["per_frame"]) == [0] + list(p["want"]) and p["rows"] and p["rows"][0] == ["options"]:
                # the specific known defect: input sinks before the first non-empty one leave the pending options row
                # to be flushed as a frame of its own
                chk.fail(rd, inst, f"pyjelly.integrations.{jb['integ']}.serialize.grouped_stream_to_frames:leading-empty-sink", f"input sinks of sizes {list(jb['sizes'])}: the empty sink(s) before the first non-empty one produce a frame holding only the options row ({len(p['per_frame'])} frames for {len(p['want'])} non-empty sinks; a grouped reader sees an extra empty graph)")
            elif [n for n in p["per_frame"]] != p["want"]:
                chk.fail(rd, inst, construct if not jb.get("dataset_of_graphs") else "pyjelly.integrations.rdflib.serialize.triples_stream_frames:one-frame-per-graph", f"statements per frame {p['per_frame']} for input sinks of sizes {list(jb['sizes'])} (expected one frame per non-empty sink: {p['want']}); rows {p['rows']}")
            else:
                chk.ok(rd, inst, {"frames": p["frames"], "per_frame": p["per_frame"]})
