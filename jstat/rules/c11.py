"""C11 — streaming: bounded buffering on write, no read-ahead needed on parse.

Producer/consumer interleaving is observed on abstract traces: the input is an instrumented
generator, the analysed serializer source is driven frame by frame, and at every pull the
pending rows in the flow and the frames already handed over are inspected.  The schedule
quantifier itself (threads, timing) is not decided; the necessary structural conditions are.
"""
from __future__ import annotations

from typing import Any

from .. import corpus as C
from .. import kit as K
from .. import pipe as P
from ..interp import Interp, explore
from ..par import pmap
from ..report import Check
from ..values import Msg, Obj, PyRaise
from . import c10, pipejob

ENTRIES = [
    ("generic.stream_frames(generator)", "generic", "stream_frames"),
    ("generic.flat_stream_to_frames", "generic", "flat"),
    ("rdflib.stream_frames(generator)", "rdflib", "stream_frames"),
    ("rdflib.flat_stream_to_frames", "rdflib", "flat"),
]


def _raises(res: dict) -> set:
    return {p["raise"] for p in res["paths"] if "raise" in p}


def run(prog, job: dict) -> dict:
    from .. import tunables

    return tunables.scaled_or_plain(_run, prog, job, _raises)


def run_file(prog, job: dict) -> dict:
    from .. import tunables

    return tunables.scaled_or_plain(_run_file, prog, job, _raises)


def _run(prog, job: dict) -> dict:
    integ, kind, physical, fs, logical = job["integ"], job["kind"], job["physical"], job["frame_size"], job["logical"]

    def scenario(it: Interp) -> dict:
        k = K.Kit(it)
        arity = 3 if physical == 1 else 4
        n = 7
        stmts = [tuple(C.base(f"s{i}", arity)) for i in range(n)]
        if job.get("workload") == "one-row":
            # after the first statement every statement adds exactly one row (same subject, predicate and graph, a fresh
            # blank-node object): the number of pending rows passes through every value, also exactly frame_size
            n = 9
            first = C.base("s0", arity)
            stmts = [tuple(first[:2] + [P.t_bnode(f"o{i}")] + first[3:]) for i in range(n)]
        if job.get("explicit_flow"):
            # the caller supplies the bounded flow: its own frame_size is the bound, options.frame_size is irrelevant
            fl = k.flow("FlatTriplesFrameFlow" if physical == 1 else "FlatQuadsFrameFlow", frame_size=fs)
            opts = P.make_options(k, logical=None, frame_size=250, generalized=False, rdf_star=False, flow=fl)
        else:
            opts = P.make_options(k, logical=logical, frame_size=fs, generalized=False, rdf_star=False)
        state: dict[str, Any] = {"stream": None, "pending_at_pull": [], "frames_at_pull": []}
        received: list = []

        def flow_len() -> int | None:
            st = state["stream"]
            if st is None:
                streams = [e["obj"] for e in it.events if e["kind"] == "setattr" and e["attr"] == "flow" and isinstance(e.get("obj"), Obj) and isinstance(e.get("value"), Obj)]
                st = streams[-1] if streams else None
            if st is None or "flow" not in st.attrs:
                return None
            return len(st.attrs["flow"].attrs["data"].items)

        def on_pull(i: int, got: bool) -> None:
            state["pending_at_pull"].append((i, flow_len()))
            state["frames_at_pull"].append((i, len(received)))

        objs = [(P.generic_statement if integ == "generic" else P.rdflib_statement)(k, st) for st in stmts]
        gen_in = k.generator(objs, on_pull=on_pull)
        mod = K.GS if integ == "generic" else K.RS
        if kind == "stream_frames":
            if integ == "generic":
                stream = k.stream(P.STREAM_FOR[physical], k.generic_encoder(k.attr(opts, "lookup_preset")), opts)
            else:
                stream = k.method(k.get(K.ST, P.STREAM_FOR[physical]), "for_rdflib", opts)
            state["stream"] = stream
            out = k.call(k.get(mod, "stream_frames"), stream, gen_in)
        else:
            out = k.call(k.get(mod, "flat_stream_to_frames"), gen_in, opts)
        g = it.get_iter(out)
        handover: list = []
        while True:
            ok, frame = it.next_value(g)
            if not ok:
                break
            received.append(frame)
            pulls = sum(1 for e in it.events if e["kind"] == "pull" and e["got"])
            n_stmt = sum(1 for f in received for r in K.Kit.rows_of(f) if "triple" in r.present or "quad" in r.present)
            handover.append((pulls, n_stmt, len(K.Kit.rows_of(frame))))
        st = state["stream"]
        if st is None:
            streams = [e["obj"] for e in it.events if e["kind"] == "setattr" and e["attr"] == "flow" and isinstance(e.get("obj"), Obj) and isinstance(e.get("value"), Obj)]
            st = streams[-1] if streams else None
        flow = st.attrs["flow"] if st is not None else None
        return {
            "pending_at_pull": state["pending_at_pull"],
            "handover": handover,
            "flow_class": flow.cls.name if flow is not None else None,
            "flow_frame_size": flow.attrs.get("frame_size") if flow is not None else None,
            "n": n,
        }

    paths = []
    funcs: set[str] = set()
    for it, outcome in explore(prog, scenario, max_paths=8, generic_strings=True, tunable_scale=job.get("tunable_scale")):
        for e in it.events:
            if e["kind"] == "call":
                funcs.add(f"{e['module']}.{e['func']}")
        paths.append(outcome[1] if outcome[0] == "ok" else {"raise": it.exc_class_name(outcome[1].exc), "site": str(outcome[1].site)})
    return {"job": job, "paths": paths, "funcs": sorted(funcs)}


SINKS = [("in-memory buffer (BytesIO)", "BytesIO"), ("raw unbuffered file/socket (FileIO)", "FileIO"), ("buffered file (open(..., 'wb'))", "BufferedWriter"), ("duck-typed object with write()", None)]


def _run_file(prog, job: dict) -> dict:
    """flat_stream_to_file: what has reached the caller's sink whenever the input is asked for the next statement."""
    integ, physical, fs = job["integ"], job["physical"], job["frame_size"]

    def scenario(it: Interp) -> dict:
        k = K.Kit(it)
        arity = 3 if physical == 1 else 4
        n = 7
        stmts = [tuple(C.base(f"s{i}", arity)) for i in range(n)]
        opts = P.make_options(k, logical=None, frame_size=fs, generalized=False, rdf_star=False)
        sink = K.models.make_output(job["pyclass"])
        at_pull: list = []

        def n_stmt_rows(rows: list) -> int:
            return sum(1 for r in rows if isinstance(r, Msg) and ("triple" in r.present or "quad" in r.present))

        def on_pull(i: int, got: bool) -> None:
            in_sink = sum(n_stmt_rows(K.Kit.rows_of(w[1])) for w in sink.attrs["writes"] if w[0] == "delimited")
            streams = [e["obj"] for e in it.events if e["kind"] == "setattr" and e["attr"] == "flow" and isinstance(e.get("obj"), Obj) and isinstance(e.get("value"), Obj)]
            pending = n_stmt_rows(streams[-1].attrs["flow"].attrs["data"].items) if streams and "flow" in streams[-1].attrs else 0
            at_pull.append((i, in_sink, pending))

        objs = [(P.generic_statement if integ == "generic" else P.rdflib_statement)(k, st) for st in stmts]
        gen_in = k.generator(objs, on_pull=on_pull)
        k.call(k.get(K.GS if integ == "generic" else K.RS, "flat_stream_to_file"), gen_in, sink, opts)
        raw = [w for w in sink.attrs["writes"] if w[0] != "delimited"]
        total = sum(n_stmt_rows(K.Kit.rows_of(w[1])) for w in sink.attrs["writes"] if w[0] == "delimited")
        return {"at_pull": at_pull, "raw_writes": len(raw), "total": total, "n": n, "closed": bool(sink.attrs.get("closed_by_wrapper"))}

    paths = []
    for it, outcome in explore(prog, scenario, max_paths=8, generic_strings=True, tunable_scale=job.get("tunable_scale")):
        paths.append(outcome[1] if outcome[0] == "ok" else {"raise": it.exc_class_name(outcome[1].exc), "site": str(outcome[1].site)})
    return {"job": job, "paths": paths}


def check(chk: Check) -> None:
    ra, rb, rc, rd = "C11.PATH.bounded-pending", "C11.PATH.immediate-handover", "C11.TABLE.frame-size", "C11.PATH.parser-liveness"
    chk.rule(ra, "flat delimited serialisation: from the second statement on, fewer than frame_size rows are pending whenever the input is asked for the next statement", floor=30)
    chk.rule(rb, "every frame is handed to the caller before more input is consumed; input is consumed no further than the statement that completed the frame", floor=30)
    chk.rule(rc, "the flow used for flat delimited output has frame_size == options.frame_size", floor=30)
    chk.rule(rd, "parsing is live: with the source stalling after frame j, all statements of frames 1..j have been yielded before frame j+1 is requested", floor=30)
    chk.trusted += ["generator semantics of the interpreter (producer/consumer interleaving follows the source order of yield statements)"]
    chk.undecided += ["real thread/producer interleavings, timing"]
    jobs = []
    for name, integ, kind in ENTRIES:
        for physical in (1, 2):
            flat_lt = 1 if physical == 1 else 2
            for logical in (flat_lt, None):
                for fs in ((1, 2, 3, 4, 5, 6, 7, 8, 9, 12, 250) if chk.tier == "thorough" else (1, 3, 6, 250)):
                    jobs.append(dict(name=name, integ=integ, kind=kind, physical=physical, frame_size=fs, logical=logical))
            for fs in (2, 3, 4):
                jobs.append(dict(name=name + " [one row per statement]", integ=integ, kind=kind, physical=physical, frame_size=fs, logical=flat_lt, workload="one-row"))
            if kind == "stream_frames":
                for fs in (1, 3, 6):
                    jobs.append(dict(name=name + " [caller-supplied flow]", integ=integ, kind=kind, physical=physical, frame_size=fs, logical="explicit-flow", explicit_flow=True))
    # thresholds written in the source (batch sizes, buffer depths) scaled below the 7-9 statements of the workloads
    from .. import tunables

    jobs += [dict(jb, tunable_scale=tunables.SCALE, name=jb["name"] + f" [tunables={tunables.SCALE}]") for jb in jobs if jb["frame_size"] in (3, 6)]
    for res in pmap(run, jobs):
        if res is None:
            continue
        chk.functions.update(res["funcs"])
        jb = res["job"]
        inst = f"{jb['name']} physical={jb['physical']} logical={jb['logical']} frame_size={jb['frame_size']}"
        for p in res["paths"]:
            chk.paths += 1
            if "raise" in p:
                chk.fail(ra, inst, f"pyjelly.integrations.{jb['integ']}.serialize:{jb['kind']}", f"raises {p['raise']} at {p['site']}")
                continue
            fs = jb["frame_size"]
            # frame size reaches the flow
            if p["flow_frame_size"] == fs:
                chk.ok(rc, inst, {"flow": p["flow_class"], "frame_size": fs})
            else:
                chk.fail(rc, inst, "pyjelly.serialize.streams.Stream.infer_flow:frame_size" if jb["kind"] != "x" else "", f"options.frame_size={fs} but the {p['flow_class']} used for flat delimited output has frame_size={p['flow_frame_size']}")
            # bounded pending (from the second statement on)
            worst = [(i, n) for i, n in p["pending_at_pull"] if i >= 1 and n is not None and n >= fs]
            if worst:
                chk.fail(ra, inst, "pyjelly.serialize.flows.BoundedFrameFlow.frame_from_bounds:bound" if p["flow_frame_size"] == fs else "pyjelly.serialize.streams.Stream.infer_flow:frame_size", f"{worst[0][1]} rows are pending (frame_size {fs}) when statement #{worst[0][0] + 1} is requested from the input")
            else:
                chk.ok(ra, inst, {"pending_at_pull": p["pending_at_pull"][:5]})
            # immediate hand-over, no read-ahead
            bad = [(pulls, n_stmt) for pulls, n_stmt, _rows in p["handover"] if pulls != n_stmt]
            if bad:
                chk.fail(rb, inst, f"pyjelly.integrations.{jb['integ']}.serialize:{jb['kind']}:handover", f"when a frame reaches the caller {bad[0][0]} statements were consumed from the input but the frames received so far contain {bad[0][1]}: frames are held back or input is read ahead")
            elif not p["handover"]:
                chk.fail(rb, inst, f"pyjelly.integrations.{jb['integ']}.serialize:{jb['kind']}:handover", "no frame is ever handed to the caller")
            else:
                chk.ok(rb, inst, {"handover(pulls, statements, rows)": p["handover"][:4]})
    # file entry points: the caller's sink is where frames are handed over
    re_ = "C11.PATH.sink-handover"
    chk.rule(re_, "flat_stream_to_file: whenever the input is asked for the next statement, every statement consumed so far is either pending in the flow or already written to the caller's sink (nothing is parked in a private buffer)", floor=30)
    fjobs = [dict(integ=integ, physical=physical, frame_size=fs, pyclass=pyc, sink=sname) for integ in ("generic", "rdflib") for physical in (1, 2) for fs in ((1, 2, 3, 5, 8) if chk.tier == "thorough" else (1, 3)) for sname, pyc in SINKS]
    fjobs += [dict(jb, tunable_scale=tunables.SCALE, sink=jb["sink"] + f" [tunables={tunables.SCALE}]") for jb in fjobs if jb["frame_size"] == 3]
    for res in pmap(run_file, fjobs):
        if res is None:
            continue
        jb = res["job"]
        inst = f"{jb['integ']}.flat_stream_to_file physical={jb['physical']} frame_size={jb['frame_size']} sink={jb['sink']}"
        construct = f"pyjelly.integrations.{jb['integ']}.serialize.flat_stream_to_file"
        for p in res["paths"]:
            chk.paths += 1
            if "raise" in p:
                chk.fail(re_, inst, construct, f"raises {p['raise']} at {p['site']}")
                continue
            held = [(i, in_sink, pending) for i, in_sink, pending in p["at_pull"] if in_sink + pending != i]
            if held:
                i, in_sink, pending = held[0]
                chk.fail(re_, inst, construct + ":held-back", f"when statement #{i + 1} is requested, {i} statements were consumed, {pending} are pending in the flow but only {in_sink} have reached the caller's {jb['sink']}: complete frames are parked in a private buffer")
            elif p["total"] != p["n"]:
                chk.fail(re_, inst, construct + ":lost", f"{p['total']} of {p['n']} statements reached the sink by the time the call returned")
            else:
                chk.ok(re_, inst, {"at_pull(consumed, in sink, pending)": p["at_pull"][:4]})
    # parser liveness (shares the lazy-prefix scenario of C10 with a stalling source)
    ljobs = []
    for physical in (1, 2, 3):
        for j in (1, 2, 4):
            for integ in ("generic", "rdflib"):
                for parser in ("parse_jelly_flat", "parse_jelly_grouped"):
                    for src in ("seekable", "raw-nonseekable", "buffered-nonseekable"):
                        if src != "seekable" and (physical != 1 or j == 4):
                            continue
                        ljobs.append(dict(physical=physical, complete=j, cut="torn", integ=integ, parser=parser, source=src))
    for res in pmap(c10.run, ljobs):
        if res is None:
            continue
        jb = res["job"]
        inst = f"{jb['integ']}.{jb['parser']} physical={jb['physical']} {jb.get('source', 'seekable')} source stalls after frame {jb['complete']}" + (f" [tunables={jb['tunable_scale']}]" if jb.get("tunable_scale") else "")
        for p in res["paths"]:
            chk.paths += 1
            flat = tuple(x for s in p["got"] for x in s) if jb["parser"].endswith("grouped") else p["got"]
            if "error" not in p and flat == p["want"]:
                chk.ok(rd, inst, {"yielded_before_stall": len(flat)})
            else:
                chk.fail(rd, inst, f"pyjelly.integrations.{jb['integ']}.parse.{jb['parser']}:read-ahead", f"only {len(flat)} of {len(p.get('want', ()))} statements of the delivered frames were yielded before frame {jb['complete'] + 1} was requested")
