"""C06 — no accepted serializer configuration silently drops statements.

Conditional constant propagation over the complete configuration lattice: every point is pushed
through the real source of Stream.__init__/infer_flow/flow_for_type/FrameFlow.* and the entry
point; statements are symbolic.  Verdict per point: RAISES <exc> | DRAINED | DROPS.
"""
from __future__ import annotations

import os
from concurrent.futures import ProcessPoolExecutor
from typing import Any

from .. import kit as K
from ..errors import AnalysisError
from ..interp import Interp, explore
from ..report import Check
from ..values import AList, ExtObj, Msg, Obj, PyRaise
from .. import models_rdflib as R

STREAMS = ("TripleStream", "QuadStream", "GraphStream")
BOUNDED = ("BoundedFrameFlow", "FlatTriplesFrameFlow", "FlatQuadsFrameFlow")
UNBOUNDED = ("ManualFrameFlow", "GraphsFrameFlow", "DatasetsFrameFlow")
FRAME_SIZES = (1, 7, 250)

_PROGRAM = None


def lattice(prog, tier: str) -> list[dict]:
    lts = sorted(prog.schema.enums["LogicalStreamType"].values.values())
    pts: list[dict] = []
    for cls in STREAMS:
        for delim in (True, False):
            for lt in lts:
                for fs in FRAME_SIZES:
                    pts.append(dict(cls=cls, delimited=delim, lt=lt, fs=fs, flow="inferred", flow_lt=None))
            for fc in BOUNDED + UNBOUNDED:
                sizes = FRAME_SIZES if fc in BOUNDED else (250,)
                for flt in [None] + lts:
                    for fs in sizes:
                        pts.append(dict(cls=cls, delimited=delim, lt=0, fs=fs, flow=fc, flow_lt=flt))
    # namespace declarations share the flow with the statements: inferred flows, small frames
    for cls in STREAMS:
        for delim in (True, False):
            for lt in lts:
                for fs in (1, 3):
                    pts.append(dict(cls=cls, delimited=delim, lt=lt, fs=fs, flow="inferred", flow_lt=None, ns=True))
    return pts


# direct-stream entry points: (name, integration, input kind)
DIRECT = [
    ("generic.stream_frames(sink)", "generic", "sink"),
    ("generic.stream_frames(generator)", "generic", "generator"),
    ("rdflib.stream_frames(store)", "rdflib", "store"),
    ("rdflib.stream_frames(generator)", "rdflib", "generator"),
    ("rdflib.RDFLibJellySerializer.serialize(stream=)", "rdflib", "plugin"),
]
# option-driven entry points (stream class is guessed by pyjelly)
GUESSED = [
    ("generic.flat_stream_to_frames", "generic", "flat_frames"),
    ("generic.flat_stream_to_file", "generic", "flat_file"),
    ("generic.grouped_stream_to_frames", "generic", "grouped_frames"),
    ("generic.grouped_stream_to_file", "generic", "grouped_file"),
    ("generic.GenericStatementSink.serialize", "generic", "sink_serialize"),
    ("rdflib.flat_stream_to_frames", "rdflib", "flat_frames"),
    ("rdflib.flat_stream_to_file", "rdflib", "flat_file"),
    ("rdflib.grouped_stream_to_frames", "rdflib", "grouped_frames"),
    ("rdflib.grouped_stream_to_file", "rdflib", "grouped_file"),
    ("rdflib.RDFLibJellySerializer.serialize(options=)", "rdflib", "plugin_options"),
]


def _specs(quads: bool, n: int) -> list[tuple]:
    """Neutral statement specs (jstat.pipe): IRI subject/predicate, plain literal object, IRI graph."""
    from .. import pipe as P

    out = []
    for i in range(n):
        st = [P.t_iri(f"s{i}"), P.t_iri(f"p{i}"), P.t_lit(f"o{i}")]
        if quads:
            st.append(P.t_iri(f"g{i}"))
        out.append(tuple(st))
    return out


def _generic_statements(k: K.Kit, quads: bool, n: int) -> list:
    from .. import pipe as P

    return [P.generic_statement(k, st) for st in _specs(quads, n)]


def _rdflib_statements(k: K.Kit, quads: bool, n: int) -> list:
    from .. import pipe as P

    return [P.rdflib_statement(k, st) for st in _specs(quads, n)]


def _rdflib_store(k: K.Kit, quads: bool, n: int, namespaces: list | None = None) -> ExtObj:
    from .. import pipe as P

    return P.rdflib_store_for(k, 2 if quads else 1, _specs(quads, n), namespaces)


NS_BINDINGS = [("n1", ("nsone", "#")), ("n2", ("nstwo", "/")), ("", ("nsthree", "/"))]


def _bindings(k: K.Kit, pt: dict, integ: str) -> list | None:
    if not pt.get("ns"):
        return None
    from ..values import Atom, sstr

    out = []
    for prefix, (tag, sep) in NS_BINDINGS:
        iri = sstr(Atom(tag + ".scheme", nosep=True), "/", Atom(tag + ".path", nosep=True), sep)
        out.append((prefix, k.new(K.GK, "IRI", iri) if integ == "generic" else iri))
    return out


def _mk_options(k: K.Kit, pt: dict) -> Any:
    params = k.params(delimited=pt["delimited"], namespace_declarations=True) if pt.get("ns") else k.params(delimited=pt["delimited"])
    kw: dict[str, Any] = dict(params=params, frame_size=pt["fs"], logical_type=pt["lt"], lookup_preset=k.preset())
    if pt["flow"] != "inferred":
        fkw: dict[str, Any] = {}
        if pt["flow_lt"] is not None:
            fkw["logical_type"] = pt["flow_lt"]
        if pt["flow"] in BOUNDED:
            fkw["frame_size"] = pt["fs"]
        kw["flow"] = k.flow(pt["flow"], **fkw)
    return k.options(**kw)


def _count_statement_rows(frames: list) -> int:
    n = 0
    for f in frames:
        if not isinstance(f, Msg):
            continue
        for row in K.Kit.rows_of(f):
            if "triple" in row.present or "quad" in row.present:
                n += 1
    return n


def _impl_function(it: Interp) -> str:
    """The *_stream_frames implementation the entry point dispatched to (last one entered)."""
    last = ""
    for e in it.events:
        if e["kind"] == "call" and e["func"].endswith("_stream_frames") and e["module"].endswith(".serialize"):
            last = f"{e['module']}.{e['func']}"
    return last


def run_point(prog, entry: tuple, pt: dict, n_stmts: int = 2) -> dict:
    """One lattice point through one entry point; returns a JSON-able verdict record."""
    name, integ, kind = entry

    def scenario(it: Interp) -> dict:
        k = K.Kit(it)
        quads = pt["cls"] != "TripleStream" if "cls" in pt else pt.get("quads", False)
        stage = "construct"
        stream = None
        try:
            opts = _mk_options(k, pt)
            if kind in ("sink", "generator", "store", "plugin"):
                if integ == "generic":
                    enc = k.generic_encoder(k.attr(opts, "lookup_preset"))
                    stream = k.stream(pt["cls"], enc, opts)
                else:
                    stream = k.method(k.get(K.ST, pt["cls"]), "for_rdflib", opts)
            stage = "run"
            nsb = _bindings(k, pt, integ)
            frames: list = []
            out = None
            if integ == "generic":
                stmts = _generic_statements(k, quads, n_stmts)
                if kind == "sink":
                    frames = it.drain(k.call(k.get(K.GS, "stream_frames"), stream, k.g_sink(stmts, nsb)))
                elif kind == "generator":
                    frames = it.drain(k.call(k.get(K.GS, "stream_frames"), stream, k.generator(stmts)))
                elif kind == "flat_frames":
                    frames = it.drain(k.call(k.get(K.GS, "flat_stream_to_frames"), k.generator(stmts), opts))
                elif kind == "flat_file":
                    out = k.output()
                    k.call(k.get(K.GS, "flat_stream_to_file"), k.generator(stmts), out, opts)
                elif kind == "grouped_frames":
                    frames = it.drain(k.call(k.get(K.GS, "grouped_stream_to_frames"), k.generator([k.g_sink(stmts[:1], nsb), k.g_sink(stmts[1:], nsb)] if len(stmts) > 1 else [k.g_sink(stmts, nsb)]), opts))
                elif kind == "grouped_file":
                    out = k.output()
                    k.call(k.get(K.GS, "grouped_stream_to_file"), k.generator([k.g_sink(stmts[:1], nsb), k.g_sink(stmts[1:], nsb)] if len(stmts) > 1 else [k.g_sink(stmts, nsb)]), out, options=opts)
                elif kind == "sink_serialize":
                    out = k.output()
                    k.method(k.g_sink(stmts, nsb), "serialize", out)
            else:
                if kind == "store":
                    frames = it.drain(k.call(k.get(K.RS, "stream_frames"), stream, _rdflib_store(k, quads, n_stmts, nsb)))
                elif kind == "generator":
                    frames = it.drain(k.call(k.get(K.RS, "stream_frames"), stream, k.generator(_rdflib_statements(k, quads, n_stmts))))
                elif kind == "plugin":
                    out = k.output()
                    ser = k.new(K.RS, "RDFLibJellySerializer", _rdflib_store(k, quads, n_stmts, nsb))
                    k.method(ser, "serialize", out, stream=stream, options=opts)
                elif kind == "plugin_options":
                    out = k.output()
                    ser = k.new(K.RS, "RDFLibJellySerializer", _rdflib_store(k, quads, n_stmts, nsb))
                    k.method(ser, "serialize", out, options=opts)
                elif kind == "flat_frames":
                    frames = it.drain(k.call(k.get(K.RS, "flat_stream_to_frames"), k.generator(_rdflib_statements(k, quads, n_stmts)), opts))
                elif kind == "flat_file":
                    out = k.output()
                    k.call(k.get(K.RS, "flat_stream_to_file"), k.generator(_rdflib_statements(k, quads, n_stmts)), out, opts)
                elif kind == "grouped_frames":
                    frames = it.drain(k.call(k.get(K.RS, "grouped_stream_to_frames"), k.generator([_rdflib_store(k, quads, n_stmts, nsb)]), opts))
                elif kind == "grouped_file":
                    out = k.output()
                    k.call(k.get(K.RS, "grouped_stream_to_file"), k.generator([_rdflib_store(k, quads, n_stmts, nsb)]), out, options=opts)
            if out is not None:
                frames = [f for _m, f in k.written_frames(out)]
        except PyRaise as pr:
            return {"verdict": "RAISES", "exc": it.exc_class_name(pr.exc), "stage": stage}
        emitted = _count_statement_rows(frames)
        from .. import refdec

        from .. import pipe as P
        from ..freeze import freeze

        ref = refdec.decode(it.schema, [f for f in frames if isinstance(f, Msg)])
        decoded = len([x for x in ref.items if x[0] != "ns"])
        want_items = P.expected_items(_specs(quads, n_stmts), 0)
        triples_stream_for_quads = quads and ref.options is not None and ref.options.get("physical_type") == 1 and int(pt.get("lt") or 0) % 10 == 3
        if triples_stream_for_quads:
            # documented behaviour of guess_stream: a GRAPHS-based logical type requested for quads/a Dataset selects a
            # TripleStream ("RDF graph stream": a stream of unnamed graphs) - graph names are not part of that stream
            want_items = [("triple",) + tuple(x[1:4]) for x in want_items]
        want = freeze(want_items)
        got = freeze([x for x in ref.items if x[0] != "ns"])
        if pt.get("cls") == "GraphStream" or (integ == "rdflib" and quads) or kind in ("store", "plugin", "plugin_options", "grouped_frames", "grouped_file") and integ == "rdflib":
            same_content = sorted(map(repr, got)) == sorted(map(repr, want))
        else:
            same_content = got == want
        if pt.get("cls") == "TripleStream" and quads is False:
            pass
        rows_appended = sum(e.get("added", 0) for e in it.events if e["kind"] == "flow")
        rows_emitted = sum(len(K.Kit.rows_of(f)) for f in frames if isinstance(f, Msg))
        # the stream used (guessed entry points create it inside pyjelly): find it through the events
        left = None
        streams = [e["obj"] for e in it.events if e["kind"] == "setattr" and e["attr"] == "flow" and isinstance(e.get("obj"), Obj) and isinstance(e.get("value"), Obj)]
        if stream is None and streams:
            stream = streams[-1]
        flow_cls = None
        flow_lt = None
        if stream is not None and "flow" in stream.attrs:
            fl = stream.attrs["flow"]
            left = len(fl.attrs["data"].items)
            flow_cls = fl.cls.name
            flow_lt = fl.attrs.get("logical_type")
        ok = emitted == n_stmts and (left in (0, None)) and rows_emitted == rows_appended and not ref.errors and decoded == n_stmts and same_content
        return {
            "verdict": "DRAINED" if ok else "DROPS",
            "emitted_statement_rows": emitted,
            "submitted": n_stmts,
            "rows_left_in_flow": left,
            "rows_appended": rows_appended,
            "rows_emitted": rows_emitted,
            "reference_decoder_errors": ref.errors[:2],
            "reference_decoder_statements": decoded,
            "reference_decoder_content_equal": same_content,
            "frames": len(frames),
            "flow_class": flow_cls,
            "flow_logical_type": flow_lt,
            "impl": _impl_function(it),
            "stream_class": stream.cls.name if stream is not None else None,
        }

    results = []
    paths = 0
    funcs: set[str] = set()
    for it, outcome in explore(prog, scenario, max_paths=64, generic_strings=True):
        paths += 1
        for e in it.events:
            if e["kind"] == "call":
                funcs.add(f"{e['module']}.{e['func']}")
        if outcome[0] == "raise":  # scenario() catches PyRaise itself
            raise AnalysisError(f"C06: uncaught {outcome[1]}")
        results.append(outcome[1])
    # all paths of one point must agree (the scenario has no data-dependent branching that matters)
    worst = next((r for r in results if r["verdict"] == "DROPS"), results[0])
    worst = dict(worst)
    worst["paths"] = paths
    worst["entry"] = name
    worst["point"] = pt
    worst["_funcs"] = sorted(funcs)
    return worst


def _work(job: tuple) -> list[dict]:
    global _PROGRAM
    from ..loader import load_program

    if _PROGRAM is None:
        _PROGRAM = load_program()
    out = []
    for entry, pt, n in job:
        try:
            out.append(run_point(_PROGRAM, entry, pt, n))
        except AnalysisError as e:
            out.append({"__analysis_error__": f"{entry[0]} {pt}: {e}"[:400]})
    return out


def guessed_lattice(prog) -> list[dict]:
    lts = sorted(prog.schema.enums["LogicalStreamType"].values.values())
    pts = []
    for quads in (False, True):
        for delim in (True, False):
            for lt in lts:
                for fs in FRAME_SIZES:
                    pts.append(dict(quads=quads, delimited=delim, lt=lt, fs=fs, flow="inferred", flow_lt=None))
                for fs in (1, 3):
                    pts.append(dict(quads=quads, delimited=delim, lt=lt, fs=fs, flow="inferred", flow_lt=None, ns=True))
    return pts


def check(chk: Check) -> None:
    global _PROGRAM
    prog = chk.program
    _PROGRAM = prog
    chk.rule("C06.PATH.drained", "for every lattice point: construction/serialisation raises, or every statement row was emitted and the flow is empty at exit", floor=500)
    chk.rule("C06.TABLE.writer", "the rdflib plugin writes length-prefixed frames iff params.delimited", floor=4)
    chk.exhaustive = True
    chk.trusted += ["models of protobuf messages, UserList, dataclasses (jstat.models.TRUSTED_FACTS)", "rdflib Graph/Dataset iteration model (jstat.models_rdflib)"]
    chk.undecided += ["that the emitted bytes parse back to the input (C01/C02)"]

    jobs: list[tuple] = []
    n_shapes = (2,) if chk.tier == "quick" else (1, 2, 3)
    for pt in lattice(prog, chk.tier):
        for entry in DIRECT:
            if pt.get("ns") and entry[2] == "generator":
                continue  # a statement generator has no bindings
            for n in n_shapes:
                jobs.append((entry, pt, n))
    for pt in guessed_lattice(prog):
        for entry in GUESSED:
            if entry[2] == "sink_serialize" and not (pt["delimited"] and pt["lt"] == 0 and pt["fs"] == 250):
                continue  # takes no options
            if pt.get("ns") and entry[2] in ("flat_frames", "flat_file"):
                continue  # a statement generator has no bindings
            for n in n_shapes:
                jobs.append((entry, pt, n))
    workers = min(int(os.environ.get("JSTAT_WORKERS", "16")), os.cpu_count() or 1)
    chunks = [jobs[i::workers * 4] for i in range(workers * 4)]
    results: list[dict] = []
    if workers > 1 and not os.environ.get("JSTAT_SERIAL"):
        with ProcessPoolExecutor(max_workers=workers) as ex:
            for part in ex.map(_work, chunks):
                results.extend(part)
    else:
        for c in chunks:
            results.extend(_work(c))

    tally: dict[str, int] = {}
    for r in results:
        if "__analysis_error__" in r:
            if len(chk.part_errors) < 5:
                chk.part_errors.append(r["__analysis_error__"])
            continue
        chk.paths += r["paths"]
        chk.functions.update(r.pop("_funcs"))
        pt = r["point"]
        inst = f"{r['entry']}|{pt}|n={r['submitted'] if 'submitted' in r else ''}"
        tally[r["verdict"]] = tally.get(r["verdict"], 0) + 1
        if r["verdict"] == "DROPS":
            if r["emitted_statement_rows"] != r["submitted"] or r["rows_left_in_flow"] not in (0, None):
                why = "end-of-input-flush"
            elif r["rows_appended"] != r["rows_emitted"]:
                why = "rows-lost"
            else:
                why = "decodes-differently"
            construct = (r.get("impl") or r["entry"]) + ":" + why
            chk.fail(
                "C06.PATH.drained",
                inst,
                construct,
                f"accepted configuration returns normally with {r['submitted'] - r['emitted_statement_rows']} of {r['submitted']} statements not emitted "
                f"({r['rows_left_in_flow']} rows left in {r['flow_class']} logical_type={r['flow_logical_type']}; {r['rows_appended']} rows entered the flow, {r['rows_emitted']} reached the caller; an independent decoder reads {r['reference_decoder_statements']} statements ({'the submitted ones' if r['reference_decoder_content_equal'] else 'DIFFERENT from the submitted ones'}){', errors ' + str(r['reference_decoder_errors']) if r['reference_decoder_errors'] else ''}): entry {r['entry']} point {pt}",
                r,
            )
        else:
            chk.ok("C06.PATH.drained", inst, r, nontrivial=True)
    chk.note(f"verdict tally: {tally}")
    chk.part("writer-table", lambda: _writer_table(chk))
    chk.part("malformed", lambda: _malformed(chk))


def _writer_table(chk: Check, rule: str = "C06.TABLE.writer") -> None:
    """C06.TABLE.writer: write function vs delimited flag in RDFLibJellySerializer.serialize."""
    prog = chk.program
    for delim in (True, False):
        for quads in (False, True):
            for logical in (None, 0, 1, 2, 3, 4, 13, 14, 114):

                def scenario(it: Interp) -> Any:
                    k = K.Kit(it)
                    kw = {} if logical is None else {"logical_type": logical}
                    opts = k.options(params=k.params(delimited=delim), lookup_preset=k.preset(), **kw)
                    out = k.output()
                    ser = k.new(K.RS, "RDFLibJellySerializer", _rdflib_store(k, quads, 2))
                    k.method(ser, "serialize", out, options=opts)
                    return [m for m, _f in k.written_frames(out)], [e for e in it.events if e["kind"] == "serialize"]

                for it, outcome in explore(prog, scenario, max_paths=16, generic_strings=True):
                    chk.paths += 1
                    inst = f"delimited={delim} quads={quads} logical_type={logical}"
                    if outcome[0] != "ok":
                        if logical is None or logical == (2 if quads else 1):
                            chk.fail(rule, inst, "pyjelly.integrations.rdflib.serialize.RDFLibJellySerializer.serialize", f"raises {it.exc_class_name(outcome[1].exc)} at {outcome[1].site}")
                        else:
                            chk.ok(rule, inst, {"refused": it.exc_class_name(outcome[1].exc)})
                        continue
                    modes, ser_events = outcome[1]
                    want = "delimited" if delim else "single"
                    if not modes or any(m != want for m in modes):
                        chk.fail(rule, inst, "pyjelly.integrations.rdflib.serialize.RDFLibJellySerializer.serialize:writer-choice", f"params.delimited={delim} but frames were written as {modes}")
                    elif not delim and len(modes) != 1:
                        chk.fail(rule, inst, "pyjelly.integrations.rdflib.serialize.RDFLibJellySerializer.serialize:writer-choice", f"non-delimited output consists of {len(modes)} frames written back to back (a reader sees one merged frame)")
                    else:
                        chk.ok(rule, inst, {"delimited": delim, "writes": modes})


def _malformed(chk: Check) -> None:
    """C06.PATH.refuse-malformed: a 3-term statement among the quads of a QUADS/GRAPHS stream cannot be honoured."""
    from .. import pipe as P

    prog = chk.program
    rule = "C06.PATH.refuse-malformed"
    chk.rule(rule, "a QUADS/GRAPHS serialisation that meets a statement with only three terms raises; it never returns normally with fewer statements written than submitted", floor=16)
    kinds = [("generic", kd) for kd in ("sink", "generator", "flat_file", "flat_frames", "grouped_file", "sink_serialize")] + [("rdflib", kd) for kd in ("generator", "flat_file", "flat_frames")]
    for integ, kind in kinds:
        for cls in ("QuadStream", "GraphStream"):
            for pos in (0, 1, 2):
                if pos == 0 and kind not in ("sink", "generator"):
                    continue  # the guessed entry points pick the stream class from the first statement

                def scenario(it: Interp) -> Any:
                    k = K.Kit(it)
                    specs = _specs(True, 3)
                    mk = P.generic_statement if integ == "generic" else P.rdflib_statement
                    stmts = [mk(k, sp if i != pos else sp[:3]) for i, sp in enumerate(specs)]
                    opts = _mk_options(k, dict(delimited=True, fs=250, lt=0, flow="inferred", flow_lt=None))
                    mod = K.GS if integ == "generic" else K.RS
                    out = None
                    frames: list = []
                    if kind in ("sink", "generator"):
                        if integ == "generic":
                            stream = k.stream(cls, k.generic_encoder(k.attr(opts, "lookup_preset")), opts)
                        else:
                            stream = k.method(k.get(K.ST, cls), "for_rdflib", opts)
                        data = k.g_sink(stmts) if kind == "sink" else k.generator(stmts)
                        frames = it.drain(k.call(k.get(mod, "stream_frames"), stream, data))
                    elif kind == "flat_file":
                        out = k.output()
                        k.call(k.get(mod, "flat_stream_to_file"), k.generator(stmts), out, opts)
                    elif kind == "flat_frames":
                        frames = it.drain(k.call(k.get(mod, "flat_stream_to_frames"), k.generator(stmts), opts))
                    elif kind == "grouped_file":
                        out = k.output()
                        k.call(k.get(mod, "grouped_stream_to_file"), k.generator([k.g_sink(stmts)]), out, options=opts)
                    else:
                        out = k.output()
                        k.method(k.g_sink(stmts), "serialize", out)
                    if out is not None:
                        frames = [f for _m, f in k.written_frames(out)]
                    return _count_statement_rows(frames), _impl_function(it)

                inst = f"{integ} {kind} {cls} three-term statement at position {pos}"
                for it, o in explore(prog, scenario, max_paths=8, generic_strings=True):
                    chk.paths += 1
                    if o[0] != "ok":
                        chk.ok(rule, inst, {"refused": it.exc_class_name(o[1].exc)})
                    elif o[1][0] >= 3:
                        chk.ok(rule, inst, {"written": o[1][0]})
                    else:
                        chk.fail(rule, inst, (o[1][1] or f"pyjelly.integrations.{integ}.serialize") + ":malformed-statement", f"returns normally with {o[1][0]} of 3 statements written: the statement with three terms silently ends the output instead of raising")
