"""C05 — writer and reader lookup tables stay mirrored for all histories.

Least fixpoint of the reachable joint (LookupEncoder, LookupDecoder) states for table sizes
1..Smax, computed by pushing every state through the *source* of the index rules with the abstract
interpreter (all values are constants of a finite domain: key names up to renaming, indices
0..S).  At every transition: the wire values the writer emits resolve on the reader to the key
the writer meant, ids lie in [0, S], the writer holds at most S entries.  Because the state space
is finite and closed under the transitions, this covers histories of every length.
"""
from __future__ import annotations

import os

import copy
from typing import Any

from .. import kit as K
from ..errors import AnalysisError
from ..interp import Interp
from ..report import Check
from ..values import ADict, AList, BoundMethod, ClassInfo, ExtObj, Obj, PyRaise, Unknown

ROLES = {
    # role: (writer reference method, reader reference method, "" allowed as key)
    "name": ("encode_name_term_index", "decode_name_term_index", True),
    "prefix": ("encode_prefix_term_index", "decode_prefix_term_index", True),
    "datatype": ("encode_datatype_term_index", "decode_datatype_term_index", False),
}


def _clone(v: Any, memo: dict, ren: dict) -> Any:
    """Deep copy of the mutable heap below v (classes/functions shared), renaming key strings."""
    if isinstance(v, str):
        return ren.get(v, v)
    if v is None or isinstance(v, (bool, int, float, bytes)):
        return v
    if isinstance(v, tuple):
        return tuple(_clone(x, memo, ren) for x in v)
    if id(v) in memo:
        return memo[id(v)]
    if isinstance(v, Obj):
        o = Obj(v.cls, {}, None)
        memo[id(v)] = o
        o.attrs = {k: _clone(x, memo, ren) for k, x in v.attrs.items()}
        if v.tuple_items is not None:
            o.tuple_items = tuple(_clone(x, memo, ren) for x in v.tuple_items)
        return o
    if isinstance(v, AList):
        l = AList([], kind=v.kind, maxlen=v.maxlen)
        memo[id(v)] = l
        l.items = [_clone(x, memo, ren) for x in v.items]
        return l
    if isinstance(v, ADict):
        d = ADict([], kind=v.kind)
        memo[id(v)] = d
        d.pairs = [[_clone(a, memo, ren), _clone(b, memo, ren)] for a, b in v.pairs]
        return d
    if isinstance(v, BoundMethod):
        b = BoundMethod(_clone(v.self_obj, memo, ren), v.func)
        memo[id(v)] = b
        return b
    return v  # ClassInfo, FuncRef, ... are immutable program entities


def _freeze(v: Any, seen: dict) -> Any:
    if v is None or isinstance(v, (bool, int, float, bytes, str)):
        return v
    if isinstance(v, tuple):
        return tuple(_freeze(x, seen) for x in v)
    if id(v) in seen:
        return ("ref", seen[id(v)])
    seen[id(v)] = len(seen)
    if isinstance(v, Obj):
        return ("obj", v.cls.qualname, tuple((k, _freeze(x, seen)) for k, x in sorted(v.attrs.items())))
    if isinstance(v, AList):
        return (v.kind, v.maxlen, tuple(_freeze(x, seen) for x in v.items))
    if isinstance(v, ADict):
        return (v.kind, tuple((_freeze(a, seen), _freeze(b, seen)) for a, b in v.pairs))
    if isinstance(v, Unknown):
        raise AnalysisError(f"C05: unknown value {v!r} inside lookup state")
    return repr(v)


def _strings(fz: Any, out: list) -> None:
    if isinstance(fz, str):
        if fz.startswith("key") and fz not in out:
            out.append(fz)
    elif isinstance(fz, tuple):
        for x in fz:
            _strings(x, out)


def _canon(enc: Any, dec: Any) -> tuple[Any, Any, Any, list[str]]:
    fz = _freeze((enc, dec), {})
    keys: list[str] = []
    _strings(fz, keys)
    ren = {k: f"key{i}" for i, k in enumerate(keys)}
    if any(a != b for a, b in ren.items()):
        memo: dict = {}
        enc2, dec2 = _clone((enc, dec), memo, ren)
        fz = _freeze((enc2, dec2), {})
        return enc2, dec2, fz, [ren[k] for k in keys]
    return enc, dec, fz, keys


def _writer_entries(enc: Any) -> int:
    """Number of live writer entries = size of the largest mapping reachable from the encoder."""
    best = 0
    stack, seen = [enc], set()
    while stack:
        v = stack.pop()
        if id(v) in seen:
            continue
        seen.add(id(v))
        if isinstance(v, Obj):
            stack.extend(v.attrs.values())
        elif isinstance(v, ADict):
            best = max(best, len(v.pairs))
        elif isinstance(v, AList):
            stack.extend(v.items)
    return best


def explore_role(chk: Check, it: Interp, role: str, size: int, max_states: int) -> dict:
    k = K.Kit(it)
    wref, rref, empty_ok = ROLES[role]
    rule = "C05.FIXPOINT.mirror"
    enc0 = k.new(K.LK, "LookupEncoder", lookup_size=size)
    dec0 = k.new(K.PL, "LookupDecoder", lookup_size=size)
    for o, names in ((enc0, ("encode_entry_index", wref)), (dec0, ("assign_entry", rref))):
        for n in names:
            it.getattr(o, n)  # anchors: AttributeError -> PyRaise -> reported below
    enc0, dec0, fz0, _ = _canon(enc0, dec0)
    seen = {fz0}
    work = [(enc0, dec0, [])]
    transitions = 0
    while work:
        enc, dec, hist = work.pop()
        _, _, _, present = _canon(enc, dec)
        fresh = f"key{len(present)}"
        ops = list(present) + ([fresh] if len(present) < size + 2 else []) + ([""] if empty_ok else [])
        for key in ops:
            memo: dict = {}
            e2, d2 = _clone((enc, dec), memo, {})
            n_dec_before = len(it.decisions)
            step = {"role": role, "size": size, "history": hist[-6:], "key": key}
            construct = f"pyjelly.serialize.lookup.LookupEncoder.{wref}<->pyjelly.parse.lookup.LookupDecoder.{rref}"
            try:
                entry = k.method(e2, "encode_entry_index", key)
                if entry is not None:
                    if not (isinstance(entry, int) and 0 <= entry <= size):
                        chk.fail("C05.TABLE.range", f"{role} S={size} entry id", "pyjelly.serialize.lookup.LookupEncoder.encode_entry_index", f"entry id {entry!r} outside [0, {size}] after history {hist[-6:]} + {key!r}", step)
                    k.method(d2, "assign_entry", index=entry, value=key)
                wire = k.method(e2, wref, key)
                if not (isinstance(wire, int) and 0 <= wire <= size):
                    chk.fail("C05.TABLE.range", f"{role} S={size} reference id", f"pyjelly.serialize.lookup.LookupEncoder.{wref}", f"reference id {wire!r} outside [0, {size}] after history {hist[-6:]} + {key!r}", step)
                got = k.method(d2, rref, wire)
            except PyRaise as pr:
                chk.fail(rule, f"{role} S={size} {hist[-4:]}+{key!r}", construct, f"{role} table size {size}: after history {hist[-6:]} use of {key!r} raises {it.exc_class_name(pr.exc)} at {pr.site}", step)
                continue
            if len(it.decisions) != n_dec_before:
                raise AnalysisError(f"C05: index rule for {role} is outside the comparison-only fragment (undecided branch {it.tags[-1]})")
            transitions += 1
            if got != key:
                step.update(entry_id=entry, wire=wire, reader_result=got)
                chk.fail(rule, f"{role} S={size} {hist[-4:]}+{key!r}", construct, f"{role} table size {size}: after history {hist[-6:]} the writer encodes {key!r} as entry={entry!r} ref={wire!r} but the reader resolves it to {got!r}", step)
                continue
            if _writer_entries(e2) > size:
                chk.fail("C05.TABLE.range", f"{role} S={size} live entries", "pyjelly.serialize.lookup.Lookup.insert", f"writer holds {_writer_entries(e2)} entries with table size {size}", step)
            e3, d3, fz, _ = _canon(e2, d2)
            if fz not in seen:
                seen.add(fz)
                if len(seen) > max_states:
                    raise AnalysisError(f"C05: more than {max_states} states for {role} S={size}")
                work.append((e3, d3, hist + [key]))
    return {"role": role, "size": size, "states": len(seen), "transitions": transitions}


def explore_termencoder(col: Any, it: Interp, table: str, size: int, max_states: int) -> dict:
    """The same fixpoint one level up, at the API the property names: TermEncoder.encode_iri / encode_literal rows and
    indices fed to Decoder (entries ingested, then decode_iri / decode_literal).  Catches state kept beside the lookups."""
    k = K.Kit(it)
    w = K.Wire(it)
    preset = (8, size, 8) if table == "prefix" else (8, 8, size)
    enc0 = k.new(K.EN, "TermEncoder", lookup_preset=k.preset(*preset))
    popts = k.new(K.DE, "ParserOptions", k.new(K.OP, "StreamTypes", 1, 1), k.preset(*preset), k.params())
    dec0 = k.new(K.DE, "Decoder", adapter=k.new(K.GP, "GenericTriplesAdapter", popts))
    enc0, dec0, fz0, _ = _canon(enc0, dec0)
    seen = {fz0}
    level = [(enc0, dec0, [])]
    nxt: list = []
    depth = 0
    closed = True
    import time as _time

    t0 = _time.time()
    budget_s = float(os.environ.get("JSTAT_C05_TE_BUDGET", "150"))
    transitions = 0
    rule = "C05.FIXPOINT.term-encoder"
    construct = f"pyjelly.serialize.encode.TermEncoder.{'encode_iri' if table == 'prefix' else 'encode_literal'}<->pyjelly.parse.decode.Decoder"
    # breadth first by history length: when auxiliary state kept beside the lookups (a memo of every key seen, ...) makes
    # the closure too large for the budget, every history up to the completed length has still been analysed
    while level:
        if not nxt and level and depth >= 4 and (_time.time() - t0 > budget_s or len(seen) > max_states):
            closed = False
            break
        enc, dec, hist = level.pop()
        _, _, _, present = _canon(enc, dec)
        present = [p_ for p_ in present if not p_.endswith("#n")]
        keys_present = sorted({p_.split("#")[0] for p_ in present})
        fresh = f"key{len(keys_present)}"
        # key alphabet of size + 2 (sufficient by key-renaming symmetry); also keeps the state space finite when the code
        # under analysis remembers every key it has ever seen
        for key in keys_present + ([fresh] if len(keys_present) < size + 2 else []):
            memo: dict = {}
            e2, d2 = _clone((enc, dec), memo, {})
            step = {"table": table, "size": size, "history": hist[-6:], "key": key}
            try:
                if table == "prefix":
                    msg = w.msg("RdfIri")
                    rows = k.method(e2, "encode_iri", key + "#n", msg)
                    want = key + "#n"
                else:
                    msg = w.msg("RdfLiteral")
                    rows = k.method(e2, "encode_literal", lex="x", datatype=key, literal=msg)
                    want = key
                it.drain(k.method(d2, "iter_rows", w.frame(it.drain(rows))))
                term = k.method(d2, "decode_iri" if table == "prefix" else "decode_literal", msg)
                vals = list(term.attrs.values())
                got = vals[0] if table == "prefix" else vals[2]
            except PyRaise as pr:
                col.fail(rule, f"{table} S={size} {hist[-4:]}+{key!r}", construct, f"{table} table size {size}: after history {hist[-6:]} encoding a term with {key!r} and decoding it raises {it.exc_class_name(pr.exc)} at {pr.site}", step)
                continue
            transitions += 1
            if got != want:
                col.fail(rule, f"{table} S={size} {hist[-4:]}+{key!r}", construct, f"{table} table size {size}: after history {hist[-6:]} a term with {want!r} is written so that the reader resolves {got!r}", step)
                continue
            e3, d3, fz, _ = _canon(e2, d2)
            if fz not in seen:
                seen.add(fz)
                nxt.append((e3, d3, hist + [key]))
        if not level:
            level, nxt = nxt, []
            depth += 1
            if level and depth < 4 and (_time.time() - t0 > 4 * budget_s):
                raise AnalysisError(f"C05: TermEncoder {table} S={size}: not even histories of length 4 fit the budget ({len(seen)} states)")
    return {"role": f"{table}@TermEncoder", "size": size, "states": len(seen), "transitions": transitions, "closed": closed, "all_histories_up_to_length": depth}


class _Collector:
    """Stand-in for Check inside worker processes (collects failures)."""

    def __init__(self) -> None:
        self.fails: list = []
        self.violations: list = []

    def fail(self, rule: str, inst: str, construct: str, msg: str, detail: Any = None) -> None:
        if len(self.fails) < 40:
            self.fails.append((rule, inst, construct, msg, detail))
        self.violations.append(inst)


def _explore_job(prog, job: tuple) -> dict:
    role, size = job
    it = Interp(prog, max_steps=10**11)
    it.record_events = False
    col = _Collector()
    if role.endswith("@TermEncoder"):
        res = explore_termencoder(col, it, role.split("@")[0], size, 500_000)
    else:
        res = explore_role(col, it, role, size, 2_000_000)  # type: ignore[arg-type]
    res["fails"] = col.fails
    return res


def check(chk: Check) -> None:
    prog = chk.program
    chk.rule("C05.FIXPOINT.mirror", "closed reachable set of joint writer/reader states: every emitted entry id + reference resolves on the reader to the writer's key", floor=12)
    chk.rule("C05.TABLE.range", "every emitted id lies in [0, size]; the writer never holds more than size entries", floor=9)
    chk.rule("C05.TABLE.disabled", "size 0: prefix reference is 0 and decodes to ''; insert refuses", floor=2)
    chk.rule("C05.PATH.lru", "a hit refreshes the key; eviction never removes the most recently used entry (prefix, name and datatype tables, driven through TermEncoder.encode_iri / encode_literal)", floor=5)
    chk.exhaustive = True
    sizes = (1, 2, 3, 4, 5) if chk.tier == "quick" else (1, 2, 3, 4, 5, 6)
    chk.trusted += ["OrderedDict / deque models (jstat.models.TRUSTED_FACTS)", "key-renaming symmetry: keys are only compared for equality and emptiness (property text: alphabets of size+2 suffice)"]
    chk.undecided += ["table sizes above the enumerated bound (the rules only compare indices, so larger sizes add no new ordering patterns)", "statement-level in-use eviction (C18)"]
    from ..par import pmap

    chk.rule("C05.FIXPOINT.term-encoder", "the same closure one level up: TermEncoder.encode_iri/encode_literal -> rows -> Decoder resolves the string the writer meant (prefix and datatype tables of size 1..3)", floor=6)
    te_sizes = (1, 2, 3) if chk.tier == "quick" else (1, 2, 3, 4)
    jobs = [(role, s_) for role in ROLES for s_ in sizes] + [(t + "@TermEncoder", s_) for t in ("prefix", "datatype") for s_ in te_sizes]
    total_states = 0
    for res in pmap(_explore_job, jobs, min_parallel=4):
        if res is None:
            continue
        total_states += res["states"]
        chk.paths += res["transitions"]
        role, s_ = res["role"], res["size"]
        for rule, inst, construct, msg, detail in res["fails"]:
            chk.fail(rule, inst, construct, msg, detail)
        if not res["fails"] and role.endswith("@TermEncoder"):
            chk.ok("C05.FIXPOINT.term-encoder", f"{role} S={s_}", {k_: v for k_, v in res.items() if k_ != "fails"})
            if not res.get("closed", True):
                chk.note(f"{role} S={s_}: the reachable set was not closed within the budget ({res['states']} states); every history of length <= {res['all_histories_up_to_length']} over the key alphabet was analysed instead")
                chk.undecided.append(f"{role} S={s_}: histories longer than {res['all_histories_up_to_length']} (state kept beside the lookup tables makes the joint state space too large to close)")
        elif not res["fails"]:
            chk.ok("C05.FIXPOINT.mirror", f"{role} S={s_}", {k_: v for k_, v in res.items() if k_ != "fails"})
            chk.ok("C05.TABLE.range", f"{role} S={s_}", {"transitions_checked": res["transitions"], "ids_within": [0, s_]})
    chk.note(f"reachable joint states (up to key renaming): {total_states}")
    chk.functions.update(
        ["pyjelly.serialize.lookup.Lookup.insert", "pyjelly.serialize.lookup.Lookup.make_last_to_evict", "pyjelly.serialize.lookup.LookupEncoder.encode_entry_index", "pyjelly.serialize.lookup.LookupEncoder.encode_term_index"]
        + [f"pyjelly.serialize.lookup.LookupEncoder.{w}" for w, _r, _e in ROLES.values()]
        + ["pyjelly.parse.lookup.LookupDecoder.assign_entry", "pyjelly.parse.lookup.LookupDecoder.at"]
        + [f"pyjelly.parse.lookup.LookupDecoder.{r}" for _w, r, _e in ROLES.values()]
    )
    chk.part("disabled", lambda: _disabled(chk))
    chk.part("lru", lambda: _lru(chk))
    # the closure above is computed per table size S with writer and reader both sized S; the reader takes S from the
    # options row, so "ids within [0, size], live entries <= declared size" also needs the row to announce the size the
    # writer's tables really have, on every path on which the library itself pairs encoder and options
    from . import c13

    chk.rule("C05.TABLE.declared-size-is-table-size", "the size the reader is told (options row) is the size of the writer's table on every library-chosen pairing of encoder and options (no options, guessed options, for_rdflib)", floor=16)
    chk.part("declared-size", lambda: c13.declared_sizes(chk, "C05.TABLE.declared-size-is-table-size"))


def _disabled(chk: Check) -> None:
    it = Interp(chk.program)
    k = K.Kit(it)
    enc = k.new(K.LK, "LookupEncoder", lookup_size=0)
    dec = k.new(K.PL, "LookupDecoder", lookup_size=0)
    wire = k.method(enc, "encode_prefix_term_index", "key0")
    got = k.method(dec, "decode_prefix_term_index", wire)
    if wire == 0 and got == "":
        chk.ok("C05.TABLE.disabled", "prefix table size 0", {"wire": wire, "reader": got})
    else:
        chk.fail("C05.TABLE.disabled", "prefix table size 0", "pyjelly.serialize.lookup.LookupEncoder.encode_prefix_term_index", f"disabled prefix table: writer emits {wire!r}, reader resolves {got!r} (must be 0 and '')")
    try:
        r = k.method(enc, "encode_entry_index", "key0")
        chk.fail("C05.TABLE.disabled", "insert into size 0", "pyjelly.serialize.lookup.Lookup.insert", f"entry accepted by a disabled table (returned {r!r})")
    except PyRaise as pr:
        chk.ok("C05.TABLE.disabled", "insert into size 0", {"raises": it.exc_class_name(pr.exc)})


def _lru(chk: Check) -> None:
    """Statement-safety of the eviction policy, observed at the TermEncoder API: an IRI that was
    just encoded (hit or miss) is never the victim of the next miss."""
    from ..values import Atom, sstr

    def iri(ns: str, local: str):
        return sstr(Atom(ns + ".ns"), "#", Atom(local + ".local", nosep=True))

    def prefix_rows(rows) -> int:
        return sum(1 for r in (rows if isinstance(rows, (list, tuple)) else getattr(rows, "items", [])) if "prefix" in r.present)

    for label, history, probe, why in (
        ("victim is not the entry just inserted", [("A", "x"), ("B", "y"), ("C", "z")], ("B", "q"), "A, B, C(miss on a full table) evicts B, the most recently used prefix"),
        ("a hit protects the entry", [("A", "x"), ("B", "y"), ("A", "z"), ("C", "w")], ("A", "q"), "A, B, A(hit), C(miss) evicts A although it was used after B"),
    ):
        it = Interp(chk.program, generic_strings=True)
        k = K.Kit(it)
        enc = k.new(K.EN, "TermEncoder", lookup_preset=k.preset(8, 2, 2))
        w = K.Wire(it)
        for ns, local in history:
            k.method(enc, "encode_iri", iri(ns, local), w.msg("RdfIri"))
        rows = k.method(enc, "encode_iri", iri(*probe), w.msg("RdfIri"))
        if len(it.decisions):
            raise AnalysisError("C05.PATH.lru: undecided branch in encode_iri over distinct symbolic strings")
        if prefix_rows(rows) == 0:
            chk.ok("C05.PATH.lru", label, {"history": history, "probe": probe, "prefix_entry_resent": False})
        else:
            chk.fail("C05.PATH.lru", label, "pyjelly.serialize.lookup.Lookup.insert:eviction-policy", f"prefix table of size 2: {why}; an entry referenced by the statement being encoded can be evicted by a later term of the same statement")
    # the same two histories on the datatype table, through TermEncoder.encode_literal (its own call sequence into the
    # LookupEncoder decides whether a hit refreshes the entry), and on the name table through encode_iri
    def dt_rows(rows) -> int:
        return sum(1 for r in (rows if isinstance(rows, (list, tuple)) else getattr(rows, "items", [])) if "datatype" in r.present)

    def name_rows(rows) -> int:
        return sum(1 for r in (rows if isinstance(rows, (list, tuple)) else getattr(rows, "items", [])) if "name" in r.present)

    for label, history, probe, why in (
        ("datatype: victim is not the entry just inserted", ["A", "B", "C"], "B", "A, B, C(miss on a full table) evicts B, the most recently used datatype"),
        ("datatype: a hit protects the entry", ["A", "B", "A", "C"], "A", "A, B, A(hit), C(miss) evicts A although it was used after B"),
    ):
        it = Interp(chk.program, generic_strings=True)
        k = K.Kit(it)
        enc = k.new(K.EN, "TermEncoder", lookup_preset=k.preset(8, 2, 2))
        w = K.Wire(it)
        for i, dt in enumerate(history):
            k.method(enc, "encode_literal", lex=sstr(Atom(f"lex{i}")), datatype=sstr(Atom(dt + ".dt", nonempty=True)), literal=w.msg("RdfLiteral"))
        rows = k.method(enc, "encode_literal", lex=sstr(Atom("lexq")), datatype=sstr(Atom(probe + ".dt", nonempty=True)), literal=w.msg("RdfLiteral"))
        if len(it.decisions):
            raise AnalysisError("C05.PATH.lru: undecided branch in encode_literal over distinct symbolic strings")
        if dt_rows(rows) == 0:
            chk.ok("C05.PATH.lru", label, {"history": history, "probe": probe, "datatype_entry_resent": False})
        else:
            chk.fail("C05.PATH.lru", label, "pyjelly.serialize.encode.TermEncoder.encode_literal:eviction-policy", f"datatype table of size 2: {why}; a datatype referenced by the statement being encoded can be evicted by a later literal of the same statement")
    for label, history, probe, why in (
        ("name: a hit protects the entry", ["n1", "n2", "n3", "n4", "n5", "n6", "n7", "n8", "n1", "n9"], "n1", "n1..n8, n1(hit), n9(miss) evicts n1 although it was used after n2"),
    ):
        it = Interp(chk.program, generic_strings=True)
        k = K.Kit(it)
        enc = k.new(K.EN, "TermEncoder", lookup_preset=k.preset(8, 2, 2))
        w = K.Wire(it)
        for local in history:
            k.method(enc, "encode_iri", iri("N", local), w.msg("RdfIri"))
        rows = k.method(enc, "encode_iri", iri("N", probe), w.msg("RdfIri"))
        if len(it.decisions):
            raise AnalysisError("C05.PATH.lru: undecided branch in encode_iri over distinct symbolic strings")
        if name_rows(rows) == 0:
            chk.ok("C05.PATH.lru", label, {"history": history, "probe": probe, "name_entry_resent": False})
        else:
            chk.fail("C05.PATH.lru", label, "pyjelly.serialize.encode.TermEncoder.encode_iri:eviction-policy", f"name table of size 8: {why}")
