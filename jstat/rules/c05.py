"""C05 — writer and reader lookup tables stay mirrored for all histories.

Least fixpoint of the reachable joint (LookupEncoder, LookupDecoder) states for table sizes
1..Smax, computed by pushing every state through the *source* of the index rules with the abstract
interpreter (all values are constants of a finite domain: key names up to renaming, indices
0..S).  At every transition: the wire values the writer emits resolve on the reader to the key
the writer meant, ids lie in [0, S], the writer holds at most S entries.  Because the state space
is finite and closed under the transitions, this covers histories of every length.
"""
from __future__ import annotations

import copy
from typing import Any

from .. import kit as K
from ..errors import AnalysisError
from ..interp import Interp
from ..report import Check
from ..values import ADict, AList, ClassInfo, ExtObj, Obj, PyRaise, Unknown

ROLES = {
    # role: (writer reference method, reader reference method, "" allowed as key)
    "name": ("encode_name_term_index", "decode_name_term_index", True),
    "prefix": ("encode_prefix_term_index", "decode_prefix_term_index", True),
    "datatype": ("encode_datatype_term_index", "decode_datatype_term_index", False),
}


def _clone(v: Any, memo: dict, ren: dict) -> Any:
    """Deep copy of the mutable heap below v (classes/functions shared), renaming key strings."""
    if isinstance(v, str):
        return ren.get(v, v)
    if v is None or isinstance(v, (bool, int, float, bytes)):
        return v
    if isinstance(v, tuple):
        return tuple(_clone(x, memo, ren) for x in v)
    if id(v) in memo:
        return memo[id(v)]
    if isinstance(v, Obj):
        o = Obj(v.cls, {}, None)
        memo[id(v)] = o
        o.attrs = {k: _clone(x, memo, ren) for k, x in v.attrs.items()}
        if v.tuple_items is not None:
            o.tuple_items = tuple(_clone(x, memo, ren) for x in v.tuple_items)
        return o
    if isinstance(v, AList):
        l = AList([], kind=v.kind, maxlen=v.maxlen)
        memo[id(v)] = l
        l.items = [_clone(x, memo, ren) for x in v.items]
        return l
    if isinstance(v, ADict):
        d = ADict([], kind=v.kind)
        memo[id(v)] = d
        d.pairs = [[_clone(a, memo, ren), _clone(b, memo, ren)] for a, b in v.pairs]
        return d
    return v  # ClassInfo, FuncRef, ... are immutable program entities


def _freeze(v: Any, seen: dict) -> Any:
    if v is None or isinstance(v, (bool, int, float, bytes, str)):
        return v
    if isinstance(v, tuple):
        return tuple(_freeze(x, seen) for x in v)
    if id(v) in seen:
        return ("ref", seen[id(v)])
    seen[id(v)] = len(seen)
    if isinstance(v, Obj):
        return ("obj", v.cls.qualname, tuple((k, _freeze(x, seen)) for k, x in sorted(v.attrs.items())))
    if isinstance(v, AList):
        return (v.kind, v.maxlen, tuple(_freeze(x, seen) for x in v.items))
    if isinstance(v, ADict):
        return (v.kind, tuple((_freeze(a, seen), _freeze(b, seen)) for a, b in v.pairs))
    if isinstance(v, Unknown):
        raise AnalysisError(f"C05: unknown value {v!r} inside lookup state")
    return repr(v)


def _strings(fz: Any, out: list) -> None:
    if isinstance(fz, str):
        if fz.startswith("key") and fz not in out:
            out.append(fz)
    elif isinstance(fz, tuple):
        for x in fz:
            _strings(x, out)


def _canon(enc: Any, dec: Any) -> tuple[Any, Any, Any, list[str]]:
    fz = _freeze((enc, dec), {})
    keys: list[str] = []
    _strings(fz, keys)
    ren = {k: f"key{i}" for i, k in enumerate(keys)}
    if any(a != b for a, b in ren.items()):
        memo: dict = {}
        enc2, dec2 = _clone((enc, dec), memo, ren)
        fz = _freeze((enc2, dec2), {})
        return enc2, dec2, fz, [ren[k] for k in keys]
    return enc, dec, fz, keys


def _writer_entries(enc: Any) -> int:
    """Number of live writer entries = size of the largest mapping reachable from the encoder."""
    best = 0
    stack, seen = [enc], set()
    while stack:
        v = stack.pop()
        if id(v) in seen:
            continue
        seen.add(id(v))
        if isinstance(v, Obj):
            stack.extend(v.attrs.values())
        elif isinstance(v, ADict):
            best = max(best, len(v.pairs))
        elif isinstance(v, AList):
            stack.extend(v.items)
    return best


def explore_role(chk: Check, it: Interp, role: str, size: int, max_states: int) -> dict:
    k = K.Kit(it)
    wref, rref, empty_ok = ROLES[role]
    rule = "C05.FIXPOINT.mirror"
    enc0 = k.new(K.LK, "LookupEncoder", lookup_size=size)
    dec0 = k.new(K.PL, "LookupDecoder", lookup_size=size)
    for o, names in ((enc0, ("encode_entry_index", wref)), (dec0, ("assign_entry", rref))):
        for n in names:
            it.getattr(o, n)  # anchors: AttributeError -> PyRaise -> reported below
    enc0, dec0, fz0, _ = _canon(enc0, dec0)
    seen = {fz0}
    work = [(enc0, dec0, [])]
    transitions = 0
    while work:
        enc, dec, hist = work.pop()
        _, _, _, present = _canon(enc, dec)
        fresh = f"key{len(present)}"
        ops = list(present) + [fresh] + ([""] if empty_ok else [])
        for key in ops:
            memo: dict = {}
            e2, d2 = _clone((enc, dec), memo, {})
            n_dec_before = len(it.decisions)
            step = {"role": role, "size": size, "history": hist[-6:], "key": key}
            construct = f"pyjelly.serialize.lookup.LookupEncoder.{wref}<->pyjelly.parse.lookup.LookupDecoder.{rref}"
            try:
                entry = k.method(e2, "encode_entry_index", key)
                if entry is not None:
                    if not (isinstance(entry, int) and 0 <= entry <= size):
                        chk.fail("C05.TABLE.range", f"{role} S={size} entry id", "pyjelly.serialize.lookup.LookupEncoder.encode_entry_index", f"entry id {entry!r} outside [0, {size}] after history {hist[-6:]} + {key!r}", step)
                    k.method(d2, "assign_entry", index=entry, value=key)
                wire = k.method(e2, wref, key)
                if not (isinstance(wire, int) and 0 <= wire <= size):
                    chk.fail("C05.TABLE.range", f"{role} S={size} reference id", f"pyjelly.serialize.lookup.LookupEncoder.{wref}", f"reference id {wire!r} outside [0, {size}] after history {hist[-6:]} + {key!r}", step)
                got = k.method(d2, rref, wire)
            except PyRaise as pr:
                chk.fail(rule, f"{role} S={size} {hist[-4:]}+{key!r}", construct, f"{role} table size {size}: after history {hist[-6:]} use of {key!r} raises {it.exc_class_name(pr.exc)} at {pr.site}", step)
                continue
            if len(it.decisions) != n_dec_before:
                raise AnalysisError(f"C05: index rule for {role} is outside the comparison-only fragment (undecided branch {it.tags[-1]})")
            transitions += 1
            if got != key:
                step.update(entry_id=entry, wire=wire, reader_result=got)
                chk.fail(rule, f"{role} S={size} {hist[-4:]}+{key!r}", construct, f"{role} table size {size}: after history {hist[-6:]} the writer encodes {key!r} as entry={entry!r} ref={wire!r} but the reader resolves it to {got!r}", step)
                continue
            if _writer_entries(e2) > size:
                chk.fail("C05.TABLE.range", f"{role} S={size} live entries", "pyjelly.serialize.lookup.Lookup.insert", f"writer holds {_writer_entries(e2)} entries with table size {size}", step)
            e3, d3, fz, _ = _canon(e2, d2)
            if fz not in seen:
                seen.add(fz)
                if len(seen) > max_states:
                    raise AnalysisError(f"C05: more than {max_states} states for {role} S={size}")
                work.append((e3, d3, hist + [key]))
    return {"role": role, "size": size, "states": len(seen), "transitions": transitions}


def check(chk: Check) -> None:
    prog = chk.program
    chk.rule("C05.FIXPOINT.mirror", "closed reachable set of joint writer/reader states: every emitted entry id + reference resolves on the reader to the writer's key", floor=12)
    chk.rule("C05.TABLE.range", "every emitted id lies in [0, size]; the writer never holds more than size entries", floor=9)
    chk.rule("C05.TABLE.disabled", "size 0: prefix reference is 0 and decodes to ''; insert refuses", floor=2)
    chk.rule("C05.PATH.lru", "hit => key moved to the most-recent end; eviction removes the least-recent end", floor=3)
    chk.exhaustive = True
    sizes = (1, 2, 3, 4) if chk.tier == "quick" else (1, 2, 3, 4, 5, 6)
    chk.trusted += ["OrderedDict / deque models (jstat.models.TRUSTED_FACTS)", "key-renaming symmetry: keys are only compared for equality and emptiness (property text: alphabets of size+2 suffice)"]
    chk.undecided += ["table sizes above the enumerated bound (the rules only compare indices, so larger sizes add no new ordering patterns)", "statement-level in-use eviction (C18)"]
    it = Interp(prog, max_steps=10**10)
    it.record_events = False
    total_states = 0
    for role in ROLES:
        for s in sizes:
            before = len(chk.violations)
            res = explore_role(chk, it, role, s, 400_000)
            total_states += res["states"]
            chk.paths += res["transitions"]
            if len(chk.violations) == before:
                chk.ok("C05.FIXPOINT.mirror", f"{role} S={s}", res)
                chk.ok("C05.TABLE.range", f"{role} S={s}", {"transitions_checked": res["transitions"], "ids_within": [0, s]})
    chk.note(f"reachable joint states (up to key renaming): {total_states}")
    chk.functions.update(
        ["pyjelly.serialize.lookup.Lookup.insert", "pyjelly.serialize.lookup.Lookup.make_last_to_evict", "pyjelly.serialize.lookup.LookupEncoder.encode_entry_index", "pyjelly.serialize.lookup.LookupEncoder.encode_term_index"]
        + [f"pyjelly.serialize.lookup.LookupEncoder.{w}" for w, _r, _e in ROLES.values()]
        + ["pyjelly.parse.lookup.LookupDecoder.assign_entry", "pyjelly.parse.lookup.LookupDecoder.at"]
        + [f"pyjelly.parse.lookup.LookupDecoder.{r}" for _w, r, _e in ROLES.values()]
    )
    _disabled(chk)
    _lru(chk)


def _disabled(chk: Check) -> None:
    it = Interp(chk.program)
    k = K.Kit(it)
    enc = k.new(K.LK, "LookupEncoder", lookup_size=0)
    dec = k.new(K.PL, "LookupDecoder", lookup_size=0)
    wire = k.method(enc, "encode_prefix_term_index", "key0")
    got = k.method(dec, "decode_prefix_term_index", wire)
    if wire == 0 and got == "":
        chk.ok("C05.TABLE.disabled", "prefix table size 0", {"wire": wire, "reader": got})
    else:
        chk.fail("C05.TABLE.disabled", "prefix table size 0", "pyjelly.serialize.lookup.LookupEncoder.encode_prefix_term_index", f"disabled prefix table: writer emits {wire!r}, reader resolves {got!r} (must be 0 and '')")
    try:
        r = k.method(enc, "encode_entry_index", "key0")
        chk.fail("C05.TABLE.disabled", "insert into size 0", "pyjelly.serialize.lookup.Lookup.insert", f"entry accepted by a disabled table (returned {r!r})")
    except PyRaise as pr:
        chk.ok("C05.TABLE.disabled", "insert into size 0", {"raises": it.exc_class_name(pr.exc)})


def _lru(chk: Check) -> None:
    """Trace rule on the abstract OrderedDict: which end is touched on hit / eviction."""
    it = Interp(chk.program)
    k = K.Kit(it)
    enc = k.new(K.LK, "LookupEncoder", lookup_size=2)
    for key in ("key0", "key1"):
        k.method(enc, "encode_entry_index", key)
    # hit through encode_entry_index
    it.events.clear()
    k.method(enc, "encode_entry_index", "key0")
    ev = [e for e in it.events if e["kind"] == "lru"]
    if any(e["op"] == "move_to_end" and e["end"] == "newest" and e["key"] == "key0" for e in ev):
        chk.ok("C05.PATH.lru", "hit in encode_entry_index", {"events": [(e["op"], e["end"]) for e in ev]})
    else:
        chk.fail("C05.PATH.lru", "hit in encode_entry_index", "pyjelly.serialize.lookup.LookupEncoder.encode_entry_index:hit", "a hit does not move the key to the most-recently-used end (a later miss of the same statement may evict an entry the statement still references)")
    # use through encode_term_index (via the name rule): key1 becomes most recent
    it.events.clear()
    k.method(enc, "encode_name_term_index", "key1")
    ev = [e for e in it.events if e["kind"] == "lru"]
    if any(e["op"] == "move_to_end" and e["end"] == "newest" and e["key"] == "key1" for e in ev):
        chk.ok("C05.PATH.lru", "reference use", {"events": [(e["op"], e["end"]) for e in ev]})
    else:
        chk.fail("C05.PATH.lru", "reference use", "pyjelly.serialize.lookup.LookupEncoder.encode_term_index", "a reference does not mark the key most recently used")
    # miss on a full table: the victim must be the least recently used key (key0)
    it.events.clear()
    k.method(enc, "encode_entry_index", "key2")
    hit_key1 = k.method(enc, "encode_entry_index", "key1")
    hit_key0 = k.method(enc, "encode_entry_index", "key0")
    if hit_key1 is None and hit_key0 is not None:
        chk.ok("C05.PATH.lru", "eviction victim", {"evicted": "key0 (least recently used)", "kept": "key1"})
    else:
        chk.fail("C05.PATH.lru", "eviction victim", "pyjelly.serialize.lookup.Lookup.insert:eviction", f"full table [key0 (older), key1 (just used)] + miss: expected key0 evicted and key1 kept; key1 resident={hit_key1 is None}, key0 resident={hit_key0 is None}")
