"""C16 — spec-violating streams are rejected, never turned into fabricated data.

One rule instance per catalogued violation class x integration x parser: a hand-built abstract
stream (a foreign producer's rows, built from the descriptor) carrying exactly one violation is
pushed through the real parser source; every path must raise at or before the offending row and
must not have yielded anything for it.
"""
from __future__ import annotations

from typing import Any, Callable

from .. import kit as K
from ..interp import Interp, explore
from ..report import Check
from ..values import Atom, Msg, PyRaise, sstr


def _iri(w: K.Wire, prefix_id: int, name_id: int) -> Msg:
    return w.msg("RdfIri", prefix_id=prefix_id, name_id=name_id)


def _entries(w: K.Wire) -> list[Msg]:
    return [
        w.msg("RdfStreamRow", prefix=w.msg("RdfPrefixEntry", id=0, value=sstr(Atom("ns1")))),
        w.msg("RdfStreamRow", name=w.msg("RdfNameEntry", id=0, value=sstr(Atom("local1")))),
        w.msg("RdfStreamRow", datatype=w.msg("RdfDatatypeEntry", id=0, value=sstr(Atom("dt1")))),
    ]


def _good_triple(w: K.Wire) -> Msg:
    return w.msg("RdfStreamRow", triple=w.msg("RdfTriple", s_iri=_iri(w, 1, 1), p_iri=_iri(w, 1, 1), o_literal=w.msg("RdfLiteral", lex=sstr(Atom("lex")), datatype=1)))


# each case: (class id, description, physical type, options kwargs, rows before, offending rows, construct hint)
def cases(w: K.Wire) -> list[tuple]:
    trip = lambda **kw: w.msg("RdfStreamRow", triple=w.msg("RdfTriple", **kw))  # noqa: E731
    bn = dict(s_bnode=sstr(Atom("b.s")), p_bnode=sstr(Atom("b.p")), o_bnode=sstr(Atom("b.o")))
    out = []
    out.append(("entry-id-beyond-size", "name entry id 9 with max_name_table_size=8", 1, {}, _entries(w) + [_good_triple(w)], [w.msg("RdfStreamRow", name=w.msg("RdfNameEntry", id=9, value=sstr(Atom("x")))), trip(**bn)], "pyjelly.parse.lookup.LookupDecoder.assign_entry"))
    out.append(("entry-id-beyond-size", "prefix entry id 9 with max_prefix_table_size=8", 1, {}, _entries(w), [w.msg("RdfStreamRow", prefix=w.msg("RdfPrefixEntry", id=9, value=sstr(Atom("x")))), trip(**bn)], "pyjelly.parse.lookup.LookupDecoder.assign_entry"))
    out.append(("entry-id-beyond-size", "implicit (0) name entry id after the table's last slot", 1, {}, [w.msg("RdfStreamRow", name=w.msg("RdfNameEntry", id=8, value=sstr(Atom("n8"))))], [w.msg("RdfStreamRow", name=w.msg("RdfNameEntry", id=0, value=sstr(Atom("n9")))), trip(**bn)], "pyjelly.parse.lookup.LookupDecoder.assign_entry"))
    out.append(("reference-beyond-size", "name_id 9 with max_name_table_size=8", 1, {}, _entries(w) + [_good_triple(w)], [trip(s_iri=_iri(w, 1, 9), p_bnode=bn["p_bnode"], o_bnode=bn["o_bnode"])], "pyjelly.parse.lookup.LookupDecoder.at"))
    out.append(("reference-beyond-size", "prefix_id 9 with max_prefix_table_size=8", 1, {}, _entries(w) + [_good_triple(w)], [trip(s_iri=_iri(w, 9, 1), p_bnode=bn["p_bnode"], o_bnode=bn["o_bnode"])], "pyjelly.parse.lookup.LookupDecoder.at"))
    out.append(("reference-beyond-size", "datatype id 9 with max_datatype_table_size=8", 1, {}, _entries(w) + [_good_triple(w)], [trip(s_bnode=bn["s_bnode"], p_bnode=bn["p_bnode"], o_literal=w.msg("RdfLiteral", lex="x", datatype=9))], "pyjelly.parse.lookup.LookupDecoder.at"))
    out.append(("never-filled-slot", "name_id 3, only slot 1 was ever filled", 1, {}, _entries(w) + [_good_triple(w)], [trip(s_iri=_iri(w, 1, 3), p_bnode=bn["p_bnode"], o_bnode=bn["o_bnode"])], "pyjelly.parse.lookup.LookupDecoder.at"))
    out.append(("never-filled-slot", "prefix_id 2, only slot 1 was ever filled", 1, {}, _entries(w) + [_good_triple(w)], [trip(s_iri=_iri(w, 2, 1), p_bnode=bn["p_bnode"], o_bnode=bn["o_bnode"])], "pyjelly.parse.lookup.LookupDecoder.at"))
    out.append(("never-filled-slot", "implicit name id (0 = last+1) pointing at an empty slot", 1, {}, _entries(w) + [_good_triple(w)], [trip(s_iri=_iri(w, 1, 0), p_bnode=bn["p_bnode"], o_bnode=bn["o_bnode"])], "pyjelly.parse.lookup.LookupDecoder.at"))
    out.append(("datatype-zero", "literal with the datatype field present and id 0", 1, {}, _entries(w) + [_good_triple(w)], [trip(s_bnode=bn["s_bnode"], p_bnode=bn["p_bnode"], o_literal=w.msg("RdfLiteral", lex="x", datatype=0))], "pyjelly.parse.lookup.LookupDecoder.decode_datatype_term_index"))
    out.append(("datatype-while-disabled", "literal with datatype id 1 while max_datatype_table_size=0", 1, {"datatypes": 0}, [trip(**bn)], [trip(s_bnode=bn["s_bnode"], p_bnode=bn["p_bnode"], o_literal=w.msg("RdfLiteral", lex="x", datatype=1))], "pyjelly.parse.decode.Decoder.decode_literal"))
    name_only = [w.msg("RdfStreamRow", name=w.msg("RdfNameEntry", id=0, value=sstr(Atom("whole.iri1"))))]
    out.append(("prefix-while-disabled", "IRI with prefix_id 1 while max_prefix_table_size=0", 1, {"prefixes": 0}, name_only + [trip(s_iri=_iri(w, 0, 1), p_bnode=bn["p_bnode"], o_bnode=bn["o_bnode"])], [trip(s_iri=_iri(w, 1, 1), p_bnode=bn["p_bnode"], o_bnode=bn["o_bnode"])], "pyjelly.parse.decode.Decoder.decode_iri_string"))
    out.append(("prefix-while-disabled", "prefix entry row while max_prefix_table_size=0", 1, {"prefixes": 0}, name_only, [w.msg("RdfStreamRow", prefix=w.msg("RdfPrefixEntry", id=1, value=sstr(Atom("p")))), trip(**bn)], "pyjelly.parse.lookup.LookupDecoder.assign_entry"))
    out.append(("repeated-term-no-previous", "first triple without a subject", 1, {}, [], [trip(p_bnode=bn["p_bnode"], o_bnode=bn["o_bnode"])], "pyjelly.parse.decode.Decoder.decode_statement"))
    out.append(("repeated-term-no-previous", "first quad without a graph", 2, {}, [], [w.msg("RdfStreamRow", quad=w.msg("RdfQuad", **bn))], "pyjelly.parse.decode.Decoder.decode_statement"))
    out.append(("repeated-term-in-quoted-triple", "quoted triple with an empty object", 1, {}, [trip(**bn)], [trip(s_bnode=bn["s_bnode"], p_bnode=bn["p_bnode"], o_triple_term=w.msg("RdfTriple", s_bnode=bn["s_bnode"], p_bnode=bn["p_bnode"]))], "pyjelly.parse.decode.Decoder.decode_quoted_triple"))
    out.append(("row-kind-forbidden", "quad row in a TRIPLES stream", 1, {}, [trip(**bn)], [w.msg("RdfStreamRow", quad=w.msg("RdfQuad", g_bnode=sstr(Atom("g")), **bn))], "adapter.quad"))
    out.append(("row-kind-forbidden", "triple row in a QUADS stream", 2, {}, [], [trip(**bn)], "adapter.triple"))
    out.append(("row-kind-forbidden", "graph start in a TRIPLES stream", 1, {}, [trip(**bn)], [w.msg("RdfStreamRow", graph_start=w.msg("RdfGraphStart", g_bnode=sstr(Atom("g")))), trip(**bn)], "adapter.graph_start"))
    out.append(("row-kind-forbidden", "graph start in a QUADS stream", 2, {}, [], [w.msg("RdfStreamRow", graph_start=w.msg("RdfGraphStart", g_bnode=sstr(Atom("g")))), trip(**bn)], "adapter.graph_start"))
    out.append(("row-kind-forbidden", "graph end in a QUADS stream", 2, {}, [], [w.msg("RdfStreamRow", graph_end=w.msg("RdfGraphEnd"))], "adapter.graph_end"))
    out.append(("row-kind-forbidden", "quad row in a GRAPHS stream", 3, {}, [], [w.msg("RdfStreamRow", quad=w.msg("RdfQuad", g_bnode=sstr(Atom("g")), **bn))], "adapter.quad"))
    out.append(("triple-outside-graph", "triple before any graph start in a GRAPHS stream", 3, {}, [], [trip(**bn)], "GraphsAdapter.triple"))
    out.append(("triple-outside-graph", "triple after graph end in a GRAPHS stream", 3, {}, w.statement_rows(3, 1, "g1"), [trip(**bn)], "GraphsAdapter.triple"))
    out.append(("missing-options", "stream whose first row is a triple", 1, None, [], [trip(**bn)], "pyjelly.parse.decode.options_from_frame"))
    out.append(("unsupported-stream-type", "physical type UNSPECIFIED", 0, {}, [], [trip(**bn)], "parse_jelly_flat"))
    out.append(("unsupported-version", "options row declaring protocol version 3", 1, {"version": 3}, [], [trip(**bn)], "pyjelly.parse.decode.Decoder.validate_stream_options"))
    out.append(("unsupported-version", "options row declaring protocol version 9", 2, {"version": 9}, [], [w.msg("RdfStreamRow", quad=w.msg("RdfQuad", g_bnode=sstr(Atom("g")), **bn))], "pyjelly.parse.decode.Decoder.validate_stream_options"))
    out.append(("empty-row", "a row with no content (unknown/unset row kind)", 1, {}, [trip(**bn)], [w.msg("RdfStreamRow"), trip(**bn)], "pyjelly.parse.decode.Decoder.iter_rows"))
    return out


def _valid_statement_rows(rows: list[Msg]) -> int:
    return sum(1 for r in rows if "triple" in r.present or "quad" in r.present)


def check(chk: Check) -> None:
    prog = chk.program
    rule = "C16.TABLE.rejection"
    chk.rule(rule, "every catalogued violation class: parsing raises at or before the offending row and yields nothing for it", floor=90)
    chk.rule("C16.TABLE.control", "the same streams without the violation parse without raising (the rows are otherwise valid)", floor=4)
    chk.trusted += ["protobuf presence semantics (oneof members have presence, HasField)", "deque/list index semantics incl. negative indices"]
    chk.undecided += ["violations at arbitrary positions x table states of concrete streams (one representative position per class is analysed)"]
    parsers = [("generic", K.GP, "parse_jelly_flat"), ("rdflib", K.RP, "parse_jelly_flat"), ("generic", K.GP, "parse_jelly_grouped"), ("rdflib", K.RP, "parse_jelly_grouped")]
    probe = cases(K.Wire(Interp(prog)))
    for ci in range(len(probe)):
        for integ, mod, parser in parsers:
            for split_frames, prior in ((False, False), (True, False), (False, True)) + ((("per-row", False), ("per-row", True), (True, True)) if chk.tier == "thorough" else ()):
                cls_id, desc, phys = probe[ci][0], probe[ci][1], probe[ci][2]

                def scenario(it: Interp) -> Any:
                    k = K.Kit(it)
                    w = K.Wire(it)
                    _c, _d, ph, okw, before, offending, _h = cases(w)[ci]
                    head = [] if okw is None else [w.options_row(ph, 0, **okw)]
                    if split_frames == "per-row":
                        frames = [w.frame([r]) for r in head + before + offending]
                    elif split_frames:
                        frames = [w.frame(head + before), w.frame(offending)] if (head or before) else [w.frame(offending)]
                    else:
                        frames = [w.frame(head + before + offending)]
                    if prior:
                        # an unrelated, valid stream was parsed earlier in the same process (both integrations):
                        # nothing of it may complete or mask the violating stream
                        wp = K.Wire(it)
                        pf = [wp.frame([wp.options_row(ph or 1, 0)] + _entries(wp) + [_good_triple(wp)] + (wp.statement_rows(ph or 1, 1, "prior") if ph in (2, 3) else []))]
                        if (ph or 1) == 1:
                            for m_ in (K.GP, K.RP):
                                it.drain(k.call(k.get(m_, "parse_jelly_flat"), k.input_stream(list(pf))))
                        else:
                            pq = [wp.frame([wp.options_row(ph, 0)] + wp.statement_rows(ph, 2, "prior"))]
                            for m_ in (K.GP, K.RP):
                                it.drain(k.call(k.get(m_, "parse_jelly_flat"), k.input_stream(list(pq))))
                    inp = k.input_stream(frames)
                    got: list = []
                    valid_before = _valid_statement_rows(before)
                    try:
                        res = k.call(k.get(mod, parser), inp)
                        g = it.get_iter(res)
                        while True:
                            ok, item = it.next_value(g)
                            if not ok:
                                break
                            got.append(item)
                    except PyRaise as pr:
                        return ("raised", it.exc_class_name(pr.exc), len(got), valid_before, pr.site)
                    return ("accepted", None, len(got), valid_before, [repr(x)[:200] for x in got[-2:]])

                inst = f"{cls_id}: {desc} | {integ}.{parser} | {('every row in a frame of its own' if split_frames == 'per-row' else 'offending row in a later frame') if split_frames else 'single frame'}{' | after parsing another stream in the same process' if prior else ''}"
                for it, out in explore(prog, scenario, max_paths=16, generic_strings=True):
                    chk.paths += 1
                    chk.saw_functions(it)
                    if out[0] != "ok":
                        raise AssertionError("unreachable")
                    verdict, exc, n_yielded, valid_before, extra = out[1]
                    hint = probe[ci][6]
                    if "adapter" in hint.lower() or hint == "parse_jelly_flat":
                        construct = f"pyjelly.integrations.{integ}.parse:{hint}:{cls_id}"
                    else:
                        construct = f"{hint}:{cls_id}"
                    flat = parser.endswith("flat")
                    if verdict == "accepted":
                        chk.fail(rule, inst, construct, f"{desc}: parsing does not raise; last items delivered: {extra}", {"yielded": n_yielded})
                    elif flat and n_yielded > valid_before:
                        chk.fail(rule, inst, construct, f"{desc}: {n_yielded} items were delivered before the exception but only {valid_before} valid statements precede the offending row", {"exc": exc})
                    else:
                        chk.ok(rule, inst, {"raises": exc, "delivered_before": n_yielded})
    # controls: the valid parts parse
    for integ, mod, parser in parsers:

        def control(it: Interp) -> Any:
            k = K.Kit(it)
            w = K.Wire(it)
            frames = [w.frame([w.options_row(1, 0)] + _entries(w) + [_good_triple(w), _good_triple(w)])]
            return len(it.drain(k.call(k.get(mod, parser), k.input_stream(frames))))

        for it, out in explore(prog, control, max_paths=4, generic_strings=True):
            chk.paths += 1
            if out[0] == "ok":
                chk.ok("C16.TABLE.control", f"{integ}.{parser}", {"items": out[1]})
            else:
                chk.fail("C16.TABLE.control", f"{integ}.{parser}", f"pyjelly.integrations.{integ}.parse.{parser}", f"valid control stream raises {it.exc_class_name(out[1].exc)} at {out[1].site}")
