"""C03 — every emitted stream is valid Jelly for an independent decoder.

The abstract frames produced by the real serializer source are handed to jstat.refdec — a
decoder written from the specification that shares nothing with pyjelly.  It must find no
validity error (options first / repeated unchanged, ids within declared sizes and defined
earlier, zero forms per the delta rules, complete first statement and quoted triples, row kinds
per physical type, bracketing, namespace rows only in version 2) and must decode to the input.
"""
from __future__ import annotations

from typing import Any

from .. import corpus as C
from .. import pipe as P
from ..par import pmap
from ..report import Check
from ..values import Atom, sstr
from . import c01, c02, pipejob
from .c01 import _where, fit_presets

NS = [(sstr(Atom("pfx1", nosep=True)), sstr(Atom("ns1.iri"), "#")), ("", sstr(Atom("ns2.iri"), "/")), (sstr(Atom("pfx3", nosep=True)), sstr(Atom("ns3.whole", nosep=True)))]


def jobs_for(tier: str) -> list[dict]:
    jobs: list[dict] = []
    g = [j for j in c01.jobs_for(tier)]
    r = [j for j in c02.jobs_for(tier)]
    # the reader side is not needed here
    for j in g + r:
        j = dict(j)
        j["parsers"] = []
        jobs.append(j)
    # one stream reused for several sinks (grouped entry points), with and without namespace declarations
    for integ in ("generic", "rdflib"):
        for physical in (1, 2, 3):
            arity = 3 if physical == 1 else 4
            for name, stmts in C.sharing_sequences(arity) + C.repeat_masks(arity)[:4]:
                if integ == "rdflib" and not P.rdf11(stmts):
                    continue
                for logical in ((1, 3, None) if physical == 1 else (2, 4, None)):
                    for ns_on in (False, True):
                        for via in ("grouped2", "sink" if integ == "generic" else "store"):
                            if ns_on and logical is None:
                                # the caller explicitly asks for protocol version 1 together with namespace declarations
                                jobs.append(dict(integ=integ, physical=physical, name=name, stmts=stmts, preset=(8, 8, 8), delimited=True, frame_size=250, logical=logical, via=via, parsers=[], namespaces=NS, ns_on=True, version=1, generalized=integ == "generic", rdf_star=integ == "generic"))
                            jobs.append(dict(integ=integ, physical=physical, name=name, stmts=stmts, preset=(8, 8, 8), delimited=True, frame_size=250, logical=logical, via=via, parsers=[], namespaces=NS, ns_on=ns_on, generalized=integ == "generic", rdf_star=integ == "generic"))
    return jobs


def run(prog, job: dict) -> dict:
    j = dict(job)
    if "ns_on" in j:
        j["namespaces_bound"] = j.get("namespaces")
    return pipejob.run(prog, j)


def check(chk: Check) -> None:
    rv, rd, rn = "C03.REF.valid", "C03.REF.decodes-to-input", "C03.REF.namespace-rows"
    chk.rule(rv, "reference decoder finds no validity error in any emitted stream", floor=800)
    chk.rule(rd, "decoding by the specification's rules alone reproduces the input statements", floor=800)
    chk.rule(rn, "namespace rows appear iff namespace declarations are enabled (then version 2), and carry the bound (prefix, IRI) pairs", floor=40)
    chk.trusted += ["jstat.refdec implements the Jelly 1.1 decoding and validity rules (jstat/spec.py)", "protobuf carries the abstract messages faithfully"]
    chk.undecided += ["byte-level protobuf encoding", "streams for inputs outside the enumerated corpus"]
    jobs = fit_presets(jobs_for(chk.tier))
    for j in jobs:
        if "ns_on" in j:
            j["namespaces_flag"] = j["ns_on"]
    results = pmap(pipejob.run, [_prep(j) for j in jobs])
    from ..freeze import freeze

    for res, job in zip(results, jobs):
        if res is None:
            continue
        chk.functions.update(res["funcs"])
        jb = res["job"]
        cfg = f"{jb['integ']} physical={jb['physical']} preset={jb.get('preset')} delimited={jb.get('delimited')} frame_size={jb.get('frame_size')} logical={jb.get('logical')} via={jb.get('via')} ns={job.get('ns_on')}"
        for pi, rec in enumerate(res["paths"]):
            chk.paths += 1
            inst = f"{jb['name']} | {cfg}" + (f" | path {pi}" if len(res["paths"]) > 1 else "")
            if rec["writer"][0] == "raise":
                if res["typed"] and jb["preset"][2] == 0 and rec["writer"][1] == "JellyConformanceError":
                    continue
                chk.fail(rv, inst, f"pyjelly.integrations.{jb['integ']}.serialize:{_where(rec['writer'][2])}", f"serialising raises {rec['writer'][1]} at {rec['writer'][2]} ({cfg})")
                continue
            if rec["ref_errors"]:
                chk.fail(rv, inst, f"emitted-stream:{_classify(rec['ref_errors'][0])}", f"stream written for {jb['name']} ({cfg}) is not valid Jelly: {rec['ref_errors'][:3]}; rows {rec['frames']}")
            else:
                chk.ok(rv, inst, {"rows": rec["frames"]})
            items = tuple(x for x in rec["ref_items"] if x[0] != "ns")
            nsrows = tuple(x for x in rec["ref_items"] if x[0] == "ns")
            want = res["expected"]
            if jb["integ"] == "rdflib" or want is None:
                ok = c02._as_set(items) == c02._as_set(res["expected_set"])
                diff = pipejob.first_diff(c02._as_set(items), c02._as_set(res["expected_set"])) if not ok else ""
            else:
                ok = items == want
                diff = pipejob.first_diff(items, want) if not ok else ""
            if ok:
                chk.ok(rd, inst, {"statements": len(items)})
            elif jb["integ"] == "rdflib" and c02._as_set(P.fold_langcase(items)) == c02._as_set(P.fold_langcase(tuple(res["expected_set"]))):
                chk.fail(rd, inst, P.LANGCASE_CONSTRUCT, f"an independent decoder reads a language tag in a different spelling from the stream written for {jb['name']} ({cfg}): {diff}")
            else:
                chk.fail(rd, inst, f"emitted-stream:decodes-differently:{jb['integ']}", f"an independent decoder reads different statements from the stream written for {jb['name']} ({cfg}): {diff}")
            if "ns_on" in job:
                n_bind = len(NS) * (2 if jb["via"] == "grouped2" else 1)
                want_ns = tuple(("ns", freeze(p), freeze(i)) for p, i in NS)
                if not job["ns_on"]:
                    if nsrows:
                        chk.fail(rn, inst, f"pyjelly.integrations.{jb['integ']}.serialize:namespace-guard", f"namespace rows written although namespace_declarations is off ({cfg})")
                    else:
                        chk.ok(rn, inst, {"rows": 0})
                else:
                    if jb["integ"] == "generic" and jb["via"] not in ("sink", "grouped2"):
                        continue
                    uniq = tuple(dict.fromkeys(nsrows))
                    if uniq == want_ns and len(nsrows) == n_bind:
                        chk.ok(rn, inst, {"rows": len(nsrows)})
                    else:
                        chk.fail(rn, inst, f"pyjelly.integrations.{jb['integ']}.serialize.namespace_declarations", f"namespace rows {nsrows} differ from the bindings {want_ns} ({cfg})")
    chk.note(f"{len(jobs)} writer jobs audited by the reference decoder")


def _prep(j: dict) -> dict:
    j = dict(j)
    if "ns_on" in j:
        bound = j["namespaces"]
        j["namespaces"] = bound  # always bound on the source
        j["namespaces_enabled"] = j["ns_on"]
    return j


def _classify(err: str) -> str:
    for key, tag in (("first row", "options-first"), ("options row repeated", "options-repeat"), ("outside the declared table size", "id-range"), ("does not refer to a defined entry", "undefined-entry"), ("repeated", "incomplete-statement"), ("quoted triple", "quoted-triple"), ("not allowed in a stream of physical type", "row-kind"), ("graph", "bracketing"), ("namespace declaration in a version-1", "namespace-version"), ("generalized", "generalized-flag"), ("rdf_star", "rdf-star-flag")):
        if key in err:
            return tag
    return "other"
