"""C08 — delimited vs non-delimited framing is always detected correctly (finite; complete).

Ground truth is derived from the protobuf descriptor (tag bytes of RdfStreamFrame.rows and
RdfStreamRow.options, varint length encoding); the detector's source is evaluated by constant
propagation on every 3-byte header a valid stream can start with.
"""
from __future__ import annotations

from typing import Any

from .. import kit as K
from ..errors import AnalysisError
from ..interp import Interp, explore
from ..report import Check
from ..values import AIter, ExtObj, Msg, PyRaise


def varint(n: int) -> bytes:
    out = bytearray()
    while True:
        b = n & 0x7F
        n >>= 7
        if n:
            out.append(b | 0x80)
        else:
            out.append(b)
            return bytes(out)


def valid_headers(schema, lens: list[int]) -> list[tuple[str, bool, bytes]]:
    """(description, is_delimited, first three bytes) for every class of valid stream start."""
    rows_tag = bytes([schema.messages["RdfStreamFrame"].fields["rows"].tag_byte])
    row_fields = schema.messages["RdfStreamRow"].fields
    options_tag = bytes([row_fields["options"].tag_byte])
    other_row_tags = sorted({bytes([f.tag_byte]) for f in row_fields.values()})
    out: list[tuple[str, bool, bytes]] = []
    # non-delimited: the frame itself; first row of a valid stream is the options row
    for r in lens:
        if r == 0:
            continue  # an options row is never empty on the wire? it can be (all defaults) -> invalid: name table 0 < 8
        body = rows_tag + varint(r) + options_tag + b"\x00\x00\x00"
        out.append((f"non-delimited, options row of {r} bytes", False, body[:3]))
    # delimited: varint(frame length) + frame; first frame empty or starting with a row
    for l in lens:
        if l == 0:
            for nxt in lens:
                # next frame: its own length prefix then (if non-empty) the rows tag
                follow = varint(nxt) + (rows_tag + b"\x05" if nxt else b"\x00\x00")
                out.append((f"delimited, empty first frame, next frame {nxt} bytes", True, (b"\x00" + follow)[:3]))
            continue
        for r in lens:
            if 1 + len(varint(r)) + r > l:
                continue
            for tag in other_row_tags:
                if r == 0:
                    continue
                hdr = varint(l) + rows_tag + varint(r) + tag
                out.append((f"delimited, first frame {l} bytes, first row {r} bytes tag {tag.hex()}", True, hdr[:3]))
    return out


def check(chk: Check) -> None:
    prog = chk.program
    chk.rule("C08.TABLE.hint", "delimited_jelly_hint(header) equals the ground truth derived from the descriptor for every 3-byte header a valid stream can start with", floor=1000)
    chk.rule("C08.PATH.probe", "get_options_and_frames: probing leaves the read position unchanged; the hint selects length-prefixed iteration vs whole-input parse", floor=8)
    chk.exhaustive = True
    chk.trusted += ["protobuf wire format: tag byte = field<<3|wiretype, base-128 varints", "BufferedReader/BytesIO models (read advances, peek does not, seek(-n, SEEK_CUR) rewinds)"]
    chk.undecided += ["headers of invalid streams (first row not the options row)"]
    small = list(range(0, 140)) if chk.tier == "quick" else list(range(0, 400))
    lens = small + [255, 256, 300, 16383, 16384, 2**21 - 1, 2**21, 2**28]
    headers = valid_headers(prog.schema, lens)
    distinct: dict[bytes, tuple[str, bool]] = {}
    for desc, delim, hdr in headers:
        if len(hdr) < 3:
            continue
        prev = distinct.get(hdr)
        if prev is not None and prev[1] != delim:
            raise AnalysisError(f"C08: ground truth is ambiguous for header {hdr.hex()}: {prev[0]} vs {desc} — the format itself cannot be detected from 3 bytes")
        distinct.setdefault(hdr, (desc, delim))
    it = Interp(prog, max_steps=10**9)
    it.record_events = False
    k = K.Kit(it)
    fn = k.get(K.IO, "delimited_jelly_hint")
    construct = "pyjelly.parse.ioutils.delimited_jelly_hint"
    for hdr, (desc, delim) in sorted(distinct.items()):
        n0 = len(it.decisions)
        try:
            got = it.call(fn, [hdr], {})
        except PyRaise as pr:
            chk.fail("C08.TABLE.hint", hdr.hex(), construct, f"header {hdr.hex()} ({desc}) raises {it.exc_class_name(pr.exc)}")
            continue
        if len(it.decisions) != n0:
            raise AnalysisError("C08: detector is not a function of the header constants")
        if bool(got) == delim and isinstance(got, bool):
            chk.ok("C08.TABLE.hint", hdr.hex(), {"header": hdr.hex(), "class": desc, "delimited": delim})
        else:
            chk.fail("C08.TABLE.hint", hdr.hex(), construct, f"header {hdr.hex()} ({desc}) is classified as {'delimited' if got else 'non-delimited'}", {"header": hdr.hex(), "class": desc})
    chk.paths += len(distinct)
    chk.functions.add(construct)
    probe(chk)
    chk.part("stream-start", lambda: positioned(chk))
    chk.part("writer-prefix", lambda: writer_prefix(chk))
    chk.part("history", lambda: history(chk))
    chk.rule("C08.TABLE.writer-mode", "RDFLibJellySerializer.serialize writes length-prefixed frames iff params.delimited, for every logical type it accepts; non-delimited output is a single frame", floor=20)
    from . import c06

    chk.part("writer-mode", lambda: c06._writer_table(chk, "C08.TABLE.writer-mode"))


def probe(chk: Check) -> None:
    prog = chk.program
    rule = "C08.PATH.probe"
    construct = "pyjelly.parse.ioutils.get_options_and_frames"
    for seekable, extra in ((True, {}), (False, {}), (False, {"user_buffered_reader": True}), (True, {"user_buffered_reader": True})):
        for delim in (True, False):
            for hdr in ((b"\x20\x0a\x05", b"\x0a\x0a\x05", b"\x00\x0a\x0a") if delim else (b"\x0a\x05\x0a", b"\x0a\x0a\x0a")):

                def scenario(it: Interp) -> Any:
                    k = K.Kit(it)
                    w = K.Wire(it)
                    frames = [w.frame([w.options_row(1, 1)] + w.statement_rows(1, 1, "a"))]
                    if delim:
                        frames.append(w.frame(w.statement_rows(1, 1, "b")))
                    if hdr[0] == 0:
                        # a stream that starts with an empty frame, and has another one between two frames with rows
                        frames = [w.frame([]), frames[0], w.frame([]), frames[1]]
                    inp = K.models.make_input(AIter(iter(frames), "frames"), hdr, seekable=seekable, buffered=True, **extra)
                    opts, fr = it.unpack_values(k.call(k.get(K.IO, "get_options_and_frames"), inp))
                    got = it.drain(fr)
                    return frames, got, k.attr(opts, "params.delimited")

                inst = f"seekable={seekable}{' caller-supplied BufferedReader' if extra else ''} delimited={delim} header={hdr.hex()}"
                res = list(explore(prog, scenario, max_paths=8, generic_strings=True))
                chk.paths += len(res)
                for it, out in res:
                    chk.saw_functions(it)
                    if out[0] != "ok":
                        chk.fail(rule, inst, construct, f"valid {'delimited' if delim else 'non-delimited'} input raises {it.exc_class_name(out[1].exc)} at {out[1].site}")
                        continue
                    frames, got, flag = out[1]
                    mis = [e for e in it.events if e["kind"] == "misaligned"]
                    # how the frames were obtained: protobuf's length-prefixed reader, pyjelly's own frame-by-frame reader,
                    # or one parse of the whole input
                    used = set()
                    for e in it.events:
                        if e["kind"] == "io" and e["method"] == "parse_length_prefixed":
                            used.add("length-prefixed frames")
                        elif e["kind"] == "parse_input":
                            used.add("length-prefixed frames")
                        elif e["kind"] == "frame_pull" and e.get("whole"):
                            used.add("whole input as one frame")
                    if mis:
                        chk.fail(rule, inst, construct + (":seekable-branch" if seekable else ":non-seekable-branch"), f"frames are parsed from offset {mis[0]['offset']} instead of 0: the probe consumed header bytes")
                    elif flag != delim:
                        chk.fail(rule, inst, construct, f"options.params.delimited={flag} for a {'delimited' if delim else 'non-delimited'} input")
                    elif used != ({"length-prefixed frames"} if delim else {"whole input as one frame"}):
                        chk.fail(rule, inst, construct, f"{'delimited' if delim else 'non-delimited'} input is read with {sorted(used)}")
                    elif len(got) != len(frames) or any(a is not b and not freeze_eq(a, b) for a, b in zip(got, frames)):
                        chk.fail(rule, inst, construct, f"frames returned ({[len(K.Kit.rows_of(f)) for f in got]} rows) != frames in the input ({[len(K.Kit.rows_of(f)) for f in frames]} rows)" + (": an empty frame is taken for the end of the input" if len(got) < len(frames) and hdr[0] == 0 else ""))
                    else:
                        chk.ok(rule, inst, {"frames": len(got), "reader": sorted(used)})


def positioned(chk: Check) -> None:
    """C08.PATH.stream-start: the framing is decided from the first bytes OF THE STREAM, i.e. from the position at which
    the caller hands the source over (a Jelly payload embedded after an application header), for every public parser,
    both modes and the 0x0A-coincidence headers."""
    prog = chk.program
    rule = "C08.PATH.stream-start"
    chk.rule(rule, "every public parser classifies a stream handed over at a non-zero position (payload after a 4-byte application header) by the bytes at that position and reads it in that mode", floor=40)
    parsers = [(integ, mod, name) for integ, mod in (("generic", K.GP), ("rdflib", K.RP)) for name in ("parse_jelly_flat", "parse_jelly_grouped", "parse_jelly_to_graph")]
    for integ, mod, parser in parsers:
        for delim in (True, False):
            for hdr in ((b"\x20\x0a\x05", b"\x0a\x0a\x05") if delim else (b"\x0a\x05\x0a", b"\x0a\x0a\x0a")):
                for src, skw in (("BytesIO", dict(seekable=True, buffered=True)), ("seekable BufferedReader", dict(seekable=True, buffered=False, user_buffered_reader=True))):

                    def scenario(it: Interp) -> Any:
                        k = K.Kit(it)
                        w = K.Wire(it)
                        frames = [w.frame([w.options_row(1, 1)] + w.statement_rows(1, 1, "a"))]
                        if delim:
                            frames.append(w.frame(w.statement_rows(1, 1, "b")))
                        # the application header itself starts like a stream of the OTHER mode
                        app = b"\x0a\x05\x0a\x00" if delim else b"\x20\x0a\x05\x00"
                        inp = K.models.make_input(AIter(iter(frames), "frames"), app + hdr, start=4, **skw)
                        out = k.call(k.get(mod, parser), inp)
                        if not parser.endswith("to_graph"):
                            it.drain(out)
                        used = set()
                        for e in it.events:
                            if (e["kind"] == "io" and e["method"] == "parse_length_prefixed") or e["kind"] == "parse_input":
                                used.add("length-prefixed frames")
                            elif e["kind"] == "frame_pull" and e.get("whole"):
                                used.add("whole input as one frame")
                        return sorted(used), [e for e in it.events if e["kind"] == "misaligned"]

                    inst = f"{integ}.{parser} | {src} | delimited={delim} header={hdr.hex()} after a 4-byte application header"
                    construct = f"pyjelly.integrations.{integ}.parse.{parser}:stream-start"
                    for it, out in explore(prog, scenario, max_paths=8, generic_strings=True):
                        chk.paths += 1
                        chk.saw_functions(it)
                        if out[0] != "ok":
                            chk.fail(rule, inst, construct, f"valid {'delimited' if delim else 'non-delimited'} payload after an application header raises {it.exc_class_name(out[1].exc)} at {out[1].site}")
                            continue
                        used, mis = out[1]
                        if mis:
                            chk.fail(rule, inst, construct, f"the stream is read from offset {mis[0]['offset']} relative to where the caller handed the source over: the framing is decided from bytes that are not the first bytes of the stream")
                        elif used != (["length-prefixed frames"] if delim else ["whole input as one frame"]):
                            chk.fail(rule, inst, construct, f"{'delimited' if delim else 'non-delimited'} payload is read as {used}")
                        else:
                            chk.ok(rule, inst, {"reader": used})


BOUNDARY_SIZES = [0, 1, 9, 10, 11, 126, 127, 128, 129, 255, 256, 16382, 16383, 16384, 16385, 2**21 - 1, 2**21, 2**21 + 1, 2**28 - 1, 2**28, 2**31 - 1]


def writer_prefix(chk: Check) -> None:
    """write_delimited on frames of boundary sizes: what reaches the sink is protobuf's own length-prefixed
    serialisation, or hand-made bytes whose prefix is exactly the base-128 varint of the payload length."""
    prog = chk.program
    rule = "C08.TABLE.writer-prefix"
    chk.rule(rule, "write_delimited(frame, out): the bytes written are varint(len(frame bytes)) + frame bytes for frame sizes at every varint boundary; write_single writes the frame bytes alone", floor=20)
    construct = "pyjelly.serialize.ioutils.write_delimited"
    for size in BOUNDARY_SIZES:
        for fn_name in ("write_delimited", "write_single"):
            if fn_name == "write_single" and size not in (0, 10, 16384):
                continue

            def scenario(it: Interp) -> Any:
                k = K.Kit(it)
                w = K.Wire(it)
                frame = w.frame(w.statement_rows(1, 1, "a"))
                it.forced_frame_sizes = {frame.uid: size}
                out = K.models.make_output()
                k.call(k.get("pyjelly.serialize.ioutils", fn_name), frame, out)
                return frame, out.attrs["writes"]

            inst = f"{fn_name} frame of {size} bytes"
            for it, res in explore(prog, scenario, max_paths=4, generic_strings=True):
                chk.paths += 1
                if res[0] != "ok":
                    chk.fail(rule, inst, f"pyjelly.serialize.ioutils.{fn_name}", f"raises {it.exc_class_name(res[1].exc)} at {res[1].site}")
                    continue
                frame, writes = res[1]
                # flatten what was written into a list of parts: bytes | ('frame', msg) | ('lp', msg)
                parts: list = []
                for mode, data in writes:
                    if mode == "delimited":
                        parts.append(("lp", data))
                        continue
                    for p in data.attrs["parts"] if isinstance(data, ExtObj) and data.kind == "bytes:cat" else [data]:
                        if isinstance(p, bytes):
                            if parts and isinstance(parts[-1], bytes):
                                parts[-1] += p
                            elif p:
                                parts.append(p)
                        elif isinstance(p, ExtObj) and p.kind == "bytes:frame":
                            parts.append(("frame", p))
                        else:
                            raise AnalysisError(f"C08: untracked bytes written by {fn_name}: {p!r}")
                want_prefix = varint(size) if fn_name == "write_delimited" else b""
                if fn_name == "write_delimited" and len(parts) == 1 and parts[0][0] == "lp" and parts[0][1] is frame:
                    chk.ok(rule, inst, {"written": "protobuf serialize_length_prefixed"})
                    continue
                prefix = parts[0] if parts and isinstance(parts[0], bytes) else b""
                rest = parts[1:] if prefix else parts
                body_ok = len(rest) == 1 and rest[0][0] == "frame" and freeze_eq(rest[0][1].attrs["msg"], frame)
                if not body_ok:
                    chk.fail(rule, inst, f"pyjelly.serialize.ioutils.{fn_name}", f"writes {_show(parts)} for one frame")
                elif prefix != want_prefix:
                    chk.fail(rule, inst, f"pyjelly.serialize.ioutils.{fn_name}:length-prefix", f"a frame of {size} bytes is preceded by {prefix.hex() or 'nothing'}; the base-128 varint of {size} is {want_prefix.hex() or 'nothing (non-delimited)'}")
                else:
                    chk.ok(rule, inst, {"prefix": prefix.hex()})


def freeze_eq(a: Any, b: Any) -> bool:
    from ..freeze import freeze

    return freeze(a) == freeze(b)


def _show(parts: list) -> str:
    return "[" + ", ".join(p.hex() if isinstance(p, bytes) else p[0] for p in parts) + "]"


def history(chk: Check) -> None:
    """The mode reported for a stream comes from that stream's own first bytes, whatever was parsed before it."""
    prog = chk.program
    rule = "C08.PATH.history-independent"
    chk.rule(rule, "two streams with identical options rows, one delimited and one not, parsed one after the other in either order: each is reported (params.delimited) and read in its own mode", floor=4)
    for order in ((True, False), (False, True), (True, False, True), (False, True, False)):
        for seekable in (True, False):

            def scenario(it: Interp) -> Any:
                k = K.Kit(it)
                w = K.Wire(it)
                out = []
                for delim in order:
                    frames = [w.frame([w.options_row(1, 1)] + w.statement_rows(1, 1, "a"))]
                    if delim:
                        frames.append(w.frame(w.statement_rows(1, 1, "b")))
                    inp = K.models.make_input(AIter(iter(frames), "frames"), b"\x20\x0a\x05" if delim else b"\x0a\x05\x0a", seekable=seekable, buffered=True)
                    opts, fr = it.unpack_values(k.call(k.get(K.IO, "get_options_and_frames"), inp))
                    out.append((delim, k.attr(opts, "params.delimited"), len(it.drain(fr)), len(frames)))
                return out

            inst = f"order={'/'.join('delimited' if d else 'non-delimited' for d in order)} seekable={seekable}"
            for it, res in explore(prog, scenario, max_paths=8, generic_strings=True):
                chk.paths += 1
                if res[0] != "ok":
                    chk.fail(rule, inst, "pyjelly.parse.ioutils.get_options_and_frames:history", f"raises {it.exc_class_name(res[1].exc)} at {res[1].site}")
                    continue
                bad = [(i, d, flag, n, want) for i, (d, flag, n, want) in enumerate(res[1]) if flag != d or n != want]
                if bad:
                    i, d, flag, n, want = bad[0]
                    chk.fail(rule, inst, "pyjelly.parse.decode.options_from_frame:history", f"stream #{i + 1} ({'delimited' if d else 'non-delimited'}) is reported as delimited={flag} and yields {n} of {want} frames after the streams parsed before it")
                else:
                    chk.ok(rule, inst, {"streams": len(order)})
