"""C15 — all parsing entry points and both integrations agree.

Sibling cross-check on extracted semantics: (a) the six public parsers, run on the same abstract
frames, deliver corresponding statements; (b) the two serializers, given corresponding symbolic
data and equal options, emit structurally identical frames (hence, protobuf trusted, equal bytes).
"""
from __future__ import annotations

from typing import Any

from .. import corpus as C
from .. import pipe as P
from ..par import pmap
from ..report import Check
from . import c02, pipejob
from .c01 import fit_presets

SIX = [("generic", "parse_jelly_flat"), ("generic", "parse_jelly_grouped"), ("generic", "parse_jelly_to_graph"), ("rdflib", "parse_jelly_flat"), ("rdflib", "parse_jelly_grouped"), ("rdflib", "parse_jelly_to_graph")]


def jobs_for(tier: str) -> list[dict]:
    jobs = []
    for physical in (1, 2, 3):
        arity = 3 if physical == 1 else 4
        flat_lt = 1 if physical == 1 else 2
        seqs = C.kind_sequences(arity, C.RDF11_S, C.RDF11_P, C.RDF11_O, C.RDF11_G) + C.repeat_masks(arity) + [s for s in C.sharing_sequences(arity) if P.rdf11(s[1])]
        if physical == 3:
            # every graph in one consecutive run, default graph non-empty: both writers see the same grouping
            g1, g2 = P.t_iri("G1"), P.t_bnode("G2")
            run = [tuple(C.base(f"r{i}", 3) + [g]) for i, g in enumerate((P.DEFAULT, P.DEFAULT, g1, g1, g2))]
            seqs.append(("graphs default,default,g1,g1,g2 (one run each)", run))
        configs = [dict(delimited=True, frame_size=250, logical=flat_lt, preset=(8, 8, 8)), dict(delimited=True, frame_size=1, logical=flat_lt, preset=(8, 8, 8)), dict(delimited=False, frame_size=250, logical=flat_lt, preset=(8, 0, 0))]
        configs.append(dict(delimited=True, frame_size=250, logical=None, preset=(8, 8, 8)))
        configs.append(dict(delimited=True, frame_size=250, logical=3 if physical == 1 else 4, preset=(8, 8, 8)))
        configs.append(dict(delimited=True, frame_size=250, logical=13 if physical == 1 else 14, preset=(8, 8, 8)))
        if tier == "thorough":
            configs.append(dict(delimited=True, frame_size=250, logical=None, preset=(8, 3 if physical == 1 else 4, 1)))
        for name, stmts in seqs:
            for ci, cfg in enumerate(configs):
                if ci and name.split("=")[0] in ("s", "p") and tier == "quick":
                    continue
                for integ, via in (("generic", "generator"), ("rdflib", "generator"), ("generic", "sink"), ("rdflib", "store")):
                    if physical != 1 and via in ("sink", "store"):
                        continue  # a Dataset always carries its default graph and iterates in store order: no corresponding sequence
                    use = stmts
                    if via in ("sink", "store"):
                        use = list(dict.fromkeys(stmts))  # a store is a set: corresponding data has no duplicates
                    jobs.append(dict(integ=integ, physical=physical, name=name, stmts=use, via=via, parsers=SIX if via == "generator" or physical == 1 else [], generalized=False, rdf_star=False, **cfg))
    # option-driven flat entry points: the stream class is guessed by each integration from the same options
    for physical in (1, 2):
        arity = 3 if physical == 1 else 4
        for name, stmts in C.repeat_masks(arity)[:3] + [s_ for s_ in C.sharing_sequences(arity) if s_[0] in ("five-statements", "shared-prefixes-and-names")]:
            for logical in (None, 1 if physical == 1 else 2, 3, 13, 4, 14, 114):
                for integ in ("generic", "rdflib"):
                    jobs.append(dict(integ=integ, physical=physical, name=name + " [flat entry point]", stmts=stmts, via="flat", parsers=[], generalized=False, rdf_star=False, delimited=True, frame_size=250, logical=logical, preset=(8, 8, 8)))
    # namespace declarations through one reused stream (grouped entry points) and through containers, TRIPLES only
    from ..values import Atom, sstr

    ns = [(sstr(Atom("pfxA", nosep=True)), sstr(Atom("nsA.scheme", nosep=True), "/", Atom("nsA.path", nosep=True), "#")), ("", "http://example.org/x/")]
    for name, stmts in C.repeat_masks(3)[:2] + [s for s in C.sharing_sequences(3) if s[0] in ("shared-prefixes-and-names", "five-statements")]:
        for via_g, via_r in (("grouped2", "grouped2"), ("sink", "store")):
            for integ, via in (("generic", via_g), ("rdflib", via_r)):
                use = list(dict.fromkeys(stmts))
                jobs.append(dict(integ=integ, physical=1, name=name + " +namespaces", stmts=use, via=via, parsers=[], generalized=False, rdf_star=False, delimited=True, frame_size=250, logical=1, preset=(8, 8, 8), namespaces=ns, namespaces_enabled=True))
    return jobs


def check(chk: Check) -> None:
    ra, rb = "C15.TABLE.parsers-agree", "C15.TABLE.serializers-agree"
    chk.rule(ra, "the flat, grouped (concatenated) and to-graph parsers of both integrations deliver corresponding statements for the same frames", floor=300)
    chk.rule(rb, "generic and rdflib serializers emit structurally identical frames for corresponding data and equal options", floor=150)
    chk.trusted += ["rdflib model (insertion-ordered stores)", "protobuf is a function of the abstract message (equal messages => equal bytes)"]
    chk.undecided += ["byte equality on concrete inputs", "RDF-star / generalized data (no rdflib counterpart)"]
    jobs = fit_presets(jobs_for(chk.tier))
    results = pmap(pipejob.run, jobs)
    by_key: dict[tuple, dict[str, dict]] = {}
    for res, job in zip(results, jobs):
        if res is None:
            continue
        chk.functions.update(res["funcs"])
        jb = res["job"]
        key = (jb["physical"], jb["name"], jb["delimited"], jb["frame_size"], jb.get("logical"), tuple(jb["preset"]), "gen" if jb["via"] == "generator" else ("grouped" if jb["via"] == "grouped2" else ("flat" if jb["via"] == "flat" else "container")))
        by_key.setdefault(key, {})[jb["integ"]] = res
        # (a) parsers agree
        for pi, rec in enumerate(res["paths"]):
            chk.paths += 1
            if rec["writer"][0] != "ok" or not rec.get("readers"):
                continue
            inst = f"{jb['integ']}-written {jb['name']} physical={jb['physical']} delimited={jb['delimited']} frame_size={jb['frame_size']} preset={jb['preset']} via={jb['via']}"
            outs = {}
            bad = None
            for k_, out in rec["readers"].items():
                if out[0] != "ok":
                    bad = (k_, out)
                    break
                got = out[1]
                if k_.endswith("grouped"):
                    flat: list = []
                    for g in got:
                        flat.extend(g[1])
                    got = tuple(flat)
                outs[k_] = tuple(x for x in got if x[0] != "ns")
            if bad:
                chk.fail(ra, inst, f"pyjelly.{bad[0]}:raises", f"{bad[0]} raises {bad[1][1]} on a stream the other parsers accept ({inst})")
                continue
            ref_key = "generic.parse_jelly_flat"
            ref = outs[ref_key]
            disagree = None
            for k_, got in outs.items():
                if k_.endswith("to_graph") or (k_.startswith("rdflib") and k_.endswith("grouped")):
                    same = c02._as_set(got) == c02._as_set(ref)
                else:
                    same = got == ref
                if not same:
                    disagree = (k_, pipejob.first_diff(got, ref))
                    break
            if disagree:
                chk.fail(ra, inst, f"pyjelly.{disagree[0]}:disagrees", f"{disagree[0]} and {ref_key} return different statements for the same frames: {disagree[1]}")
            else:
                chk.ok(ra, inst, {"parsers": sorted(outs), "statements": len(ref)})
    # (a') the six parsers on streams of a foreign producer (entries and statements in different frames, empty frames, ...)
    from .. import refenc
    from . import c04

    fjobs = []
    for physical in (1, 2, 3):
        for name, stmts in c04.sequences(physical):
            if name not in ("long-mixed", "repeats"):
                continue
            for pol in (refenc.Policy(framing="per-row"), refenc.Policy(framing="empty-and-options", entries="redundant", ids="alternate"), refenc.Policy(framing="per-statement", evict="fifo", repeats="never"), refenc.Policy(framing="one", delimited=False)):
                fjobs.append(dict(physical=physical, logical=0, name=name, stmts=stmts, policy=pol, sizes=(8, 4 if physical == 1 else 5, 2), parsers=SIX, rdf11=True, ns=False))
    for res in pmap(c04.run, fjobs, min_parallel=4):
        if res is None:
            continue
        jb = res["job"]
        for p in res["paths"]:
            chk.paths += 1
            inst = f"foreign stream {jb['name']} physical={jb['physical']} | {jb['policy']}"
            outs = {}
            bad = None
            for k_, out in p["readers"].items():
                if out[0] != "ok":
                    bad = (k_, out)
                    break
                got = out[1]
                if k_.endswith("grouped"):
                    flat = []
                    for g in got:
                        flat.extend(g[1])
                    got = tuple(flat)
                outs[k_] = tuple(x for x in got if x[0] != "ns")
            if bad:
                chk.fail(ra, inst, f"pyjelly.{bad[0]}:raises", f"{bad[0]} raises {bad[1][1]} at {bad[1][2]} on a valid stream the reference decoder accepts ({jb['policy']})")
                continue
            ref = outs["generic.parse_jelly_flat"]
            dis = None
            for k_, got in outs.items():
                same = (c02._as_set(got) == c02._as_set(ref)) if (k_.endswith("to_graph") or (k_.startswith("rdflib") and k_.endswith("grouped"))) else got == ref
                if not same:
                    dis = (k_, pipejob.first_diff(got, ref))
                    break
            if dis:
                chk.fail(ra, inst, f"pyjelly.{dis[0]}:disagrees", f"{dis[0]} and generic.parse_jelly_flat return different statements for the same foreign stream: {dis[1]}")
            else:
                chk.ok(ra, inst, {"parsers": sorted(outs), "statements": len(ref)})
    # (b) serializers agree
    for key, pair in by_key.items():
        if "generic" not in pair or "rdflib" not in pair:
            continue
        g, r = pair["generic"], pair["rdflib"]
        inst = f"{key[1]} physical={key[0]} delimited={key[2]} frame_size={key[3]} logical={key[4]} preset={key[5]} input={key[6]}"
        for pg, pr in zip(g["paths"], r["paths"]):
            if pg["writer"][0] != "ok" or pr["writer"][0] != "ok":
                if pg["writer"][0] != pr["writer"][0]:
                    chk.fail(rb, inst, "pyjelly.integrations:serializer-outcome", f"one serializer raises and the other does not: generic {pg['writer']}, rdflib {pr['writer']}")
                else:
                    chk.ok(rb, inst, {"both": "raise"})
                continue
            if pg["frozen_frames"] == pr["frozen_frames"]:
                chk.ok(rb, inst, {"frames": pg["frames"]})
            elif key[0] == 3 and c02._as_set(pg["ref_items"]) == c02._as_set(pr["ref_items"]) and not pr["ref_errors"]:
                # same set of quads, valid stream: only grouping / order / duplicates / empty default graph differ
                chk.fail(rb, inst, "pyjelly.integrations.rdflib.serialize.graphs_stream_frames:regroup-through-dataset", f"GRAPHS from a quad generator: rdflib writes rows {pr['frames']}, generic writes {pg['frames']} for the same quads and options")
            elif not pr["ref_errors"] and not pg["ref_errors"] and (P.only_langcase_differs(pg["ref_items"], pr["ref_items"]) or (key[0] == 3 and c02._as_set(pg["ref_items"]) != c02._as_set(pr["ref_items"]) and c02._as_set(P.fold_langcase(pg["ref_items"])) == c02._as_set(P.fold_langcase(pr["ref_items"])))):
                chk.fail(rb, inst, P.LANGCASE_CONSTRUCT, f"the rdflib serializer elides a literal that equals the previous statement's only up to the case of its language tag; the generic serializer writes it: {pipejob.first_diff(pg['ref_items'], pr['ref_items'])}")
            else:
                chk.fail(rb, inst, "pyjelly.integrations:serializers-differ", f"frames differ for the same data and options: {pipejob.first_diff(pg['frozen_frames'], pr['frozen_frames'])}")
