"""C17 — arbitrary bytes cannot crash, hang or balloon the parser (structural clauses only).

Termination time, peak RSS and interpreter crashes are runtime quantities and are NOT decided.
Decided: (a) every allocation sized by a field of the options row is dominated by the 4096 cap
(taint + dominance on traces); (b) the only recursion on the parse path descends into a strict
sub-message; (c) every while loop on the parse path consumes input in its condition.
"""
from __future__ import annotations

import ast
from typing import Any

from .. import kit as K
from .. import pipe as P
from .. import spec
from ..errors import AnalysisError
from ..interp import Interp, explore
from ..report import Check
from ..values import Atom, Msg, PyRaise, Unknown, sstr

PARSE_MODULES = ["pyjelly.parse.ioutils", "pyjelly.parse.decode", "pyjelly.parse.lookup", "pyjelly.integrations.generic.parse", "pyjelly.integrations.rdflib.parse"]
CONSUMERS = {"parse_length_prefixed", "next", "read", "readline", "read1", "readinto", "popleft", "pop"}


def alloc_cap(chk: Check) -> None:
    rule = "C17.TAINT.alloc-cap"
    for table in ("names", "prefixes", "datatypes"):
        for size in (4097, 65_536, 10**6, 2**31 - 1, 2**32 - 1):
            for integ, mod in (("generic", K.GP), ("rdflib", K.RP)):
                for parser in ("parse_jelly_flat", "parse_jelly_grouped"):

                    def scenario(it: Interp) -> Any:
                        k = K.Kit(it)
                        w = K.Wire(it)
                        kw = {"names": 8, "prefixes": 8, "datatypes": 8}
                        kw[table] = size
                        frame = w.frame([w.options_row(1, 1, **kw)] + w.statement_rows(1))
                        return len(it.drain(k.call(k.get(mod, parser), k.input_stream([frame]))))

                    inst = f"{integ}.{parser} declared {table}={size}"
                    for it, out in explore(chk.program, scenario, max_paths=8, generic_strings=True):
                        chk.paths += 1
                        chk.saw_functions(it)
                        big = []
                        for e in it.events:
                            if e["kind"] == "alloc":
                                sz = e["size"]
                                if isinstance(sz, Unknown) or (isinstance(sz, int) and sz > spec.MAX_TABLE_ON_READ):
                                    big.append((e["what"], sz, e["site"]))
                        if big:
                            b = big[0]
                            chk.fail(rule, inst, f"{b[2][0]}.{b[2][2]}:allocation-before-cap", f"an allocation of size {b[1]!r} ({b[0]}) taken from the options row happens in {b[2][2]} without being dominated by the {spec.MAX_TABLE_ON_READ} cap")
                        elif out[0] == "ok":
                            chk.fail(rule, inst, "pyjelly.parse.lookup.LookupDecoder.__init__:cap", f"a stream declaring {table} table size {size} is accepted")
                        else:
                            chk.ok(rule, inst, {"rejected_with": it.exc_class_name(out[1].exc)})


def entry_id_cap(chk: Check) -> None:
    """Entry ids far beyond the declared size must be rejected without an allocation proportional to the id."""
    rule = "C17.TAINT.alloc-cap"
    for role, mtype in (("name", "RdfNameEntry"), ("prefix", "RdfPrefixEntry"), ("datatype", "RdfDatatypeEntry")):
        for ident in (5000, 30_000_000, 2**32 - 1):
            for integ, mod in (("generic", K.GP), ("rdflib", K.RP)):

                def scenario(it: Interp) -> Any:
                    k = K.Kit(it)
                    w = K.Wire(it)
                    frame = w.frame([w.options_row(1, 1, names=16, prefixes=16, datatypes=16), w.msg("RdfStreamRow", **{role: w.msg(mtype, id=ident, value=sstr(Atom("v")))})] + w.statement_rows(1))
                    return len(it.drain(k.call(k.get(mod, "parse_jelly_flat"), k.input_stream([frame]))))

                inst = f"{integ}.parse_jelly_flat {role} entry id {ident} with table size 16"
                for it, out in explore(chk.program, scenario, max_paths=8, generic_strings=True):
                    chk.paths += 1
                    big = [(e["what"], e["size"], e["site"]) for e in it.events if e["kind"] == "alloc" and (isinstance(e["size"], Unknown) or (isinstance(e["size"], int) and e["size"] > spec.MAX_TABLE_ON_READ))]
                    if big:
                        b = big[0]
                        chk.fail(rule, inst, f"{b[2][0]}.{b[2][2]}:allocation-sized-by-entry-id", f"an allocation of size {b[1]!r} ({b[0]}) driven by a declared entry id happens in {b[2][2]}")
                    elif out[0] == "ok":
                        chk.fail(rule, inst, "pyjelly.parse.lookup.LookupDecoder.assign_entry:range", f"an entry with id {ident} in a table of 16 is accepted")
                    else:
                        chk.ok(rule, inst, {"rejected_with": it.exc_class_name(out[1].exc)})


def iterator_nesting(chk: Check) -> None:
    """Leading empty frames must not build an iterator nested once per frame (C stack exhaustion on iteration)."""
    rule = "C17.PATH.iterator-nesting"
    depths = {}
    for n_empty in (1, 4, 9):

        def scenario(it: Interp) -> Any:
            k = K.Kit(it)
            w = K.Wire(it)
            frames = [w.frame([]) for _ in range(n_empty)] + [w.frame([w.options_row(1, 1)] + w.statement_rows(1))]
            opts, fr = it.unpack_values(k.call(k.get(K.IO, "get_options_and_frames"), k.input_stream(frames)))
            return len(it.drain(fr))

        for it, out in explore(chk.program, scenario, max_paths=4, generic_strings=True):
            chk.paths += 1
            if out[0] != "ok":
                chk.fail(rule, f"{n_empty} leading empty frames", "pyjelly.parse.ioutils.get_options_and_frames", f"raises {it.exc_class_name(out[1].exc)}")
                continue
            depths[n_empty] = max([e["depth"] for e in it.events if e["kind"] == "chain"] or [0])
    if depths and max(depths.values()) > 3 and depths.get(9, 0) > depths.get(1, 0) + 4:
        chk.fail(rule, "nesting grows with the number of empty frames", "pyjelly.parse.ioutils.get_options_and_frames:nested-chain", f"itertools.chain objects are nested once per leading empty frame (depths {depths}): iterating them recurses on the C stack, a few hundred thousand empty frames kill the interpreter")
    else:
        chk.ok(rule, "nesting independent of the number of empty frames", {"chain_depth_by_empty_frames": depths})


def recursion_shape(chk: Check) -> None:
    rule = "C17.PATH.structural-recursion"
    for depth in (1, 3, 6):

        def scenario(it: Interp) -> Any:
            k = K.Kit(it)
            w = K.Wire(it)
            inner = w.msg("RdfTriple", s_bnode="a", p_bnode="b", o_bnode="c")
            for _ in range(depth - 1):
                inner = w.msg("RdfTriple", s_bnode="a", p_bnode="b", o_triple_term=inner)
            top = w.msg("RdfTriple", s_bnode="a", p_bnode="b", o_triple_term=inner)
            frame = w.frame([w.options_row(1, 1, rdf_star=True), w.msg("RdfStreamRow", triple=top)])
            items = it.drain(k.call(k.get(K.GP, "parse_jelly_flat"), k.input_stream([frame])))
            return items

        inst = f"quoted triple nested {depth} deep"
        for it, out in explore(chk.program, scenario, max_paths=4, generic_strings=True):
            chk.paths += 1
            if out[0] != "ok":
                chk.fail(rule, inst, "pyjelly.parse.decode.Decoder.decode_quoted_triple", f"valid nested quoted triple raises {it.exc_class_name(out[1].exc)}")
                continue
            # recursion = re-entrant calls of the same function; each re-entry must receive a strict sub-message of the outer argument
            stack: list[tuple[str, Any]] = []
            ok = True
            max_reentry = 0
            cyc: set[str] = set()
            for e in it.events:
                if e["kind"] == "call":
                    arg = next((v for v in e["args"].values() if isinstance(v, Msg)), None)
                    same = [a for f, a in stack if f == e["func"]]
                    if same and arg is not None and same[-1] is not None:
                        cyc.add(e["func"])
                        max_reentry = max(max_reentry, len(same))
                        # walk parent pointers from arg up to the outer argument
                        cur, hops = arg, 0
                        found = False
                        while cur is not None and hops < 10:
                            if cur is same[-1]:
                                found = hops > 0
                                break
                            cur = cur.parent[0] if cur.parent else None
                            hops += 1
                        if not found:
                            ok = False
                    stack.append((e["func"], arg))
                elif e["kind"] in ("return", "unwind") and stack:
                    stack.pop()
            if not cyc and depth > 1:
                raise AnalysisError("C17: no recursion observed while decoding nested quoted triples (anchor changed)")
            if ok and max_reentry <= depth:
                chk.ok(rule, inst, {"recursive_functions": sorted(cyc), "max_reentry": max_reentry})
            else:
                chk.fail(rule, inst, "pyjelly.parse.decode.Decoder.decode_quoted_triple:recursion", f"a recursive call on the parse path does not descend into a strict sub-message of its argument (re-entries {max_reentry} for nesting {depth})")


def _names(node: ast.AST) -> set[str]:
    return {x.id for x in ast.walk(node) if isinstance(x, ast.Name)}


def _is_const_step(st: ast.stmt, test_vars: set[str]) -> bool:
    """i += 1 / i -= 2 / i = i + 1 on a variable of the loop condition: strict progress of a counter."""
    if isinstance(st, ast.AugAssign) and isinstance(st.target, ast.Name) and st.target.id in test_vars:
        return isinstance(st.op, (ast.Add, ast.Sub)) and isinstance(st.value, ast.Constant) and isinstance(st.value.value, int) and st.value.value != 0
    if isinstance(st, ast.Assign) and len(st.targets) == 1 and isinstance(st.targets[0], ast.Name) and st.targets[0].id in test_vars:
        v = st.value
        return isinstance(v, ast.BinOp) and isinstance(v.op, (ast.Add, ast.Sub)) and isinstance(v.left, ast.Name) and v.left.id == st.targets[0].id and isinstance(v.right, ast.Constant) and v.right.value not in (0, None)
    return False


def _consumes(node: ast.AST, params: set[str]) -> bool:
    """A call that reads from the input: a known consumer, or any call handed / invoked on a parameter or self attribute."""
    for c in ast.walk(node):
        if not isinstance(c, ast.Call):
            continue
        fname = c.func.attr if isinstance(c.func, ast.Attribute) else getattr(c.func, "id", "")
        if fname in CONSUMERS:
            return True
        if fname in ("len", "isinstance", "bool", "min", "max", "int", "str", "getattr", "type") or fname in NON_CONSUMING:
            continue
        involved = list(c.args) + ([c.func.value] if isinstance(c.func, ast.Attribute) else [])
        for a_ in involved:
            # names below a nested call are judged when the walk reaches that call (f(inp.peek(3)) hands f the bytes
            # peeked, not the input)
            if _names_outside_calls(a_) & params:
                return True
            if any(isinstance(x, ast.Attribute) and isinstance(x.value, ast.Name) and x.value.id == "self" for x in _walk_outside_calls(a_)):
                return True
    return False


# stream methods that look at the input without consuming it
NON_CONSUMING = {"peek", "tell", "seekable", "readable", "fileno", "isatty", "getvalue", "getbuffer"}


def _walk_outside_calls(node: ast.AST):
    if isinstance(node, ast.Call):
        return
    yield node
    for ch in ast.iter_child_nodes(node):
        yield from _walk_outside_calls(ch)


def _names_outside_calls(node: ast.AST) -> set[str]:
    return {x.id for x in _walk_outside_calls(node) if isinstance(x, ast.Name)}


def _all_paths_progress(body: list[ast.stmt], test_vars: set[str], params: set[str], has_exit: bool) -> bool:
    """Must-progress analysis over the structured CFG of a loop body: every path that reaches the back edge (end of the
    body or a `continue`) has executed a strict counter step, or an input-consuming call in a loop that also has an exit."""
    bad = []

    def step(st: ast.stmt) -> bool:
        return _is_const_step(st, test_vars) or (has_exit and _consumes(st, params))

    def walk(stmts: list[ast.stmt], prog: bool) -> list[bool]:
        states = [prog]
        for st in stmts:
            if not states:
                break
            nxt: list[bool] = []
            for p in states:
                if isinstance(st, ast.If):
                    p2 = p or (has_exit and _consumes(st.test, params))
                    nxt += walk(st.body, p2) + walk(st.orelse, p2)
                elif isinstance(st, ast.Continue):
                    if not p:
                        bad.append(st.lineno)
                elif isinstance(st, (ast.Break, ast.Return, ast.Raise)):
                    pass  # the path leaves the loop
                elif isinstance(st, ast.Try):
                    outs = walk(st.body, p)
                    for h in st.handlers:
                        outs += walk(h.body, p)
                    outs = [o for o0 in outs for o in walk(st.orelse, o0)] if st.orelse else outs
                    nxt += [o for o0 in outs for o in walk(st.finalbody, o0)] if st.finalbody else outs
                elif isinstance(st, ast.With):
                    nxt += walk(st.body, p)
                elif isinstance(st, (ast.For, ast.While)):
                    nxt.append(p)  # an inner loop may run zero times: no progress assumed
                else:
                    nxt.append(p or step(st))
            states = sorted(set(nxt))
        return states

    ends = walk(body, False)
    return not bad and all(ends)


def _regex_blowup(pattern: str) -> str | None:
    """Nested unbounded repetition whose iterations can split one run of characters in several ways
    (catastrophic backtracking): an unbounded repeat whose body is an unbounded repeat plus only optional items."""
    import re._parser as sre  # type: ignore[import-not-found]
    from re._constants import MAXREPEAT  # type: ignore[import-not-found]

    try:
        tree = sre.parse(pattern)
    except Exception:  # noqa: BLE001 - not a valid pattern: re.compile raises, nothing to analyse
        return None

    def unbounded(item) -> bool:
        op, av = item
        return str(op) in ("MAX_REPEAT", "MIN_REPEAT") and av[1] == MAXREPEAT

    def optional(item) -> bool:
        op, av = item
        return str(op) in ("MAX_REPEAT", "MIN_REPEAT") and av[0] == 0

    def items_of(sub) -> list:
        return list(sub)

    def walk(sub) -> str | None:
        for item in items_of(sub):
            op, av = item
            name = str(op)
            if name in ("MAX_REPEAT", "MIN_REPEAT"):
                body = items_of(av[2])
                # unwrap a single group
                while len(body) == 1 and str(body[0][0]) == "SUBPATTERN":
                    body = items_of(body[0][1][3])
                if av[1] == MAXREPEAT:
                    inner = [b for b in body if unbounded(b)]
                    rest = [b for b in body if not unbounded(b)]
                    if inner and all(optional(b) for b in rest):
                        return f"unbounded repetition of a group that is itself an unbounded repetition{' plus optional parts' if rest else ''}"
                r = walk(av[2])
                if r:
                    return r
            elif name == "SUBPATTERN":
                r = walk(av[3])
                if r:
                    return r
            elif name == "BRANCH":
                for alt in av[1]:
                    r = walk(alt)
                    if r:
                        return r
        return None

    return walk(tree)


def regex_rule(chk: Check) -> None:
    """Every regular expression literal used on the parse path must be free of nested unbounded repetition."""
    rule = "C17.TABLE.regex"
    n = 0
    for mod in PARSE_MODULES + ["pyjelly.options", "pyjelly.integrations.generic.generic_sink"]:
        tree = chk.program.modules.get(mod)
        if tree is None:
            continue
        for call in ast.walk(tree):
            if isinstance(call, ast.Call) and isinstance(call.func, ast.Attribute) and isinstance(call.func.value, ast.Name) and call.func.value.id == "re" and call.args and isinstance(call.args[0], ast.Constant) and isinstance(call.args[0].value, str):
                n += 1
                pat = call.args[0].value
                why = _regex_blowup(pat)
                inst = f"{mod}: re.{call.func.attr}({pat!r})"
                if why:
                    chk.fail(rule, inst, f"{mod}:regex:{pat[:40]}", f"regular expression {pat!r} applied to input-controlled text has {why}: matching time is exponential in the input length")
                else:
                    chk.ok(rule, inst, None)
    if n == 0:
        chk.ok(rule, "no regular expressions on the parse path", {"patterns": 0}, nontrivial=False)
    # positive control on every run: the rule must recognise the textbook cases
    for pat, expect in ((r"^(a+)+$", True), (r"^[a-zA-Z]+([-_]?[a-zA-Z0-9]+)*$", True), (r"^[a-zA-Z]{1,8}(-[a-zA-Z0-9]{1,8})*$", False), (r"^(\w+\s)*$", False)):
        got = _regex_blowup(pat) is not None
        if got != expect:
            raise AnalysisError(f"C17 regex rule self-test failed on {pat!r}: {got} != {expect}")


def loop_progress(chk: Check) -> None:
    rule = "C17.PATH.loop-progress"
    n = 0
    for mod in PARSE_MODULES:
        tree = chk.program.modules.get(mod)
        if tree is None:
            raise AnalysisError(f"anchor vanished: module {mod}")
        for fn in ast.walk(tree):
            if not isinstance(fn, ast.FunctionDef):
                continue
            params = {a.arg for a in fn.args.args + fn.args.kwonlyargs + fn.args.posonlyargs} - {"self", "cls"}
            for node in ast.walk(fn):
                if isinstance(node, ast.While):
                    n += 1
                    inst = f"{mod}.{fn.name}: while {ast.unparse(node.test)[:60]}"
                    has_exit = any(isinstance(x, (ast.Break, ast.Return, ast.Raise)) for b_ in node.body for x in ast.walk(b_))
                    if _consumes(node.test, params):
                        chk.ok(rule, inst, {"progress": "the condition consumes input"})
                    elif _all_paths_progress(node.body, _names(node.test), params, has_exit):
                        chk.ok(rule, inst, {"progress": "every path through the body steps a counter of the condition or consumes input (loop has an exit)"})
                    else:
                        chk.fail(rule, inst, f"{mod}.{fn.name}:while-without-progress", "a while loop on the parse path has a path back to its condition on which neither a counter of the condition is stepped nor input is consumed (with an exit at end of input): malformed or truncated input can make it spin forever")
    if n == 0:
        # the frame loop may be written without `while` (takewhile/iter(callable, sentinel)/recursion-free generators):
        # nothing to judge syntactically; termination at end of input is decided on the traces below
        chk.ok(rule, "no while loop on the parse path", {"loops": 0}, nontrivial=False)
    # termination at EOF: the frame iterator ends when the source is exhausted (0, 1, 3 frames)
    for nframes in (0, 1, 3):

        def scenario(it: Interp) -> Any:
            k = K.Kit(it)
            w = K.Wire(it)
            frames = [w.frame(w.statement_rows(1, 1, f"f{i}")) for i in range(nframes)]
            inp = k.input_stream(frames) if nframes else K.models.make_input(K.AIter(iter([]), "frames"), b"")
            return len(it.drain(k.call(k.get(K.IO, "frame_iterator"), inp)))

        for it, out in explore(chk.program, scenario, max_paths=4):
            chk.paths += 1
            inst = f"frame_iterator over {nframes} frames then EOF"
            if out[0] == "ok" and out[1] == nframes:
                chk.ok(rule, inst, {"frames": out[1]})
            else:
                chk.fail(rule, inst, "pyjelly.parse.ioutils.frame_iterator:eof", f"frame iterator over {nframes} frames yields {out[1] if out[0] == 'ok' else out[1]}")


def work_per_message(chk: Check) -> None:
    """Each sub-message of the input is handed to each decoding function a bounded number of times that does not grow
    with the nesting depth - also when the innermost message is malformed (a retry per level is exponential)."""
    rule = "C17.PATH.linear-work"
    for integ, mod in (("generic", K.GP), ("rdflib", K.RP)):
        for malformed in (False, True):
            visits_by_depth: dict[int, int] = {}
            outcome: dict[int, str] = {}
            for depth in (2, 4, 6):

                def scenario(it: Interp) -> Any:
                    k = K.Kit(it)
                    w = K.Wire(it)
                    inner = w.msg("RdfTriple", s_bnode="a", p_bnode="b") if malformed else w.msg("RdfTriple", s_bnode="a", p_bnode="b", o_bnode="c")
                    for _ in range(depth - 1):
                        inner = w.msg("RdfTriple", s_bnode="a", p_bnode="b", o_triple_term=inner)
                    top = w.msg("RdfTriple", s_bnode="a", p_bnode="b", o_triple_term=inner)
                    frame = w.frame([w.options_row(1, 1, rdf_star=True), w.msg("RdfStreamRow", triple=top)])
                    try:
                        it.drain(k.call(k.get(mod, "parse_jelly_flat"), k.input_stream([frame])))
                        return "parsed"
                    except PyRaise as pr:
                        return "raises " + it.exc_class_name(pr.exc)

                worst = 0
                for it, out in explore(chk.program, scenario, max_paths=4, generic_strings=True, max_steps=5_000_000):
                    chk.paths += 1
                    if out[0] != "ok":
                        raise AnalysisError(f"C17 linear-work scenario: {out[1]}")
                    outcome[depth] = out[1]
                    counts: dict[tuple[str, int], int] = {}
                    for e in it.events:
                        if e["kind"] == "call":
                            for v in e["args"].values():
                                if isinstance(v, Msg) and v.mtype == "RdfTriple":
                                    counts[(e["func"], v.uid)] = counts.get((e["func"], v.uid), 0) + 1
                    worst = max([worst] + list(counts.values()))
                visits_by_depth[depth] = worst
            inst = f"{integ}: quoted triples nested 2/4/6 deep, innermost {'without an object (malformed)' if malformed else 'complete'}"
            if rdflib_unsupported(integ, outcome):
                chk.ok(rule, inst, {"outcome": outcome}, nontrivial=False)
            elif visits_by_depth[6] > visits_by_depth[2]:
                chk.fail(rule, inst, "pyjelly.parse.decode.Decoder.decode_quoted_triple:repeated-work", f"the same sub-message is decoded up to {visits_by_depth} times (by nesting depth): work per message grows with the depth, i.e. exponentially in the input size")
            else:
                chk.ok(rule, inst, {"max_visits_per_message_by_depth": visits_by_depth, "outcome": outcome})


def rdflib_unsupported(integ: str, outcome: dict) -> bool:
    return False


def copy_growth(chk: Check) -> None:
    """Per-row work must not grow with the number of rows already seen: the elements copied while parsing N
    namespace declarations + N statements are counted for N = 2, 4, 8 (a container copied per row is quadratic)."""
    rule = "C17.PATH.linear-work"
    for integ, mod in (("generic", K.GP), ("rdflib", K.RP)):
        for parser in ("parse_jelly_flat", "parse_jelly_grouped", "parse_jelly_to_graph"):
            totals: dict[int, int] = {}
            worst_site: dict[int, Any] = {}
            for n in (2, 4, 8):

                def scenario(it: Interp) -> Any:
                    k = K.Kit(it)
                    w = K.Wire(it)
                    rows = [w.options_row(1, 1, version=2)]
                    for i in range(n):
                        rows.append(w.msg("RdfStreamRow", name=w.msg("RdfNameEntry", id=0, value=sstr(Atom(f"ns{i}.iri", nosep=True)))))
                        rows.append(w.msg("RdfStreamRow", namespace=w.msg("RdfNamespaceDeclaration", name=f"p{i}", value=w.msg("RdfIri", prefix_id=0, name_id=0))))
                    rows += w.statement_rows(1, n, "st")
                    res = k.call(k.get(mod, parser), k.input_stream([w.frame(rows)]))
                    if parser != "parse_jelly_to_graph":
                        it.drain(res)
                    return None

                for it, out in explore(chk.program, scenario, max_paths=4, generic_strings=True, max_steps=5_000_000):
                    chk.paths += 1
                    if out[0] != "ok":
                        raise AnalysisError(f"C17 copy-growth scenario ({integ}.{parser}, n={n}): {it.exc_class_name(out[1].exc)} at {out[1].site}")
                    copies = [e for e in it.events if e["kind"] == "copy" and isinstance(e.get("size"), int) and e["site"][0].startswith("pyjelly.")]
                    totals[n] = sum(e["size"] for e in copies)
                    by_site: dict[Any, int] = {}
                    for e in copies:
                        by_site[(e["site"][0], e["site"][2], e["what"])] = by_site.get((e["site"][0], e["site"][2], e["what"]), 0) + e["size"]
                    worst_site[n] = max(by_site.items(), key=lambda kv: kv[1]) if by_site else None
            inst = f"{integ}.{parser}: N namespace declarations and N statements, N = 2/4/8"
            m1 = (totals[4] - totals[2]) / 2
            m2 = (totals[8] - totals[4]) / 4
            if m2 > m1:
                site = worst_site[8][0]
                chk.fail(rule, inst, f"{site[0]}.{site[1]}:copy-per-row", f"elements copied while parsing grow faster than the input ({totals}): {site[2]} in {site[1]} copies a container that grows with the rows already seen - parsing is quadratic in the number of rows")
            else:
                chk.ok(rule, inst, {"elements_copied_by_n": totals})


def check(chk: Check) -> None:
    chk.rule("C17.PATH.linear-work", "every sub-message of a nested quoted triple is decoded a constant number of times, independent of the nesting depth, also when the innermost one is malformed", floor=4)
    chk.part("linear-work", lambda: work_per_message(chk))
    chk.part("copy-growth", lambda: copy_growth(chk))
    chk.rule("C17.TAINT.alloc-cap", "no allocation sized by an options-row field above 4096 happens before the stream is rejected", floor=50)
    chk.rule("C17.PATH.structural-recursion", "recursion on the parse path descends into a strict sub-message (depth bounded by protobuf's nesting limit)", floor=3)
    chk.rule("C17.PATH.loop-progress", "every while loop on the parse path consumes input; the frame iterator stops at EOF", floor=4)
    chk.trusted += ["protobuf's own parser limits (recursion depth 100, length checks)", "allocation events of the interpreter's models (seq*n, deque(maxlen))"]
    chk.undecided += ["wall time, peak RSS, interpreter crashes: runtime quantities, not decidable statically here"]
    chk.rule("C17.PATH.iterator-nesting", "the frame iterator handed out does not nest lazy iterators once per input frame", floor=1)
    chk.part("alloc-cap", lambda: alloc_cap(chk))
    chk.part("entry-id-cap", lambda: entry_id_cap(chk))
    chk.part("iterator-nesting", lambda: iterator_nesting(chk))
    chk.part("recursion-shape", lambda: recursion_shape(chk))
    chk.part("loop-progress", lambda: loop_progress(chk))
    chk.rule("C17.TABLE.regex", "regular expressions on the parse path have no nested unbounded repetition (catastrophic backtracking)", floor=1)
    chk.part("regex", lambda: regex_rule(chk))
