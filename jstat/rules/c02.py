"""C02 — rdflib Graph/Dataset round trip preserves the RDF data (structural clauses).

PIPE: RDFLibTermEncoder + streams -> Decoder + RDFLibAdapter family is the identity on symbolic
RDF 1.1 data (sets for stores, sequences for generators); graph bracketing; plugin glue.
"""
from __future__ import annotations

from typing import Any

from .. import corpus as C
from .. import kit as K
from .. import models_rdflib as R
from .. import pipe as P
from ..interp import Interp, explore
from ..par import pmap
from ..report import Check
from ..values import Atom, ExtObj, Msg, PyRaise, sstr
from . import pipejob
from .c01 import _where, fit_presets


def jobs_for(tier: str) -> list[dict]:
    jobs: list[dict] = []
    parsers = [("rdflib", "parse_jelly_flat"), ("rdflib", "parse_jelly_to_graph"), ("rdflib", "parse_jelly_grouped")]
    for physical in (1, 2, 3):
        arity = 3 if physical == 1 else 4
        flat_lt = 1 if physical == 1 else 2
        kinds = C.kind_sequences(arity, C.RDF11_S, C.RDF11_P, C.RDF11_O, C.RDF11_G)
        small = [s for s in C.repeat_masks(arity) + C.sharing_sequences(arity) if P.rdf11(s[1])]
        for name, stmts in kinds + small:
            for via in ("store", "generator"):
                jobs.append(dict(integ="rdflib", physical=physical, name=name, stmts=stmts, preset=(8, 8, 8), delimited=True, frame_size=250, logical=flat_lt, via=via, parsers=parsers, generalized=False, rdf_star=False))
        sweep = small + [k for k in kinds if k[0] in ("o=lit-typed", "o=lit-xsd", "o=lit-lang", "g=default", "g=bnode", "s=bnode", "s=iri-nosep")]
        for preset in ((8, 0, 8), (8, 8, 0), (8, 0, 0), "tight"):
            for name, stmts in sweep:
                pv = preset
                if preset == "tight":
                    n, pf, dt = P.table_needs(stmts)
                    pv = (max(8, n), max(1, pf), max(1, dt))
                jobs.append(dict(integ="rdflib", physical=physical, name=name, stmts=stmts, preset=pv, delimited=True, frame_size=250, logical=flat_lt, via="generator", parsers=parsers[:1], generalized=False, rdf_star=False))
        framings = [dict(delimited=True, frame_size=1, logical=flat_lt), dict(delimited=False, frame_size=250, logical=flat_lt), dict(delimited=True, frame_size=250, logical=None), dict(delimited=True, frame_size=250, logical=3 if physical == 1 else 4), dict(delimited=False, frame_size=250, logical=3 if physical == 1 else 4)]
        for fr in framings:
            for via in ("store", "generator"):
                for name, stmts in small:
                    jobs.append(dict(integ="rdflib", physical=physical, name=name, stmts=stmts, preset=(8, 8, 8), via=via, parsers=parsers, generalized=False, rdf_star=False, **fr))
        # statements as the bare tuples rdflib itself yields (Graph.triples(), Dataset.quads()), and the option-guessing flat entry point
        for via in ("generator-plain", "flat", "flat-plain"):
            if physical == 3:
                continue  # graphs_stream_frames reads quad.g: generator input must be pyjelly Quad objects
            for name, stmts in small[:6]:
                jobs.append(dict(integ="rdflib", physical=physical, name=name, stmts=stmts, preset=(8, 8, 8), via=via, parsers=parsers[:1], generalized=False, rdf_star=False, delimited=True, frame_size=250, logical=None if via.startswith("flat") else flat_lt))
    jobs += pipejob.scaled_jobs("rdflib", parsers)
    return jobs


def _as_set(items: Any) -> Any:
    return tuple(sorted(set(items), key=repr))


def judge(chk: Check, res: dict) -> None:
    rule = "C02.PIPE.identity"
    job = res["job"]
    cfg = f"physical={job['physical']} preset={job.get('preset')} delimited={job.get('delimited')} frame_size={job.get('frame_size')} logical={job.get('logical')} via={job.get('via')}"
    for pi, rec in enumerate(res["paths"]):
        chk.paths += 1
        inst = f"{job['name']} | {cfg}" + (f" | path {pi}" if len(res["paths"]) > 1 else "")
        if rec["writer"][0] == "raise":
            if res["typed"] and job["preset"][2] == 0 and rec["writer"][1] == "JellyConformanceError":
                chk.ok(rule, inst, {"writer": "refuses typed literal with disabled datatype table"})
            else:
                chk.fail(rule, inst, f"pyjelly.integrations.rdflib.serialize:{_where(rec['writer'][2])}", f"serialising {job['name']} raises {rec['writer'][1]} at {rec['writer'][2]} ({cfg})")
            continue
        want_set = _as_set(res["expected_set"])
        for key, out in rec["readers"].items():
            if out[0] == "raise":
                chk.fail(rule, f"{inst} | {key}", f"pyjelly.{key}:{_where(out[2])}", f"parsing pyjelly's own output raises {out[1]} at {out[2]}: {job['name']} ({cfg}); rows {rec['frames']}")
                continue
            got = out[1]
            if key.endswith("parse_jelly_grouped"):
                flat: list = []
                for g in got:
                    flat.extend(g[1])
                got = tuple(flat)
            # RDF data = set of triples/quads (stores are sets; a GRAPHS writer from a generator regroups through a Dataset)
            got_stmts = tuple(x for x in got if x[0] != "ns")
            if _as_set(got_stmts) == want_set:
                chk.ok(rule, f"{inst} | {key}", {"statements": len(want_set), "frames": rec["frames"]})
            elif _as_set(P.fold_langcase(got_stmts)) == _as_set(P.fold_langcase(tuple(want_set))):
                # the specific known defect: a literal equal to the previous statement's up to the case of its language tag is elided
                chk.fail(rule, f"{inst} | {key}", P.LANGCASE_CONSTRUCT, f"rdflib round trip changes the spelling of a language tag for {job['name']} ({cfg}) via {key}: {pipejob.first_diff(_as_set(got_stmts), want_set)}")
            else:
                chk.fail(rule, f"{inst} | {key}", f"pyjelly.integrations.rdflib:roundtrip:{job['name'].split('=')[0] if '=' in job['name'] else 'sequence'}", f"rdflib round trip changes the data for {job['name']} ({cfg}) via {key}: {pipejob.first_diff(_as_set(got_stmts), want_set)}", {"rows": rec["frames"]})


def bracket(chk: Check) -> None:
    """C02.PATH.bracket: GraphStream.graph puts graph_start (after its entries) before the first triple and exactly one
    graph_end after the last, for 0, 1, 2 triples and every graph-name kind."""
    rule = "C02.PATH.bracket"
    prog = chk.program
    for gkind in C.RDF11_G:
        for n in (0, 1, 2):
            for fs in (1, 250):

                def scenario(it: Interp) -> Any:
                    k = K.Kit(it)
                    opts = P.make_options(k, logical=2, frame_size=fs, generalized=False, rdf_star=False)
                    stream = k.method(k.get(K.ST, "GraphStream"), "for_rdflib", opts)
                    k.method(stream, "enroll")
                    gid = P.build_rdflib(C.term(gkind, "g"))
                    triples = [tuple(P.build_rdflib(t) for t in C.base(f"t{i}", 3)) for i in range(n)]
                    frames = it.drain(k.method(stream, "graph", gid, k.generator(triples)))
                    rest = k.method(k.attr(stream, "flow"), "to_stream_frame")
                    if rest is not None:
                        frames.append(rest)
                    kinds: list = []
                    for f in frames:
                        kinds.extend(K.Kit.row_kind(r) for r in K.Kit.rows_of(f))
                    return kinds

                inst = f"graph name {gkind}, {n} triples, frame_size {fs}"
                for it, out in explore(prog, scenario, max_paths=8, generic_strings=True):
                    chk.paths += 1
                    chk.saw_functions(it)
                    if out[0] != "ok":
                        chk.fail(rule, inst, "pyjelly.serialize.streams.GraphStream.graph", f"raises {it.exc_class_name(out[1].exc)} at {out[1].site}")
                        continue
                    kinds = [x for x in out[1] if x in ("graph_start", "graph_end", "triple", "quad")]
                    want = ["graph_start"] + ["triple"] * n + ["graph_end"]
                    if kinds == want:
                        chk.ok(rule, inst, {"rows": out[1]})
                    else:
                        chk.fail(rule, inst, "pyjelly.serialize.streams.GraphStream.graph:bracketing", f"rows for one graph with {n} triples are {kinds}, expected {want}")
                    # entries of the graph name precede the graph_start row
                    first_start = out[1].index("graph_start") if "graph_start" in out[1] else -1
                    late_entries = [x for x in out[1][first_start + 1 : first_start + 1] if x in ("name", "prefix")]
                    _ = late_entries


def glue(chk: Check) -> None:
    """C02.TABLE.glue: plugin serializer + plugin parser land the data in the caller's graph."""
    rule = "C02.TABLE.glue"
    prog = chk.program
    for quads in (False, True):
        for delim in (True, False):

            def scenario(it: Interp) -> Any:
                k = K.Kit(it)
                stmts = [tuple(C.base("a", 4 if quads else 3)), tuple(C.base("b", 4 if quads else 3))]
                store = P.rdflib_store_for(k, 2 if quads else 1, stmts)
                out = k.output()
                opts = P.make_options(k, logical=2 if quads else 1, delimited=delim, generalized=False, rdf_star=False)
                ser = k.new(K.RS, "RDFLibJellySerializer", store)
                k.method(ser, "serialize", out, options=opts)
                written = k.written_frames(out)
                frames = [f for _m, f in written]
                # parse back through the plugin parser into a caller-owned graph / dataset
                target = R.new_dataset(it) if quads else R.new_graph(it, R.uri(sstr(Atom("target-graph", nosep=True))))
                inp = k.input_stream(frames, delimited=delim)
                source = ExtObj("rdflib.InputSource", {"stream": inp})
                parser = k.new(K.RP, "RDFLibJellyParser")
                k.method(parser, "parse", source, target)
                return [m for m, _f in written], P.sink_items(k, "rdflib", target), P.expected_items(stmts, 2 if quads else 1)

            inst = f"quads={quads} delimited={delim}"
            for it, out in explore(prog, scenario, max_paths=8, generic_strings=True):
                chk.paths += 1
                chk.saw_functions(it)
                if out[0] != "ok":
                    chk.fail(rule, inst, "pyjelly.integrations.rdflib:plugin-glue", f"Graph.serialize/Graph.parse glue raises {it.exc_class_name(out[1].exc)} at {out[1].site}")
                    continue
                modes, got, want = out[1]
                from ..freeze import freeze

                if _as_set(freeze([g for g in got if g[0] != "ns"])) != _as_set(freeze(want)):
                    chk.fail(rule, inst, "pyjelly.integrations.rdflib.parse.RDFLibJellyParser.parse", f"data parsed into the caller's {'dataset' if quads else 'graph'} differs from what was serialised: {pipejob.first_diff(_as_set(freeze(got)), _as_set(freeze(want)))}")
                elif any(m != ("delimited" if delim else "single") for m in modes) or not modes:
                    chk.fail(rule, inst, "pyjelly.integrations.rdflib.serialize.RDFLibJellySerializer.serialize:writer-choice", f"params.delimited={delim} but frames were written as {modes}")
                else:
                    chk.ok(rule, inst, {"write_modes": modes, "statements": len(want)})


def check(chk: Check) -> None:
    chk.rule("C02.PIPE.identity", "rdflib writer∘reader composite preserves the set of triples/quads (RDF 1.1 kinds x slots, graph names incl. default, presets, framings, store/generator input, three parsers)", floor=400)
    chk.rule("C02.PATH.bracket", "GraphStream.graph: graph_start, the triples, exactly one graph_end, in that order", floor=20)
    chk.rule("C02.TABLE.glue", "RDFLibJellySerializer.serialize + RDFLibJellyParser.parse deliver the data into the caller's graph/dataset", floor=4)
    chk.trusted += ["rdflib term/graph model (jstat.models_rdflib): constructors store their arguments; lexical normalisation by rdflib is not modelled", "protobuf carries the abstract messages faithfully"]
    chk.undecided += ["rdflib's store, iteration order and literal normalisation", "concrete data beyond the enumerated kinds/patterns"]
    jobs = fit_presets(jobs_for(chk.tier))
    for res in pmap(pipejob.run, jobs):
        if res is None:
            continue
        chk.functions.update(res["funcs"])
        judge(chk, res)
    chk.note(f"{len(jobs)} pipeline jobs")
    chk.part("bracket", lambda: bracket(chk))
    chk.part("glue", lambda: glue(chk))
