"""C09 — parsing is independent of how the byte source chunks its reads.

The quantifier ranges over read schedules of the environment; what the code can be held to is
its use of the I/O API.  The rule is an I/O-contract (taint) rule on the resolved receiver of
every read-like call that the parsers make on their input.
"""
from __future__ import annotations

from typing import Any

from .. import kit as K
from ..interp import Interp, explore
from ..report import Check
from ..values import AIter, ExtObj

SOURCES = [
    ("in-memory buffer (BytesIO)", dict(seekable=True, buffered=True)),
    ("seekable BufferedReader over a raw file doing short reads (plain file, gzip member boundaries)", dict(seekable=True, buffered=False, user_buffered_reader=True)),
    ("non-seekable BufferedReader over a pipe/socket doing short reads", dict(seekable=False, buffered=False, user_buffered_reader=True)),
    ("non-seekable raw source with short reads (socket, pipe, HTTP response)", dict(seekable=False, buffered=False)),
]

PARSERS = [
    ("generic", K.GP, "parse_jelly_flat"),
    ("generic", K.GP, "parse_jelly_grouped"),
    ("generic", K.GP, "parse_jelly_to_graph"),
    ("rdflib", K.RP, "parse_jelly_flat"),
    ("rdflib", K.RP, "parse_jelly_grouped"),
    ("rdflib", K.RP, "parse_jelly_to_graph"),
]


def short_read_is_not_eof(chk: Check) -> None:
    """When pyjelly reads the input itself in chunks, a read that returns fewer bytes than asked for must not be taken for
    the end of the input: after a length test decided 'short', another read on the source must follow before the bytes
    read so far are consumed.  Entry points: the rdflib plugin parser (Graph.parse) and the public parsers."""
    prog = chk.program
    rule = "C09.TAINT.short-read-is-not-eof"
    chk.rule(rule, "a short (non-empty) read is never treated as end of input: after a length test on a possibly-short chunk decided 'short', the source is read again before the data is used", floor=8)
    from .. import models_rdflib as R
    from ..values import Atom, sstr

    entries = [("rdflib plugin RDFLibJellyParser.parse", "plugin")] + [(f"{integ}.{parser}", (mod, parser)) for integ, mod, parser in PARSERS[:1] + PARSERS[3:4]]
    for sname, skw in SOURCES:
        for delim in (True, False):
            for ename, entry in entries:

                def scenario(it: Interp) -> Any:
                    k = K.Kit(it)
                    w = K.Wire(it)
                    frames = [w.frame([w.options_row(1, 1)] + w.statement_rows(1, 1, "a"))]
                    if delim:
                        frames.append(w.frame(w.statement_rows(1, 1, "b")))
                    inp = K.models.make_input(AIter(iter(frames), "frames"), b"\x20\x0a\x05" if delim else b"\x0a\x05\x0a", **skw)
                    if entry == "plugin":
                        target = R.new_graph(it, R.uri(sstr(Atom("target-graph", nosep=True))))
                        k.method(k.new(K.RP, "RDFLibJellyParser"), "parse", ExtObj("rdflib.InputSource", {"stream": inp}), target)
                        return len(target.attrs["data"].items)
                    return len(it.drain(k.call(k.get(entry[0], entry[1]), inp)))

                inst = f"{sname} | delimited={delim} | {ename}"
                for it, out in explore(prog, scenario, max_paths=16, generic_strings=True):
                    chk.paths += 1
                    # a length test on a possibly-short chunk that came out as 'short' ...
                    bad = None
                    evs = it.events
                    for i, e in enumerate(evs):
                        if e["kind"] != "decision":
                            continue
                        key = e["key"]
                        while isinstance(key, tuple) and len(key) == 2 and key[0] in ("truth", "not"):
                            if key[0] == "not":
                                e = dict(e, value=not e["value"])
                            key = key[1]
                        op = key[1] if isinstance(key, tuple) and len(key) > 1 and key[0] == "cmp" else None
                        short = (op in ("Lt", "LtE", "NotEq") and e["value"]) or (op in ("Gt", "GtE", "Eq") and not e["value"])
                        if not short:
                            continue
                        # ... must be followed by another read before the chunks are used
                        for later in evs[i + 1 :]:
                            if later["kind"] == "io" and later["method"] in ("read", "read1", "readinto", "peek"):
                                break
                            if later["kind"] in ("consume_chunks", "parse_input") or (later["kind"] == "io" and later["method"] == "parse"):
                                bad = (e, later)
                                break
                        if bad:
                            break
                    if bad:
                        chk.fail(rule, inst, f"{bad[0]['site'][0]}.{bad[0]['site'][2]}:short-read-ends-input", f"in {bad[0]['site'][2]} a read that returned fewer bytes than requested ends the reading loop and the bytes read so far are used as the whole input: on a {sname} the rest of the stream is lost")
                    elif out[0] != "ok":
                        chk.ok(rule, inst, {"raises": it.exc_class_name(out[1].exc)}, nontrivial=False)
                    else:
                        chk.ok(rule, inst, {"items": out[1]})


def short_reads(chk: Check) -> None:
    """The environment delivers fewer bytes than asked to the first read that is allowed to be short (and, separately,
    hands over a source that is not positioned at 0): the frames parsed must be the ones parsed with full reads."""
    prog = chk.program
    rule = "C09.DIFF.short-first-read"
    chk.rule(rule, "with only 1 or 2 bytes delivered to the first short-able read, with MORE than the requested bytes handed to the probe (0x0A-coincidence headers), or with a source already positioned after an application header, the parser returns the same frames, read in the same mode", floor=30)
    for sname, skw in SOURCES:
        for delim in (True, False):
            # "full, ...": nothing is short, but the header is one of the 0x0A coincidences and the probe may be handed MORE
            # than the three bytes it asked for (peek returns the whole buffered chunk): how much the transport delivered
            # must not change the classification
            for variant in ("short=1", "short=2", "start=4", "full, frame/options length 10"):
                for integ, mod, parser in PARSERS[:1] + PARSERS[3:4]:

                    def scenario(it: Interp) -> Any:
                        k = K.Kit(it)
                        w = K.Wire(it)
                        frames = [w.frame([w.options_row(1, 1)] + w.statement_rows(1, 1, "a"))]
                        if delim:
                            frames.append(w.frame(w.statement_rows(1, 1, "b")))
                        hdr = b"\x20\x0a\x05" if delim else b"\x0a\x05\x0a"
                        if variant.startswith("full"):
                            hdr = b"\x0a\x0a\x05" if delim else b"\x0a\x0a\x0a"
                        kw = dict(skw)
                        if variant.startswith("full"):
                            pass
                        elif variant.startswith("short"):
                            kw["short_first_read"] = int(variant[-1])
                        else:
                            hdr = b"HDR:" + hdr
                            kw["start"] = 4
                        inp = K.models.make_input(AIter(iter(frames), "frames"), hdr, **kw)
                        got = it.drain(k.call(k.get(mod, parser), inp))
                        used = set()
                        for e in it.events:
                            if (e["kind"] == "io" and e["method"] == "parse_length_prefixed") or e["kind"] == "parse_input":
                                used.add("length-prefixed frames")
                            elif e["kind"] == "frame_pull" and e.get("whole"):
                                used.add("whole input as one frame")
                        it.events.append({"kind": "c09_reader", "used": sorted(used)})
                        return len(got), [e for e in it.events if e["kind"] == "misaligned"], [e for e in it.events if e["kind"] == "short_read"]

                    inst = f"{sname} | delimited={delim} | {variant} | {integ}.{parser}"
                    branch = "seekable-branch" if skw["seekable"] else "non-seekable-branch"
                    for it, out in explore(prog, scenario, max_paths=8, generic_strings=True):
                        chk.paths += 1
                        if out[0] != "ok":
                            shorted = [e for e in it.events if e["kind"] == "short_read"]
                            via = shorted[0]["method"] if shorted else "read"
                            if variant.startswith("short") and delim and shorted:
                                # the documented defect (known finding): a short header makes a delimited stream look non-delimited
                                chk.fail("C09.TAINT.exact-header", inst, f"pyjelly.parse.ioutils.get_options_and_frames:{branch}:{via}", f"header bytes come from {via}() which delivered {shorted[0]['got']} byte(s): the delimited stream is misread ({it.exc_class_name(out[1].exc)})")
                            else:
                                chk.fail(rule, inst, f"pyjelly.parse.ioutils.get_options_and_frames:{branch}:{variant.split('=')[0]}-{'delimited' if delim else 'nondelimited'}", f"valid {'delimited' if delim else 'non-delimited'} input raises {it.exc_class_name(out[1].exc)} at {out[1].site} when {'the first read delivers ' + variant[-1] + ' byte(s)' if variant.startswith('short') else 'the header is a 0x0A coincidence and every read is full' if variant.startswith('full') else 'the source is handed over positioned after a 4-byte application header'}")
                            continue
                        n, mis, shorted = out[1]
                        want = 2 if delim else 1
                        if mis:
                            chk.fail(rule, inst, f"pyjelly.parse.ioutils.get_options_and_frames:{branch}:{variant.split('=')[0]}-offset", f"frames are parsed from offset {mis[0]['offset']} relative to where the caller handed the source over")
                        elif n != want:
                            if variant.startswith("short") and delim and shorted:
                                chk.fail("C09.TAINT.exact-header", inst, f"pyjelly.parse.ioutils.get_options_and_frames:{branch}:{shorted[0]['method']}", f"header bytes come from {shorted[0]['method']}() which delivered {shorted[0]['got']} byte(s): {n} of {want} statements are returned")
                            else:
                                chk.fail(rule, inst, f"pyjelly.parse.ioutils.get_options_and_frames:{branch}:{variant.split('=')[0]}-{'delimited' if delim else 'nondelimited'}", f"{n} of {want} statements are returned")
                        elif variant.startswith("full") and [e["used"] for e in it.events if e["kind"] == "c09_reader"][-1:] != [["length-prefixed frames"] if delim else ["whole input as one frame"]]:
                            used = [e["used"] for e in it.events if e["kind"] == "c09_reader"][-1]
                            chk.fail(rule, inst, f"pyjelly.parse.ioutils.get_options_and_frames:{branch}:full-{'delimited' if delim else 'nondelimited'}", f"a {'delimited' if delim else 'non-delimited'} input whose header is a 0x0A coincidence is read as {used} when the probe is handed the whole buffered chunk")
                        else:
                            chk.ok(rule, inst, {"short_reads": len(shorted)})


def check(chk: Check) -> None:
    prog = chk.program
    chk.rule("C09.TAINT.exact-header", "the bytes handed to the framing detector come from a read that is exact-or-EOF for the receiver's class", floor=40)
    chk.rule("C09.OWN.wrapper", "once the input is wrapped in a BufferedReader every later read goes through the wrapper", floor=30)
    chk.rule("C09.TABLE.frame-reader", "length-prefixed frames are read from a buffered object (caller's buffered stream or pyjelly's wrapper)", floor=15)
    chk.trusted += ["io model: BufferedReader.read(n) is exact-or-EOF, peek(n) performs at most one raw read and may return fewer bytes; a caller-supplied buffered stream's read(n) is exact-or-EOF (documented input contract)"]
    chk.undecided += ["behaviour of third-party file objects that violate io.BufferedIOBase", "gzip internals"]
    for sname, skw in SOURCES:
        for delim, big in ((True, False), (False, False), (True, True)):
            for integ, mod, parser in PARSERS:

                def scenario(it: Interp) -> Any:
                    k = K.Kit(it)
                    w = K.Wire(it)
                    frames = [w.frame([w.options_row(1, 1)] + w.statement_rows(1, 1, "a"))]
                    if delim:
                        frames.append(w.frame(w.statement_rows(1, 1, "b")))
                    hdr = (b"\x80\x40\x0a" if big else b"\x20\x0a\x05") if delim else b"\x0a\x05\x0a"
                    inp = K.models.make_input(AIter(iter(frames), "frames"), hdr, **skw)
                    res = k.call(k.get(mod, parser), inp)
                    try:
                        it.drain(res)
                    except Exception:
                        if not (isinstance(res, ExtObj) or hasattr(res, "cls")):
                            raise
                    return None

                inst = f"{sname} | delimited={delim}{' first frame of 8192 bytes' if big else ''} | {integ}.{parser}"
                for it, out in explore(prog, scenario, max_paths=8, generic_strings=True):
                    chk.paths += 1
                    chk.saw_functions(it)
                    if out[0] != "ok":
                        chk.fail("C09.TAINT.exact-header", inst, "pyjelly.parse.ioutils.get_options_and_frames", f"valid input raises {it.exc_class_name(out[1].exc)} at {out[1].site}")
                        continue
                    hint_calls = [e for e in it.events if e["kind"] == "call" and e["func"] == "delimited_jelly_hint"]
                    ios = [e for e in it.events if e["kind"] == "io"]
                    # -- exact header
                    bad = None
                    for e in hint_calls:
                        hdr_val = next(iter(e["args"].values()), None)
                        if isinstance(hdr_val, ExtObj) and hdr_val.kind == "bytes:header":
                            if not hdr_val.attrs["exact"]:
                                bad = hdr_val.attrs["via"]
                        elif not isinstance(hdr_val, bytes):
                            bad = f"untracked value {hdr_val!r}"
                    branch = ("seekable-branch" if skw["seekable"] else "non-seekable-branch") + (":caller-buffered" if skw.get("user_buffered_reader") else "")
                    if not hint_calls:
                        chk.fail("C09.TAINT.exact-header", inst, "pyjelly.parse.ioutils.get_options_and_frames", "the framing detector is never consulted")
                    elif bad:
                        chk.fail(
                            "C09.TAINT.exact-header",
                            inst,
                            f"pyjelly.parse.ioutils.get_options_and_frames:{branch}:{bad}",
                            f"header bytes for delimited_jelly_hint come from {bad}() on a {sname}: a short first read yields fewer than 3 bytes and a delimited stream is classified as non-delimited",
                        )
                    else:
                        chk.ok("C09.TAINT.exact-header", inst, {"reads": [(e["method"], e.get("n")) for e in ios if e["method"] in ("read", "peek", "read1")]})
                    # -- wrapper ownership
                    raw_after = [e for e in ios if e.get("raw_after_wrap")]
                    # a wrapper that has read from an unbuffered source and is then dropped (detach) takes its read-ahead
                    # with it: no read may follow on that source
                    dropped = None
                    for i, e in enumerate(ios):
                        if e["method"] == "detach" and e.get("had_reads") and not skw["buffered"]:
                            later = [x for x in ios[i + 1 :] if x["method"] in ("read", "peek", "read1", "readinto", "parse_length_prefixed", "parse")]
                            if later:
                                dropped = (e, later[0])
                                break
                    if dropped:
                        chk.fail("C09.OWN.wrapper", inst, f"pyjelly.parse.ioutils:{branch}:wrapper-dropped", f"a BufferedReader that has read from the {sname} is detached and the source is read again afterwards ({dropped[1]['method']}): the bytes the dropped wrapper had buffered beyond what it returned are lost")
                    elif raw_after:
                        chk.fail("C09.OWN.wrapper", inst, f"pyjelly.parse.ioutils.get_options_and_frames:{branch}", f"{raw_after[0]['method']}() is called on the raw input after it was wrapped (bytes buffered by the wrapper are skipped)")
                    else:
                        chk.ok("C09.OWN.wrapper", inst, None)
                    # -- frame bodies read by pyjelly itself must come from exact reads
                    inexact = [e for e in it.events if e["kind"] == "parse_input" and not e["exact"]]
                    if inexact:
                        chk.fail("C09.TABLE.frame-reader", inst, f"pyjelly.parse.ioutils.frame_iterator:{inexact[0]['via']}", f"a frame body of {inexact[0]['n']} bytes is read with {inexact[0]['via']}(), which may return fewer bytes than requested on a {sname}: the frame is cut and the remainder is read as the next length prefix")
                        continue
                    own = [e for e in it.events if e["kind"] == "parse_input"]
                    # -- frame reader
                    if delim and own:
                        chk.ok("C09.TABLE.frame-reader", inst, {"own_reader": True, "reads": [(e["via"], e["n"]) for e in own]})
                    elif delim:
                        plp = [e for e in ios if e["method"] == "parse_length_prefixed"]
                        unbuffered = [e for e in plp if isinstance(e["recv"], ExtObj) and e["recv"].kind == "io.stream" and not e["recv"].attrs["buffered"]]
                        # reads on the raw object below a BufferedReader (the caller's or pyjelly's) bypass its buffer
                        unbuffered += [e for e in ios if e["method"] in ("read", "read1", "readinto") and isinstance(e["recv"], ExtObj) and e["recv"].kind == "io.stream" and e["recv"].attrs.get("wrapped_by_user")]
                        if not plp:
                            chk.fail("C09.TABLE.frame-reader", inst, "pyjelly.parse.ioutils.frame_iterator", "delimited input is not read with parse_length_prefixed")
                        elif unbuffered:
                            chk.fail("C09.TABLE.frame-reader", inst, "pyjelly.parse.ioutils.frame_iterator", "parse_length_prefixed reads from the raw unbuffered source (short reads tear frames)")
                        else:
                            chk.ok("C09.TABLE.frame-reader", inst, None)
    chk.part("short-reads", lambda: short_reads(chk))
    chk.part("short-read-is-not-eof", lambda: short_read_is_not_eof(chk))
