"""One writer->reader pipeline job, executed in a worker; shared by C01/C02/C03/C15/C19."""
from __future__ import annotations

from typing import Any

from .. import kit as K
from .. import pipe as P
from .. import refdec
from ..errors import AnalysisError
from ..freeze import freeze
from ..interp import Interp, explore
from ..values import Msg, PyRaise


def first_diff(a: Any, b: Any, path: str = "") -> str:
    if type(a) != type(b) and not (isinstance(a, (tuple, list)) and isinstance(b, (tuple, list))):
        return f"{path}: {a!r} != {b!r}"
    if isinstance(a, (tuple, list)):
        if len(a) != len(b):
            return f"{path}: length {len(a)} != {len(b)}: {a!r} vs {b!r}"[:600]
        for i, (x, y) in enumerate(zip(a, b)):
            d = first_diff(x, y, f"{path}[{i}]")
            if d:
                return d
        return ""
    return "" if a == b else f"{path}: {a!r} != {b!r}"


def frame_summary(frames: list) -> list:
    out = []
    for f in frames:
        if isinstance(f, Msg):
            out.append([K.Kit.row_kind(r) for r in K.Kit.rows_of(f)])
    return out


def scaled_jobs(integ: str, parsers: list) -> list[dict]:
    """Jobs re-run with every tunable integer constant of the source set to tunables.SCALE: five-statement
    sequences are then longer than any batch size, default frame size or chunk size written in the source."""
    from .. import tunables

    def iri(tag: str) -> tuple:
        return P.t_iri(tag)

    out: list[dict] = []
    g1, g2 = iri("g1"), iri("g2")
    for physical in (1, 2, 3):
        graphs = [g1, g1, g1, g2, g2]
        runs = [(iri(f"s{i}"), iri("p"), iri(f"o{i}")) + ((graphs[i],) if physical != 1 else ()) for i in range(5)]
        same = [(iri("s"), iri("p"), P.t_lit(f"o{i}")) + ((graphs[i],) if physical != 1 else ()) for i in range(5)]
        # the option-guessing flat entry point picks the stream class itself (never a GraphStream)
        vias = (("sink", "generator") if integ == "generic" else ("store", "generator")) + (("flat",) if physical != 3 else ())
        flat_lt = 1 if physical == 1 else 2
        for name, stmts in (("five statements, two graph runs", runs), ("five statements, same subject and predicate", same)):
            for via in vias:
                for frame_size in (250, None):
                    out.append(dict(integ=integ, physical=physical, name=f"{name} [tunables={tunables.SCALE}]", stmts=stmts, preset=(32, 8, 8), delimited=True, frame_size=frame_size, logical=None if via == "flat" else flat_lt, via=via, parsers=parsers, generalized=False, rdf_star=False, tunable_scale=tunables.SCALE, single_run=True))
    return out


def nonempty_graph_starts(frames: list) -> int:
    n, pending = 0, False
    for rows in frames:
        for kind in rows:
            if kind == "graph_start":
                pending = True
            elif kind == "graph_end":
                pending = False
            elif kind == "triple" and pending:
                n += 1
                pending = False
    return n


def _raises(res: dict) -> set:
    out = set()
    for rec in res["paths"]:
        if rec["writer"][0] == "raise":
            out.add(("writer", rec["writer"][1]))
        for key, r in rec.get("readers", {}).items():
            if r[0] == "raise":
                out.add((key, r[1]))
    return out


def run(prog, job: dict) -> dict:
    from .. import tunables

    return tunables.scaled_or_plain(_run, prog, job, _raises)


def _run(prog, job: dict) -> dict:
    """job: integ, physical, name, stmts, preset, delimited, frame_size, logical, via, parsers, namespaces"""
    integ = job["integ"]
    physical = job["physical"]
    stmts = job["stmts"]
    expected = P.expected_items(stmts, physical)
    if integ == "rdflib" and physical != 1:
        expected = None  # set semantics: compared as sets below

    def scenario(it: Interp) -> dict:
        k = K.Kit(it)
        rec: dict[str, Any] = {}
        try:
            opts = P.make_options(k, logical=job.get("logical"), delimited=job.get("delimited", True), frame_size=job.get("frame_size", 250), preset=job.get("preset", (8, 8, 8)), namespaces=job.get("namespaces_enabled", bool(job.get("namespaces"))), generalized=job.get("generalized", True), rdf_star=job.get("rdf_star", True), version=job.get("version"))
            writer = P.write_generic if integ == "generic" else P.write_rdflib
            frames, stream = writer(k, physical, stmts, opts, via=job.get("via", "sink" if integ == "generic" else "store"), namespaces=job.get("namespaces"))
        except PyRaise as pr:
            rec["writer"] = ("raise", it.exc_class_name(pr.exc), str(pr.site))
            return rec
        rec["writer"] = ("ok",)
        rec["frames"] = frame_summary(frames)
        rec["frozen_frames"] = freeze(frames)
        rec["flow_left"] = k.flow_len(stream)
        # reference decoder (independent of pyjelly)
        ref = refdec.decode(it.schema, frames)
        rec["ref_errors"] = list(ref.errors)
        rec["ref_items"] = freeze(P.unsplit(it, [i for i in ref.items]))
        rec["ref_per_frame"] = ref.per_frame
        rec["ref_graph_starts"] = ref.graph_starts
        rec["audit"] = {"redundant_entries": ref.redundant_entries[:5], "missed_elisions": ref.missed_elisions[:5], "missed_elision_terms": freeze(P.unsplit(it, [t for _o, t in ref.missed_elision_terms[:5]])), "missed_elision_slots": [o for o, _t in ref.missed_elision_terms[:5]], "missed_zero": ref.missed_zero[:5], "entries": dict(ref.entries), "elided": ref.elided_terms, "zero_forms": ref.zero_forms, "rows": ref.rows}
        # pyjelly's own readers
        rec["readers"] = {}
        for rinteg, parser in job.get("parsers", [(integ, "parse_jelly_flat")]):
            try:
                items = P.read_items(k, rinteg, parser, frames, delimited=job.get("delimited", True))
                rec["readers"][f"{rinteg}.{parser}"] = ("ok", freeze(P.unsplit(it, items)))
            except PyRaise as pr:
                rec["readers"][f"{rinteg}.{parser}"] = ("raise", it.exc_class_name(pr.exc), str(pr.site))
        return rec

    paths = []
    funcs: set[str] = set()
    tunables_hit: set[str] = set()
    for it, outcome in explore(prog, scenario, max_paths=job.get("max_paths", 256), generic_strings=True, tunable_scale=job.get("tunable_scale")):
        tunables_hit |= it.tunables_hit
        for e in it.events:
            if e["kind"] == "call":
                funcs.add(f"{e['module']}.{e['func']}")
        if outcome[0] != "ok":
            raise AnalysisError(f"pipeline scenario {job['name']}: uncaught {outcome[1]}")
        rec = outcome[1]
        rec["decisions"] = list(zip(it.tags, it.decisions))
        paths.append(rec)
    return {"job": {k_: v for k_, v in job.items() if k_ not in ("stmts",)}, "expected": freeze(expected) if expected is not None else None, "expected_set": freeze(sorted(P.expected_items(stmts, physical), key=repr)), "paths": paths, "funcs": sorted(funcs), "tunables_hit": sorted(tunables_hit), "typed": any(P.uses_typed_literal(t) for st in stmts for t in st)}
