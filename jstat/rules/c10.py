"""C10 — a truncated stream yields only a correct prefix of the data.

Whether a torn frame is rejected is protobuf's job (trusted: parse_length_prefixed returns a whole
message, None at a clean EOF, or raises).  Decided here: pyjelly's streaming parsers, fed by a
frame source that delivers j complete frames and then ends or raises, hand the caller exactly the
statements of those j frames, in order, before ending/raising (laziness + order rule on traces).
"""
from __future__ import annotations

from typing import Any

from .. import kit as K
from .. import pipe as P
from .. import refdec, refenc
from ..freeze import freeze
from ..interp import Interp, explore
from ..par import pmap
from ..report import Check
from ..values import AIter, ExtObj, PyRaise
from . import c04, pipejob


def _raises(res: dict) -> set:
    return {p.get("error") or p["ended"] for p in res["paths"] if "error" in p or p["ended"].startswith("raised")}


def run(prog, job: dict) -> dict:
    from .. import tunables

    return tunables.scaled_or_plain(_run, prog, job, _raises)


def _run(prog, job: dict) -> dict:
    physical, j, cut = job["physical"], job["complete"], job["cut"]
    integ, parser = job["integ"], job["parser"]

    def scenario(it: Interp) -> dict:
        k = K.Kit(it)
        w = K.Wire(it)
        stmts = c04.sequences(physical)[0][1][:6]
        enc = refenc.RefEncoder(w, physical, 0, (8, 5, 2), refenc.Policy(framing="per-statement"))
        for st in stmts:
            enc.statement(st)
        frames = enc.finish()
        delivered = frames[:j]
        per_frame = refdec.decode(it.schema, delivered).per_frame if delivered else []
        want = freeze([x for x in refdec.decode(it.schema, delivered).items]) if delivered else ()
        pulls = {"n": 0}

        def source():
            for f in delivered:
                pulls["n"] += 1
                it.emit("frame_delivered", index=pulls["n"])
                yield f
            pulls["n"] += 1
            if cut == "torn":
                raise PyRaise(ExtObj("exc:DecodeError", {"args": ("Truncated message.",)}), it.site)

        skw = {"seekable": {}, "raw-nonseekable": dict(seekable=False, buffered=False), "buffered-nonseekable": dict(seekable=False, buffered=False, user_buffered_reader=True)}[job.get("source", "seekable")]
        inp = K.models.make_input(AIter(source(), "frames"), b"\x20\x0a\x05", **skw)
        mod = K.GP if integ == "generic" else K.RP
        got: list = []
        ended = "returned"
        try:
            gen = it.get_iter(k.call(k.get(mod, parser), inp))
            while True:
                ok, item = it.next_value(gen)
                if not ok:
                    break
                if parser.endswith("grouped"):
                    got.append(freeze([x for x in P.sink_items(k, integ, item) if x[0] != "ns"]))
                else:
                    got.append(freeze((P.neutral_of_generic if integ == "generic" else P.neutral_of_rdflib)(it, item)))
        except PyRaise as pr:
            ended = "raised " + it.exc_class_name(pr.exc)
        return {"got": tuple(got), "want": want, "per_frame": per_frame, "ended": ended}

    paths = []
    funcs: set[str] = set()
    for it, outcome in explore(prog, scenario, max_paths=8, generic_strings=True, tunable_scale=job.get("tunable_scale")):
        for e in it.events:
            if e["kind"] == "call":
                funcs.add(f"{e['module']}.{e['func']}")
        paths.append(outcome[1] if outcome[0] == "ok" else {"error": str(outcome[1])})
    return {"job": job, "paths": paths, "funcs": sorted(funcs)}


def check(chk: Check) -> None:
    rule = "C10.PATH.prefix"
    chk.rule(rule, "after j complete frames followed by EOF or a torn frame, exactly the statements of those j frames were handed to the caller, in order", floor=60)
    chk.trusted += ["protobuf: parse_length_prefixed delivers whole frames, None at clean EOF, raises on a torn frame", "jstat.refenc/refdec"]
    chk.undecided += ["what protobuf does with a frame torn at a particular byte", "cuts inside the first three bytes (header shorter than the probe; parsing raises either way)"]
    jobs = []
    thorough = chk.tier == "thorough"
    for physical in (1, 2, 3):
        for j in ((0, 1, 2, 3, 4, 5, 6, 7) if thorough else (0, 1, 2, 4)):
            for cut in ("eof", "torn"):
                for integ in ("generic", "rdflib"):
                    for parser in ("parse_jelly_flat", "parse_jelly_grouped"):
                        jobs.append(dict(physical=physical, complete=j, cut=cut, integ=integ, parser=parser))
                        if (physical == 1 and j in (1, 2)) or (thorough and j in (0, 1, 2, 3, 5)):
                            for src in ("raw-nonseekable", "buffered-nonseekable"):
                                jobs.append(dict(physical=physical, complete=j, cut=cut, integ=integ, parser=parser, source=src))
    # thresholds written in the source (prefetch depths, batch and chunk sizes) scaled below the number of frames
    from .. import tunables

    # (not armed on the parse side: a truncated stream makes the unscaled twin raise as well, so a format bound written
    # as a literal — `_VARINT_MAX_BITS = 64` in benign patch B3-refactor3 — cannot be told from a threshold here)
    _ = tunables
    for res in pmap(run, jobs):
        if res is None:
            continue
        chk.functions.update(res["funcs"])
        jb = res["job"]
        inst = f"{jb['integ']}.{jb['parser']} physical={jb['physical']} {jb.get('source', 'seekable')} source complete_frames={jb['complete']} then {jb['cut']}" + (f" [tunables={jb['tunable_scale']}]" if jb.get("tunable_scale") else "")
        construct = f"pyjelly.integrations.{jb['integ']}.parse.{jb['parser']}:lazy-prefix"
        for p in res["paths"]:
            chk.paths += 1
            if "error" in p:
                chk.fail(rule, inst, construct, f"analysis scenario failed: {p['error']}")
                continue
            got, want = p["got"], p["want"]
            if jb["parser"].endswith("grouped"):
                flat = tuple(x for s in got for x in s)
                ok = flat == want and (jb["integ"] != "generic" or [len(s) for s in got] == [n for n in p["per_frame"]][: len(got)])
            else:
                flat = got
                ok = flat == want
            if jb["complete"] == 0:
                ok = len(flat) == 0  # nothing was delivered: nothing may be yielded
            if ok:
                chk.ok(rule, inst, {"yielded": len(flat), "ended": p["ended"]})
            elif len(flat) < len(want):
                chk.fail(rule, inst, construct, f"{len(want) - len(flat)} statements of fully delivered frames were lost: the parser {p['ended']} after yielding {len(flat)} of {len(want)} (frames are consumed ahead of / materialised before the caller)")
            else:
                chk.fail(rule, inst, construct, f"items yielded differ from the statements of the delivered frames: {pipejob.first_diff(flat, want)}")
