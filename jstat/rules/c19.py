"""C19 — compression contract: send each string once, elide repeats, use deltas.

Row-level audit, by the reference decoder, of the abstract streams the real serializer source
emits: no entry for a resident string, no term written that equals the previous statement's term
in that slot, zero form wherever the delta rule makes it equivalent, one graph start per run of
equal graph names.
"""
from __future__ import annotations

from .. import corpus as C
from .. import pipe as P
from ..par import pmap
from ..report import Check
from . import c01, c02, pipejob
from .c01 import fit_presets


def graph_runs(stmts: list) -> int:
    runs, prev = 0, object()
    for st in stmts:
        if st[3] != prev:
            runs += 1
            prev = st[3]
    return runs


XSD_PLAIN_CONSTRUCT = "pyjelly.serialize.encode.encode_spo:repeated-term-equality:xsd-string-vs-plain"
_SLOT = {"subject": 0, "predicate": 1, "object": 2, "graph": 3, "s": 0, "p": 1, "o": 2, "g": 3}


def xsd_vs_plain(stmts: list, slot: str, term: tuple) -> bool:
    """The specific known defect: the term written again is a literal without language tag whose lexical form occurs in
    that slot of the input both as a plain literal and typed xsd:string (one term on the wire and in RDF 1.1, two
    unequal objects for the term libraries' ==, which is what the elision compares)."""
    from ..freeze import freeze

    idx = _SLOT.get(slot.split("_")[0], _SLOT.get(slot[:1]))
    if idx is None or not (isinstance(term, tuple) and len(term) == 4 and term[0] == "lit" and term[2] is None and term[3] is None):
        return False
    same_lex = [st[idx] for st in stmts if len(st) > idx and st[idx][0] == "lit" and st[idx][2] is None and freeze(st[idx][1]) == term[1]]
    return any(t[3] is None for t in same_lex) and any(t[3] == P.XSD_STRING for t in same_lex)


def extra_jobs() -> list[dict]:
    """Streams whose compression depends on sites other than s/p/o of a plain statement."""
    from ..values import Atom, sstr

    def iri(tag: str, local: str) -> tuple:
        return ("iri", sstr(Atom(tag + ".scheme", nosep=True), "/", Atom(tag + ".path", nosep=True), "#", Atom(local + ".local", nosep=True)))

    out = []
    # an IRI used as graph name and as subject/object (graph metadata in the dataset), with and without a prefix table
    g1, g2 = iri("G", "g1"), iri("G", "g2")
    meta = [(g1, iri("V", "p"), g2, g1), (g2, iri("V", "p"), g1, g2), (iri("X", "s"), iri("V", "q"), g2, g1)]
    for integ in ("generic", "rdflib"):
        for physical in (2, 3):
            for preset in ((16, 0, 8), (16, 8, 8)):
                out.append(dict(integ=integ, physical=physical, name="graph names reused as terms", stmts=meta, via="generator", parsers=[], generalized=False, rdf_star=False, delimited=True, frame_size=250, logical=None, preset=preset))
    # namespace declarations share the delta chains: the same namespace under two labels, a namespace equal to the
    # first statement's, a declaration whose name entry follows the last used one
    ns_a = sstr(Atom("a.s.scheme", nosep=True), "/", Atom("a.s.path", nosep=True), "#")
    ns_b = sstr(Atom("nsB.scheme", nosep=True), "/", Atom("nsB.path", nosep=True), "/")
    bindings = [("one", ns_b), ("two", ns_b), ("", sstr(ns_b, Atom("nsB.more", nosep=True))), ("subj", ns_a)]
    for integ in ("generic", "rdflib"):
        for physical in (1, 2):
            arity = 3 if physical == 1 else 4
            stmts = [tuple(C.base("a", arity)), tuple(C.base("b", arity))]
            for preset in ((16, 8, 8), (16, 0, 8)):
                out.append(dict(integ=integ, physical=physical, name="namespace declarations", stmts=stmts, via="store", parsers=[], generalized=False, rdf_star=False, delimited=True, frame_size=250, logical=None, preset=preset, namespaces=bindings, namespaces_enabled=True))
    return out


def check(chk: Check) -> None:
    r1, r2, r3, r4 = "C19.AUDIT.no-redundant-entry", "C19.AUDIT.repeat-elided", "C19.AUDIT.zero-forms", "C19.AUDIT.graph-grouping"
    chk.rule(r1, "no lookup entry row is written for a string currently resident in that table", floor=800)
    chk.rule(r2, "no term is written that equals the previous statement's term in the same slot", floor=800)
    chk.rule(r3, "entry ids, prefix ids and name ids use 0 whenever the delta rule makes it equivalent", floor=800)
    chk.rule(r4, "GRAPHS streams written from a statement sequence: one graph start per run of consecutive equal graph names", floor=20)
    chk.trusted += ["jstat.refdec audit counters (specification delta rules)", "structural equality of symbolic strings"]
    chk.undecided += ["output size on concrete data"]
    jobs = []
    for j in c01.jobs_for(chk.tier) + c02.jobs_for(chk.tier):
        j = dict(j)
        j["parsers"] = []
        jobs.append(j)
    jobs += extra_jobs()
    jobs = fit_presets(jobs)
    from .. import tunables

    inv = tunables.inventory(chk.program)
    hit: set[str] = set()
    for job_in, res in zip(jobs, pmap(pipejob.run, jobs)):
        if res is None:
            continue
        chk.functions.update(res["funcs"])
        hit.update(res.get("tunables_hit", ()))
        jb = res["job"]
        cfg = f"{jb['integ']} physical={jb['physical']} preset={jb.get('preset')} delimited={jb.get('delimited')} frame_size={jb.get('frame_size')} logical={jb.get('logical')} via={jb.get('via')}"
        for pi, rec in enumerate(res["paths"]):
            chk.paths += 1
            if rec["writer"][0] != "ok":
                continue
            inst = f"{jb['name']} | {cfg}" + (f" | path {pi}" if len(res["paths"]) > 1 else "")
            a = rec["audit"]
            if a["redundant_entries"]:
                chk.fail(r1, inst, "pyjelly.serialize.encode.TermEncoder:redundant-entry", f"{a['redundant_entries'][0]} ({jb['name']}, {cfg})")
            else:
                chk.ok(r1, inst, {"entries": a["entries"]})
            if a["missed_elisions"]:
                construct = "pyjelly.serialize.encode:missed-elision"
                if all(xsd_vs_plain(job_in["stmts"], slot, term) for slot, term in zip(a["missed_elision_slots"], a["missed_elision_terms"])):
                    construct = XSD_PLAIN_CONSTRUCT
                chk.fail(r2, inst, construct, f"{a['missed_elisions'][0]} ({jb['name']}, {cfg})")
            else:
                chk.ok(r2, inst, {"elided_terms": a["elided"]})
            if a["missed_zero"]:
                chk.fail(r3, inst, f"pyjelly.serialize.lookup.LookupEncoder:missed-zero-{a['missed_zero'][0].split()[0]}", f"{a['missed_zero'][0]} ({jb['name']}, {cfg})")
            else:
                chk.ok(r3, inst, {"zero_forms": a["zero_forms"]})
            if jb["physical"] == 3 and jb["integ"] == "generic":
                # stmts are not in the result: recompute runs from the expected items
                runs = 0
                prev = object()
                for item in res["expected"]:
                    if item[4] != prev:
                        runs += 1
                        prev = item[4]
                if rec["ref_graph_starts"] == runs:
                    chk.ok(r4, inst, {"graph_starts": runs})
                else:
                    chk.fail(r4, inst, "pyjelly.integrations.generic.serialize.split_to_graphs", f"{rec['ref_graph_starts']} graph starts written for {runs} runs of equal graph names ({jb['name']}, {cfg})")
            elif jb["physical"] == 3 and jb["integ"] == "rdflib" and jb.get("single_run") and jb.get("via") == "generator":
                # the rdflib writer regroups a quad generator through a Dataset (C15's known finding) and may append an
                # empty default graph; on inputs in which every graph name forms ONE run the non-empty graphs written
                # must still be one per run
                names = []
                for item in res["expected_set"]:
                    if item[4] not in names:
                        names.append(item[4])
                got = pipejob.nonempty_graph_starts(rec["frames"])
                if got == len(names):
                    chk.ok(r4, inst, {"nonempty_graph_starts": got})
                else:
                    chk.fail(r4, inst, "pyjelly.integrations.rdflib.serialize.graphs_stream_frames", f"{got} non-empty graphs written for {len(names)} runs of equal graph names ({jb['name']}, {cfg})")
    chk.note(f"tunable integer constants of the source (scaled to {tunables.SCALE} in the [tunables=...] jobs): {inv['tunable']}; reached: {sorted(hit)}; specification constants kept: {inv['spec']}")
