"""C04 — every valid Jelly stream decodes to exactly the statements it encodes.

A reference encoder (jstat.refenc, a foreign producer built from the descriptor) emits abstract
streams under many combinations of legal choices; each stream is first validated by the
reference decoder (valid + denotes the intended statements), then handed to pyjelly's parser
source.  Plus: dispatch tables are exhaustive w.r.t. the descriptor.
"""
from __future__ import annotations

import ast
from typing import Any

from .. import corpus as C
from .. import kit as K
from .. import pipe as P
from .. import refdec, refenc
from ..errors import AnalysisError
from ..freeze import freeze
from ..interp import Interp, explore
from ..par import pmap
from ..report import Check
from ..values import ADict, MsgClass, Obj, PyRaise
from . import c02, pipejob

NS = [("ex", "http://example.org/ns#"), ("", "http://example.org/other/")]


def sequences(physical: int) -> list[tuple[str, list]]:
    arity = 3 if physical == 1 else 4
    out = []
    long = []
    for i in range(12):
        st = C.base(f"n{i % 7}", arity)  # 7 distinct subjects/predicates/objects cycling -> hits, misses, evictions
        st[1] = P.t_iri(f"p{i % 3}")
        if i % 4 == 1:
            st[2] = P.t_lit(f"l{i}", "typed")
        elif i % 4 == 2:
            st[2] = P.t_lit(f"l{i}", "lang")
        elif i % 4 == 3:
            st[2] = P.t_bnode(f"b{i}")
        if arity == 4:
            st[3] = [P.DEFAULT, P.t_iri("G1"), P.t_iri("G1"), P.t_bnode("G2")][i % 4]
        long.append(tuple(st))
    out.append(("long-mixed", long))
    rep = [tuple(C.base("a", arity)), tuple(C.base("a", arity)), tuple(C.base("a", arity)[:2] + C.base("b", arity)[2:]), tuple(C.base("a", arity))]
    out.append(("repeats", rep))
    q = list(C.base("q", arity))
    q[2] = P.t_triple(P.t_iri("q.qs"), P.t_iri("q.qp"), P.t_triple(P.t_bnode("q.qqs"), P.t_iri("q.qp"), P.t_lit("q.qqo", "typed")))
    q2 = list(C.base("q", arity))
    q2[0] = P.t_triple(P.t_iri("q.qs"), P.t_iri("q.qp"), P.t_lit("q.x", "plain"))
    out.append(("quoted", [tuple(q), tuple(q2), tuple(q)]))
    many_dt = []
    for i in range(12):
        st = C.base(f"d{i % 3}", arity)
        st[2] = ("lit", P.sstr(P.Atom(f"d{i}.lex")), None, P.sstr(P.Atom(f"DT{i}.dt")))
        many_dt.append(tuple(st))
    many_dt.append(many_dt[0])
    out.append(("many-datatypes", many_dt))
    if physical == 3:
        eg = [tuple(C.base("e0", 3) + [("lit", "", None, None)]), tuple(C.base("e1", 3) + [("lit", "", None, None)]), tuple(C.base("e2", 3) + [("lit", "0", None, P.sstr(P.Atom("xsd-integer.dt")))])]
        out.append(("falsy-literal-graph-names", eg))
    consts = [("iri", "http://example.org/a#b"), ("iri", "http://example.org/a#"), ("iri", "urn:isbn:1"), ("iri", ""), ("iri", "http://example.org/a/b/c"), ("iri", "http://example.org/a#b")]
    cs = []
    for i in range(0, len(consts) - 2):
        st = [consts[i], consts[i + 1], consts[i + 2]] + ([consts[(i + 3) % len(consts)]] if arity == 4 else [])
        cs.append(tuple(st))
    out.append(("constant-iris", cs))
    return out


def run(prog, job: dict) -> dict:
    physical, pol, stmts = job["physical"], job["policy"], job["stmts"]
    rdf11 = job["rdf11"]

    def scenario(it: Interp) -> dict:
        k = K.Kit(it)
        w = K.Wire(it)
        enc = refenc.RefEncoder(w, physical, job["logical"], job["sizes"], pol, version=2 if job["ns"] else 1)
        if job["ns"]:
            for p_, i_ in NS:
                enc.namespace(p_, i_)
        if pol.entries == "early" and len(stmts) > 1:
            enc.preload(stmts[1])
        for st in stmts:
            enc.statement(st)
        frames = enc.finish()
        ref = refdec.decode(it.schema, frames)
        want = P.expected_items(stmts, physical)
        want_ns = [("ns", p_, i_) for p_, i_ in NS] if job["ns"] else []
        if ref.errors or freeze(ref.items) != freeze(want_ns + want):
            raise AnalysisError(f"reference encoder produced a stream the reference decoder does not accept/denote: {ref.errors[:2]} {pipejob.first_diff(freeze(ref.items), freeze(want_ns + want))} policy {pol.key()}")
        out: dict[str, Any] = {"want": freeze(want), "want_ns": freeze(want_ns), "rows": pipejob.frame_summary(frames), "readers": {}}
        for integ, parser in job["parsers"]:
            try:
                items = P.read_items(k, integ, parser, frames, delimited=pol.delimited)
                out["readers"][f"{integ}.{parser}"] = ("ok", freeze(items))
            except PyRaise as pr:
                out["readers"][f"{integ}.{parser}"] = ("raise", it.exc_class_name(pr.exc), str(pr.site))
        return out

    paths = []
    funcs: set[str] = set()
    for it, outcome in explore(prog, scenario, max_paths=16, generic_strings=True):
        for e in it.events:
            if e["kind"] == "call":
                funcs.add(f"{e['module']}.{e['func']}")
        if outcome[0] != "ok":
            raise AnalysisError(f"C04 scenario: uncaught {outcome[1]}")
        paths.append(outcome[1])
    return {"job": {"physical": physical, "policy": pol.key(), "name": job["name"], "sizes": job["sizes"], "ns": job["ns"]}, "paths": paths, "funcs": sorted(funcs)}


def dispatch_tables(chk: Check) -> None:
    """Row and term dispatch tables are exhaustive w.r.t. the descriptor (table rule)."""
    prog = chk.program
    it = Interp(prog)
    k = K.Kit(it)
    dec_cls = k.get(K.DE, "Decoder")
    schema = prog.schema
    row_types = {f.type_name for f in schema.messages["RdfStreamRow"].fields.values()}
    term_types: set[str] = set()
    for mname in ("RdfTriple", "RdfQuad", "RdfGraphStart"):
        for f in schema.messages[mname].fields.values():
            term_types.add(f.type_name if f.is_message else "str")
    for attr, want, what in (("_ROW_HANDLER_NAMES", row_types, "row"), ("_TERM_HANDLER_NAMES", term_types, "term")):
        table = it.getattr(dec_cls, attr)
        if not isinstance(table, ADict):
            raise AnalysisError(f"C04: Decoder.{attr} is not a mapping literal")
        keys = set()
        for key, name in table.pairs:
            keys.add(key.mtype if isinstance(key, MsgClass) else ("str" if repr(key) == "<ext builtins.str>" else repr(key)))
            target = it.lookup_class_attr(dec_cls, name) if isinstance(name, str) else None
            if target is None or target.__class__.__name__ == "_Missing":
                chk.fail("C04.TABLE.dispatch", f"{what} handler {name}", f"pyjelly.parse.decode.Decoder.{attr}", f"handler name {name!r} does not resolve to a method of Decoder")
        missing = want - keys
        if missing:
            chk.fail("C04.TABLE.dispatch", f"{what} dispatch keys", f"pyjelly.parse.decode.Decoder.{attr}", f"{what} kinds of the wire schema without a handler: {sorted(missing)}")
        else:
            chk.ok("C04.TABLE.dispatch", f"{what} dispatch keys", {"keys": sorted(keys)})


def unsupported_refused(chk: Check) -> None:
    """A valid stream that uses a feature an integration does not implement (quoted triples through the rdflib adapter)
    is refused with an exception; it is never delivered with a fabricated term in its place."""
    from ..values import Atom, PyRaise, sstr
    from .. import kit as K

    rule = "C04.REF.unsupported-refused"
    chk.rule(rule, "a valid RDF-star stream read through the rdflib integration (which has no quoted-triple term) raises; the generic integration decodes it", floor=4)
    for parser in ("parse_jelly_flat", "parse_jelly_grouped", "parse_jelly_to_graph"):
        for integ, mod in (("rdflib", K.RP), ("generic", K.GP)):

            def scenario(it: Interp) -> Any:
                k = K.Kit(it)
                w = K.Wire(it)
                inner = w.msg("RdfTriple", s_bnode=sstr(Atom("q.s")), p_bnode=sstr(Atom("q.p")), o_bnode=sstr(Atom("q.o")))
                rows = [w.options_row(1, 1, rdf_star=True, generalized_statements=True), w.msg("RdfStreamRow", triple=w.msg("RdfTriple", s_bnode=sstr(Atom("s")), p_bnode=sstr(Atom("p")), o_triple_term=inner))]
                res = k.call(k.get(mod, parser), k.input_stream([w.frame(rows)]))
                if parser == "parse_jelly_to_graph":
                    return P.sink_items(k, integ, res)
                items = it.drain(res)
                return [P.sink_items(k, integ, x) for x in items] if parser.endswith("grouped") else [(P.neutral_of_generic if integ == "generic" else P.neutral_of_rdflib)(it, x) for x in items]

            inst = f"{integ}.{parser}: triple whose object is a quoted triple"
            for it, out in explore(chk.program, scenario, max_paths=4, generic_strings=True):
                chk.paths += 1
                if integ == "rdflib":
                    if out[0] != "ok":
                        chk.ok(rule, inst, {"refused": it.exc_class_name(out[1].exc)})
                    else:
                        chk.fail(rule, inst, "pyjelly.parse.decode.Adapter.quoted_triple:not-refused", f"the rdflib integration has no term for a quoted triple, yet parsing returns normally with {str(out[1])[:200]}: a fabricated term is delivered instead of an error")
                else:
                    if out[0] == "ok":
                        chk.ok(rule, inst, None)
                    else:
                        chk.fail(rule, inst, f"pyjelly.integrations.generic.parse.{parser}", f"the generic integration raises {it.exc_class_name(out[1].exc)} on a valid RDF-star stream")


def check(chk: Check) -> None:
    chk.part("unsupported-refused", lambda: unsupported_refused(chk))
    rule = "C04.REF.decodes"
    chk.rule(rule, "streams of a foreign producer (arbitrary legal eviction, split, id, entry, repeat and framing choices) decode to exactly the statements they denote", floor=300)
    chk.rule("C04.TABLE.dispatch", "row and term dispatch tables cover every kind of the wire schema and resolve to methods", floor=2)
    chk.trusted += ["jstat.refenc/refdec implement the Jelly 1.1 rules; every generated stream is validated by refdec before use"]
    chk.undecided += ["streams of an actual third-party encoder end to end", "choices outside the enumerated policy space"]
    pols = refenc.policies(chk.tier)
    jobs = []
    for physical in (1, 2, 3):
        for name, stmts in sequences(physical):
            rdf11 = name in ("long-mixed", "repeats", "many-datatypes")
            for pi_, pol in enumerate(pols):
                if name in ("many-datatypes", "falsy-literal-graph-names") and pi_ >= 8:
                    continue
                sizes = (8, 4 if physical == 1 else 5, 2)
                if pol.split == "none":
                    sizes = (8, 0, 2) if pol.evict == "lru" else sizes
                if name == "many-datatypes":
                    sizes = (8, 4 if physical == 1 else 5, 12)  # the datatype table is larger than the name table
                flat_lt = 1 if physical == 1 else 2
                parsers = [("generic", "parse_jelly_flat")]
                if rdf11 or name == "falsy-literal-graph-names":
                    parsers.append(("rdflib", "parse_jelly_flat"))
                if pol.framing in ("one", "empty-and-options"):
                    parsers += [("generic", "parse_jelly_to_graph"), ("generic", "parse_jelly_grouped")]
                jobs.append(dict(physical=physical, logical=flat_lt if pol.framing != "per-statement" else 0, name=name, stmts=stmts, policy=pol, sizes=sizes, parsers=parsers, rdf11=rdf11, ns=(name == "repeats" and pol.ids != "explicit")))
    for res in pmap(run, jobs):
        if res is None:
            continue
        chk.functions.update(res["funcs"])
        jb = res["job"]
        for p in res["paths"]:
            chk.paths += 1
            for key, out in p["readers"].items():
                inst = f"{jb['name']} physical={jb['physical']} sizes={jb['sizes']} ns={jb['ns']} | {jb['policy']} | {key}"
                if out[0] == "raise":
                    chk.fail(rule, inst, f"pyjelly.{key}:rejects-valid:{c01_where(out[2])}", f"a valid stream ({jb['policy']}) is rejected with {out[1]} at {out[2]}; rows {p['rows'][:3]}")
                    continue
                got = out[1]
                if key.endswith("grouped") and len(got) != len(p["rows"]):
                    chk.fail(rule, inst, f"pyjelly.{key}:one-sink-per-frame", f"valid stream of {len(p['rows'])} frames ({jb['policy']}) is delivered as {len(got)} graphs/datasets by the grouped parser")
                    continue
                if key.endswith("grouped"):
                    flat: list = []
                    for g in got:
                        flat.extend(g[1])
                    got = tuple(flat)
                stmts_got = tuple(x for x in got if x[0] != "ns")
                ns_got = tuple(x for x in got if x[0] == "ns")
                same = (c02._as_set(stmts_got) == c02._as_set(p["want"])) if key.endswith("to_graph") else stmts_got == p["want"]
                if not same:
                    chk.fail(rule, inst, f"pyjelly.{key}:misdecodes", f"valid stream ({jb['policy']}) decodes differently: {pipejob.first_diff(stmts_got, p['want'])}")
                elif key.endswith("flat") and tuple((n[0], n[1], n[2][1] if isinstance(n[2], tuple) else n[2]) for n in ns_got) != tuple(p["want_ns"]):
                    chk.fail(rule, inst, f"pyjelly.{key}:namespace-events", f"namespace declarations delivered {ns_got} differ from the stream's {p['want_ns']}")
                else:
                    chk.ok(rule, inst, {"statements": len(stmts_got), "rows": p["rows"][:2]})
    chk.part("dispatch", lambda: dispatch_tables(chk))


def c01_where(site: str) -> str:
    from .c01 import _where

    return _where(site)
