"""Path-sensitive abstract interpreter for the Python subset used by pyjelly.

* values: see values.py (constants are concrete = constant propagation; strings of the data plane
  are symbolic; everything unknown is ``Unknown``)
* control: structural interpretation of the AST; every undecidable branch consumes one entry of
  the *decision vector*; all vectors are enumerated by deterministic re-execution (``explore``)
* the same unknown condition is decided the same way on one path (``assume`` memo)
* nothing of the analysed repository is imported or executed by CPython
"""
from __future__ import annotations

import ast
import builtins as _pybuiltins
from typing import Any, Callable, Iterator

from .errors import AnalysisError, BudgetExceeded
from .loader import SCHEMA_MODULES, Program
from .values import (
    SPos,
    ADict,
    AIter,
    AList,
    ASet,
    Atom,
    BoundMethod,
    BreakSignal,
    ClassInfo,
    ContinueSignal,
    EnumInt,
    EnumTypeRef,
    ExtMethod,
    ExtObj,
    ExtRef,
    FuncRef,
    FunctionInfo,
    GenObj,
    ModuleRef,
    Msg,
    MsgClass,
    Obj,
    PyRaise,
    ReturnSignal,
    SingleDispatch,
    SStr,
    SuperProxy,
    SymIter,
    Unknown,
    fresh_unknown,
    is_strlike,
    sstr,
)

MAX_DEPTH = 60
MAX_STEPS = 400_000

# canonical names for external entities reachable under several import paths
CANON = {
    "rdflib.graph.Dataset": "rdflib.Dataset",
    "rdflib.graph.Graph": "rdflib.Graph",
    "rdflib.graph.QuotedGraph": "rdflib.QuotedGraph",
    "rdflib.graph.ConjunctiveGraph": "rdflib.ConjunctiveGraph",
    "rdflib.graph.DATASET_DEFAULT_GRAPH_ID": "rdflib.DATASET_DEFAULT_GRAPH_ID",
    "rdflib.term.URIRef": "rdflib.URIRef",
    "rdflib.term.BNode": "rdflib.BNode",
    "rdflib.term.Literal": "rdflib.Literal",
    "rdflib.term.Node": "rdflib.Node",
    "rdflib.serializer.Serializer": "rdflib.Serializer",
    "rdflib.parser.Parser": "rdflib.Parser",
    "rdflib.parser.InputSource": "rdflib.InputSource",
    "typing_extensions.override": "typing.override",
    "typing_extensions.Self": "typing.Self",
    "typing_extensions.Never": "typing.Never",
    "typing.final": "typing.final",
    "collections.abc.Generator": "typing.Generator",
}

TYPING_MODULES = ("typing", "typing_extensions", "collections.abc")


class Env:
    __slots__ = ("vars", "parent", "module", "func", "cls")

    def __init__(self, vars: dict, parent: "Env | None", module: str, func: FunctionInfo | None = None, cls: ClassInfo | None = None):
        self.vars = vars
        self.parent = parent
        self.module = module
        self.func = func
        self.cls = cls  # class whose body defined the running function (for zero-arg super)


class _Missing2:
    pass


MISSING2 = _Missing2()


class _Missing:
    pass


MISSING = _Missing()


class Interp:
    def __init__(self, program: Program, decisions: list[int] | None = None, *, generic_strings: bool = False, max_steps: int = MAX_STEPS, tunable_scale: int | None = None):
        from . import models  # late import: models needs Interp helpers

        # tunables.py: integer literals of the analysed source that are parameters, not format constants
        self.tunable_scale = tunable_scale
        self.tunables_hit: set[str] = set()
        self._tunable_index: dict[int, str] = {}
        if tunable_scale is not None:
            from . import tunables as _tun

            self._tunable_index = _tun.index(program)
            self._tunable_spec = _tun.SPEC_CONSTANTS

        self.program = program
        self.schema = program.schema
        from . import freeze as _freeze_mod

        if self.schema is not None and not _freeze_mod.ONEOF_FIELDS:
            for mname, md in self.schema.messages.items():
                _freeze_mod.ONEOF_FIELDS[mname] = frozenset(fn for fn, fd in md.fields.items() if fd.oneof)
        self.models = models
        self.decisions: list[int] = list(decisions or [])
        self.pos = 0
        self.arity: list[int] = []
        self.tags: list[str] = []
        self.assume: dict[Any, Any] = {}
        self.events: list[dict] = []
        self.modules: dict[str, dict] = {}
        self.module_loading: set[str] = set()
        self.init_depth = 0  # >0 while executing module top level (allocations are 'shared')
        self.depth = 0
        self.steps = 0
        self.max_steps = max_steps
        self.generic_strings = generic_strings
        self.site: tuple[str, int, str] = ("<scenario>", 0, "")
        self.call_stack: list[FunctionInfo] = []
        self.summaries: dict[str, Callable] = {}  # qualname -> python callable(interp, args, kwargs)
        self.watch_calls: set[str] | None = None
        self.jelly_ns = self._build_jelly_ns()
        self.record_events = True
        self.strict = True  # unknown external callables are an ANALYSIS-ERROR, not a guess
        self.allow_unknown: set[str] = set()

    # ------------------------------------------------------------------ decisions

    def choose(self, n: int, tag: str) -> int:
        if n <= 1:
            return 0
        if self.pos < len(self.decisions):
            c = self.decisions[self.pos]
            if self.pos < len(self.arity):
                pass
            if len(self.arity) <= self.pos:
                self.arity.append(n)
                self.tags.append(tag)
        else:
            c = 0
            self.decisions.append(0)
            self.arity.append(n)
            self.tags.append(tag)
        if c >= n:
            raise AnalysisError(f"decision replay mismatch at {self.pos} ({tag}): {c} >= {n}")
        self.pos += 1
        return c

    def decide(self, key: Any, tag: str) -> bool:
        """Unknown boolean: first use forks (True first), later uses on this path agree."""
        if key in self.assume:
            return self.assume[key]
        v = self.choose(2, tag) == 0
        self.assume[key] = v
        if "chunk-len" in repr(key):
            self.emit("decision", key=key, value=v)
        return v

    # ------------------------------------------------------------------ events

    def emit(self, kind: str, **data: Any) -> None:
        if self.record_events:
            data["kind"] = kind
            data["site"] = self.site
            self.events.append(data)

    # ------------------------------------------------------------------ errors of the analysed program

    def exc(self, name: str, msg: Any = "") -> PyRaise:
        e = ExtObj("exc:" + name, {"args": (msg,)})
        return PyRaise(e, self.site)

    def unsupported(self, what: str) -> AnalysisError:
        return AnalysisError(f"unsupported construct at {self.site[0]}:{self.site[1]} in {self.site[2]}: {what}")

    # ------------------------------------------------------------------ schema namespace

    def _build_jelly_ns(self) -> dict:
        ns: dict[str, Any] = {}
        for m in self.schema.messages.values():
            ns[m.name] = MsgClass(m.name)
        for e in self.schema.enums.values():
            ns[e.name] = EnumTypeRef(e.name, dict(e.values))
            ns.update(e.values)
        return ns

    # ------------------------------------------------------------------ modules

    def module_ns(self, name: str) -> dict:
        if name in SCHEMA_MODULES:
            return self.jelly_ns
        if name in self.modules:
            return self.modules[name]
        tree = self.program.modules.get(name)
        if tree is None:
            raise AnalysisError(f"module {name} not part of the analysed program")
        ns: dict[str, Any] = {"__name__": name}
        self.modules[name] = ns
        env = Env(ns, None, name)
        saved_site = self.site
        self.init_depth += 1
        try:
            for _ in self.exec_block(tree.body, env):
                raise self.unsupported("yield at module level")
        finally:
            self.init_depth -= 1
            self.site = saved_site
        self._mark_shared(ns)
        return ns

    def _mark_shared(self, ns: dict) -> None:
        """Everything reachable from a module namespace after import is process-wide shared state."""
        stack = list(ns.values())
        seen: set[int] = set()
        while stack:
            v = stack.pop()
            if id(v) in seen:
                continue
            seen.add(id(v))
            if isinstance(v, (AList, ASet)):
                v.shared = True
                stack.extend(v.items)
            elif isinstance(v, ADict):
                v.shared = True
                for a, b in v.pairs:
                    stack.append(a)
                    stack.append(b)
            elif isinstance(v, Obj):
                v.shared = True
                stack.extend(v.attrs.values())
                if v.tuple_items:
                    stack.extend(v.tuple_items)
            elif isinstance(v, (Msg, ExtObj)):
                v.shared = True
                if isinstance(v, ExtObj):
                    stack.extend(v.attrs.values())
                else:
                    stack.extend(v.fields.values())
            elif isinstance(v, ClassInfo):
                if v.module in self.modules or True:
                    stack.extend(v.attrs.values())
            elif isinstance(v, FuncRef):
                stack.extend(v.defaults.values())
            elif isinstance(v, SingleDispatch):
                v.shared = True
            elif isinstance(v, tuple):
                stack.extend(v)

    def resolve_import(self, modname: str) -> Any:
        if modname in self.program.modules or modname in SCHEMA_MODULES:
            self.module_ns(modname)
            return ModuleRef(modname)
        return ExtRef(CANON.get(modname, modname))

    def module_attr(self, mod: ModuleRef, attr: str) -> Any:
        ns = self.module_ns(mod.name)
        if attr in ns:
            return ns[attr]
        sub = f"{mod.name}.{attr}"
        if sub in self.program.modules or sub in SCHEMA_MODULES:
            self.module_ns(sub)
            return ModuleRef(sub)
        raise self.exc("AttributeError", f"module {mod.name} has no attribute {attr}")

    # ------------------------------------------------------------------ statements

    def exec_block(self, stmts: list[ast.stmt], env: Env) -> Iterator[Any]:
        for st in stmts:
            yield from self.exec_stmt(st, env)

    def run_plain(self, stmts: list[ast.stmt], env: Env) -> None:
        for _ in self.exec_block(stmts, env):
            raise self.unsupported("yield in a non-generator context")

    def tick(self, node: ast.AST, env: Env) -> None:
        self.steps += 1
        if self.steps > self.max_steps:
            raise BudgetExceeded(f"step budget {self.max_steps} exhausted at {self.site}")
        self.site = (env.module, getattr(node, "lineno", 0), env.func.qualname if env.func else "<module>")

    def exec_stmt(self, st: ast.stmt, env: Env) -> Iterator[Any]:
        self.tick(st, env)
        t = type(st)
        if t is ast.Expr:
            v = st.value
            if isinstance(v, ast.Yield):
                val = self.eval(v.value, env) if v.value is not None else None
                self.emit("yield", value=val, func=env.func.qualname if env.func else "")
                yield val
            elif isinstance(v, ast.YieldFrom):
                yield from self._yield_from(v, env)
            else:
                self.eval(v, env)
        elif t is ast.Assign:
            if isinstance(st.value, ast.Yield):
                out = self.eval(st.value.value, env) if st.value.value is not None else None
                self.emit("yield", value=out, func=env.func.qualname if env.func else "")
                val = yield out
            elif isinstance(st.value, ast.YieldFrom):
                val = yield from self._yield_from(st.value, env)
            else:
                val = self.eval(st.value, env)
            for tgt in st.targets:
                self.assign(tgt, val, env)
        elif t is ast.AnnAssign:
            if env.cls is not None and env.func is None and isinstance(st.target, ast.Name):
                env.vars.setdefault("__annotations__", {})[st.target.id] = st.annotation
            if st.value is not None:
                if isinstance(st.value, ast.Yield):
                    out = self.eval(st.value.value, env) if st.value.value is not None else None
                    self.emit("yield", value=out, func=env.func.qualname if env.func else "")
                    val = yield out
                elif isinstance(st.value, ast.YieldFrom):
                    val = yield from self._yield_from(st.value, env)
                else:
                    val = self.eval(st.value, env)
                self.assign(st.target, val, env)
        elif t is ast.AugAssign:
            cur = self.eval(self._as_load(st.target), env)
            rhs = self.eval(st.value, env)
            val = self.binop(type(st.op), cur, rhs, inplace=True)
            if val is not None or not isinstance(cur, (AList,)):
                self.assign(st.target, val if val is not None else cur, env)
        elif t is ast.If:
            if self.truth(self.eval(st.test, env), "if"):
                yield from self.exec_block(st.body, env)
            else:
                yield from self.exec_block(st.orelse, env)
        elif t is ast.For:
            yield from self._exec_for(st, env)
        elif t is ast.While:
            rounds = 0
            broke = False
            while self.truth(self.eval(st.test, env), "while"):
                rounds += 1
                if rounds > 10_000:
                    raise BudgetExceeded(f"while loop does not terminate in the abstraction at {self.site}")
                try:
                    yield from self.exec_block(st.body, env)
                except BreakSignal:
                    broke = True
                    break
                except ContinueSignal:
                    continue
            if not broke:
                yield from self.exec_block(st.orelse, env)
        elif t is ast.Return:
            if isinstance(st.value, ast.YieldFrom):
                rv = yield from self._yield_from(st.value, env)
                raise ReturnSignal(rv)
            raise ReturnSignal(self.eval(st.value, env) if st.value is not None else None)
        elif t is ast.Raise:
            yield from ()
            self._exec_raise(st, env)
        elif t is ast.Try:
            yield from self._exec_try(st, env)
        elif t is ast.With:
            yield from self._exec_with(st, env)
        elif t is ast.Assert:
            if not self.truth(self.eval(st.test, env), "assert"):
                msg = self.eval(st.msg, env) if st.msg is not None else ""
                raise self.exc("AssertionError", msg)
        elif t is ast.Pass:
            pass
        elif t is ast.Match:
            subject = self.eval(st.subject, env)
            for case in st.cases:
                binds: dict[str, Any] = {}
                if self.match_pattern(case.pattern, subject, binds, env):
                    for k_, v_ in binds.items():
                        self.assign(ast.Name(id=k_, ctx=ast.Store()), v_, env)
                    if case.guard is None or self.truth(self.eval(case.guard, env), "case-guard"):
                        yield from self.exec_block(case.body, env)
                        break
        elif t is ast.Break:
            raise BreakSignal
        elif t is ast.Continue:
            raise ContinueSignal
        elif t is ast.FunctionDef:
            fn = self.make_function(st, env)
            for dec in reversed(st.decorator_list):
                fn = self.apply_decorator(self.eval(dec, env), fn, st.name)
            env.vars[st.name] = fn
        elif t is ast.ClassDef:
            env.vars[st.name] = self.make_class(st, env)
        elif t is ast.Import:
            for alias in st.names:
                if alias.asname:
                    env.vars[alias.asname] = self.resolve_import(alias.name)
                else:
                    top = alias.name.split(".")[0]
                    self.resolve_import(alias.name)
                    env.vars[top] = self.resolve_import(top)
        elif t is ast.ImportFrom:
            self._exec_importfrom(st, env)
        elif t is ast.Global:
            env.vars.setdefault("__global_names__", set()).update(st.names)
        elif t is ast.Nonlocal:
            env.vars.setdefault("__nonlocal_names__", set()).update(st.names)
        elif t is ast.Delete:
            for tgt in st.targets:
                if isinstance(tgt, ast.Name):
                    env.vars.pop(tgt.id, None)
                elif isinstance(tgt, ast.Subscript):
                    self.models.delitem(self, self.eval(tgt.value, env), self.eval(tgt.slice, env))
                elif isinstance(tgt, ast.Attribute):
                    o = self.eval(tgt.value, env)
                    if isinstance(o, (Obj, ClassInfo)) and tgt.attr in o.attrs:
                        self.emit("setattr", obj=o, attr=tgt.attr, value=None, deleted=True, shared=getattr(o, "shared", True) and self.init_depth == 0)
                        del o.attrs[tgt.attr]
                    else:
                        raise self.exc("AttributeError", tgt.attr)
                else:
                    raise self.unsupported("del target")
        else:
            raise self.unsupported(f"statement {t.__name__}")

    _BUILTIN_SELF_MATCH = ("bool", "bytearray", "bytes", "dict", "float", "frozenset", "int", "list", "set", "str", "tuple")

    def match_pattern(self, p: ast.pattern, v: Any, binds: dict, env: Env) -> bool:
        t = type(p)
        if t is ast.MatchValue:
            return self.truth(self.eq(v, self.eval(p.value, env)), "case-value")
        if t is ast.MatchSingleton:
            return self.is_same(v, p.value) is True
        if t is ast.MatchAs:
            if p.pattern is not None and not self.match_pattern(p.pattern, v, binds, env):
                return False
            if p.name is not None:
                binds[p.name] = v
            return True
        if t is ast.MatchOr:
            for alt in p.patterns:
                b2: dict[str, Any] = {}
                if self.match_pattern(alt, v, b2, env):
                    binds.update(b2)
                    return True
            return False
        if t is ast.MatchSequence:
            if isinstance(v, (str, bytes, SStr)) or (isinstance(v, AList) and v.kind == "bytearray"):
                return False
            if isinstance(v, tuple):
                items = list(v)
            elif isinstance(v, AList):
                items = list(v.items)
            elif isinstance(v, Obj) and v.tuple_items is not None:
                items = list(v.tuple_items)
            elif isinstance(v, (Unknown, ExtObj, GenObj, AIter, SymIter)):
                if isinstance(v, Unknown):
                    raise self.unsupported("sequence pattern on an unknown value")
                return False
            else:
                return False
            star = [i for i, e in enumerate(p.patterns) if isinstance(e, ast.MatchStar)]
            if not star:
                if len(items) != len(p.patterns):
                    return False
                return all(self.match_pattern(sp, x, binds, env) for sp, x in zip(p.patterns, items))
            i = star[0]
            after = len(p.patterns) - i - 1
            if len(items) < len(p.patterns) - 1:
                return False
            for sp, x in zip(p.patterns[:i], items[:i]):
                if not self.match_pattern(sp, x, binds, env):
                    return False
            if p.patterns[i].name is not None:
                binds[p.patterns[i].name] = AList(list(items[i : len(items) - after]))
            for sp, x in zip(p.patterns[i + 1 :], items[len(items) - after :]):
                if not self.match_pattern(sp, x, binds, env):
                    return False
            return True
        if t is ast.MatchMapping:
            if not isinstance(v, ADict):
                if isinstance(v, Unknown):
                    raise self.unsupported("mapping pattern on an unknown value")
                return False
            seen = []
            for kexpr, sp in zip(p.keys, p.patterns):
                key = self.eval(kexpr, env)
                hit = MISSING
                for k_, x in v.pairs:
                    if self.truth(self.eq(k_, key), "case-key"):
                        hit = x
                        seen.append(k_)
                        break
                if hit is MISSING or not self.match_pattern(sp, hit, binds, env):
                    return False
            if p.rest is not None:
                binds[p.rest] = ADict([[k_, x] for k_, x in v.pairs if not any(k_ is s_ for s_ in seen)])
            return True
        if t is ast.MatchClass:
            cls = self.eval(p.cls, env)
            r = self.isinstance_one(v, cls)
            if r is not True and r is not False:
                r = self.truth(r, "case-class")
            if not r:
                return False
            if p.patterns:
                if isinstance(cls, ExtRef) and cls.name.startswith("builtins.") and cls.name[9:] in self._BUILTIN_SELF_MATCH:
                    if len(p.patterns) != 1:
                        raise self.exc("TypeError", f"{cls.name[9:]}() accepts 1 positional sub-pattern")
                    if not self.match_pattern(p.patterns[0], v, binds, env):
                        return False
                else:
                    names = self.match_args(cls)
                    if len(p.patterns) > len(names):
                        raise self.exc("TypeError", f"{cls!r} accepts {len(names)} positional sub-patterns ({len(p.patterns)} given)")
                    for sp, nm in zip(p.patterns, names):
                        sub = self.getattr(v, nm, MISSING2)
                        if sub is MISSING2 or not self.match_pattern(sp, sub, binds, env):
                            return False
            for nm, sp in zip(p.kwd_attrs, p.kwd_patterns):
                sub = self.getattr(v, nm, MISSING2)
                if sub is MISSING2 or not self.match_pattern(sp, sub, binds, env):
                    return False
            return True
        raise self.unsupported(f"pattern {t.__name__}")

    def match_args(self, cls: Any) -> list[str]:
        if isinstance(cls, ClassInfo):
            ma = self.lookup_class_attr(cls, "__match_args__")
            if ma is not MISSING:
                return list(self.unpack_values(ma))
            if cls.is_namedtuple or any(isinstance(c, ClassInfo) and c.is_namedtuple for c in cls.mro):
                return list(next(c for c in cls.mro if isinstance(c, ClassInfo) and c.is_namedtuple).nt_fields)
            if any(isinstance(c, ClassInfo) and c.dataclass is not None for c in cls.mro):
                return [n for n, _ in self.dataclass_fields(cls)]
            return []
        raise self.unsupported(f"positional class pattern for {cls!r}")

    @staticmethod
    def _as_load(node: ast.expr) -> ast.expr:
        import copy

        n = copy.copy(node)
        n.ctx = ast.Load()  # type: ignore[attr-defined]
        return n

    def _yield_from(self, v: ast.YieldFrom, env: Env) -> Iterator[Any]:
        src = self.eval(v.value, env)
        it = self.get_iter(src)
        sent = None
        while True:
            if sent is not None and isinstance(it, GenObj):
                ok, item = self.send_value(it, sent)
            else:
                ok, item = self.next_value(it)
            if not ok:
                break
            self.emit("yield", value=item, func=env.func.qualname if env.func else "", via="yield from")
            sent = yield item
        return getattr(it, "retval", None)

    def _exec_for(self, st: ast.For, env: Env) -> Iterator[Any]:
        it = self.get_iter(self.eval(st.iter, env))
        broke = False
        rounds = 0
        while True:
            ok, item = self.next_value(it)
            if not ok:
                break
            rounds += 1
            if rounds > 20_000:
                raise BudgetExceeded(f"for loop over {it!r} too long at {self.site}")
            self.assign(st.target, item, env)
            try:
                yield from self.exec_block(st.body, env)
            except BreakSignal:
                broke = True
                break
            except ContinueSignal:
                continue
        if not broke:
            yield from self.exec_block(st.orelse, env)

    def _exec_raise(self, st: ast.Raise, env: Env) -> None:
        if st.exc is None:
            cur = env.vars.get("__active_exception__")
            e = cur
            scan = env
            while e is None and scan is not None:
                e = scan.vars.get("__active_exception__")
                scan = scan.parent
            if e is None:
                raise self.exc("RuntimeError", "No active exception to reraise")
            raise PyRaise(e, self.site)
        val = self.eval(st.exc, env)
        if isinstance(val, (ClassInfo, ExtRef)):
            val = self.call(val, [], {})
        if isinstance(val, (Obj, ExtObj)):
            scan2: Any = env
            active = None
            while active is None and scan2 is not None:
                active = scan2.vars.get("__active_exception__")
                scan2 = scan2.parent
            if active is not None and active is not val:
                val.attrs.setdefault("__context__", active)
            val.attrs.setdefault("__cause__", None)
        if st.cause is not None:
            cause = self.eval(st.cause, env)
            if isinstance(val, (Obj, ExtObj)):
                val.attrs["__cause__"] = cause
        self.emit("raise", exc=self.exc_class_name(val))
        raise PyRaise(val, self.site)

    def _exec_try(self, st: ast.Try, env: Env) -> Iterator[Any]:
        try:
            try:
                yield from self.exec_block(st.body, env)
            except PyRaise as pr:
                handled = False
                for h in st.handlers:
                    if h.type is None or self.exc_matches(pr.exc, self.eval(h.type, env)):
                        handled = True
                        if h.name:
                            env.vars[h.name] = pr.exc
                        saved = env.vars.get("__active_exception__", MISSING)
                        env.vars["__active_exception__"] = pr.exc
                        self.emit("except", exc=self.exc_class_name(pr.exc))
                        try:
                            yield from self.exec_block(h.body, env)
                        finally:
                            if saved is MISSING:
                                env.vars.pop("__active_exception__", None)
                            else:
                                env.vars["__active_exception__"] = saved
                        break
                if not handled:
                    raise
            else:
                yield from self.exec_block(st.orelse, env)
        finally:
            if st.finalbody:
                # a yield inside finally while unwinding is outside the subset
                for _ in self.exec_block(st.finalbody, env):
                    raise self.unsupported("yield inside finally")

    def _exec_with(self, st: ast.With, env: Env) -> Iterator[Any]:
        if len(st.items) != 1:
            inner = ast.With(items=st.items[1:], body=st.body, type_comment=None)
            ast.copy_location(inner, st)
            outer = ast.With(items=st.items[:1], body=[inner], type_comment=None)
            ast.copy_location(outer, st)
            yield from self._exec_with(outer, env)
            return
        item = st.items[0]
        cm = self.eval(item.context_expr, env)
        entered, exit_fn = self.cm_enter(cm)
        if item.optional_vars is not None:
            self.assign(item.optional_vars, entered, env)
        try:
            yield from self.exec_block(st.body, env)
        except PyRaise as pr:
            if exit_fn(pr):
                return
            raise
        except (ReturnSignal, BreakSignal, ContinueSignal):
            exit_fn(None)
            raise
        except GeneratorExit:
            exit_fn(None)
            raise
        exit_fn(None)

    def cm_enter(self, cm: Any) -> tuple[Any, Callable[[Any], bool]]:
        """Enter a context manager; returns (value bound by 'as', exit function).  The exit function takes the
        PyRaise in flight (or None) and returns True when the exception is swallowed."""
        if isinstance(cm, ExtObj) and cm.kind == "contextlib.suppress":

            def exit_suppress(pr: Any) -> bool:
                if pr is not None and any(self.exc_matches(pr.exc, c) for c in cm.attrs["classes"]):
                    self.emit("suppressed", exc=self.exc_class_name(pr.exc))
                    return True
                return False

            return cm, exit_suppress
        if isinstance(cm, Obj) and self.lookup_class_attr(cm.cls, "__enter__") is not MISSING:
            entered = self.call(self.getattr(cm, "__enter__"), [], {})

            def exit_obj(pr: Any) -> bool:
                if pr is None:
                    self.call(self.getattr(cm, "__exit__"), [None, None, None], {})
                    return False
                e = pr.exc
                etype: Any = e.cls if isinstance(e, Obj) else ExtRef("builtins." + self.exc_class_name(e))
                return self.truth(self.call(self.getattr(cm, "__exit__"), [etype, e, None], {}), "__exit__")

            return entered, exit_obj
        if isinstance(cm, ExtObj) and cm.kind == "generator_cm":
            gen = cm.attrs["gen"]
            ok, entered = self.next_value(gen)
            if not ok:
                raise self.exc("RuntimeError", "generator didn't yield")

            def exit_gen(pr: Any) -> bool:
                if pr is None:
                    ok2, _ = self.next_value(gen)
                    if ok2:
                        raise self.exc("RuntimeError", "generator didn't stop")
                    return False
                try:
                    gen.host.throw(pr)
                except StopIteration:
                    gen.done = True
                    return True  # the generator swallowed the exception
                except PyRaise as pr2:
                    gen.done = True
                    if pr2 is pr:
                        return False
                    raise
                raise self.exc("RuntimeError", "generator didn't stop after throw()")

            return entered, exit_gen
        if isinstance(cm, ExtObj) and cm.kind == "contextlib.ExitStack":
            def exit_stack(pr: Any) -> bool:
                swallowed = False
                cur = pr
                while cm.attrs["stack"]:
                    fn = cm.attrs["stack"].pop()
                    try:
                        if fn(cur):
                            swallowed = swallowed or cur is not None
                            cur = None
                    except PyRaise as new:
                        cur = new
                        swallowed = False
                if cur is not None and cur is not pr:
                    raise cur
                return swallowed and pr is not None

            return cm, exit_stack
        entered = self.models.context_enter(self, cm)

        def exit_ext(pr: Any) -> bool:
            self.models.context_exit(self, cm)
            return False

        return entered, exit_ext

    def _exec_importfrom(self, st: ast.ImportFrom, env: Env) -> None:
        mod = st.module or ""
        if st.level:
            base = env.module.split(".")
            if env.module not in self.program.modules or not self.program.paths[env.module].name == "__init__.py":
                base = base[:-1]
            base = base[: len(base) - (st.level - 1)]
            mod = ".".join(base + ([mod] if mod else []))
        if mod == "__future__":
            return
        local = mod in self.program.modules or mod in SCHEMA_MODULES
        for alias in st.names:
            name = alias.name
            target = alias.asname or name
            if name == "*":
                if local:
                    for k, v in self.module_ns(mod).items():
                        if not k.startswith("_"):
                            env.vars[k] = v
                    continue
                raise self.unsupported(f"star import from external {mod}")
            if local:
                ns = self.module_ns(mod)
                if name in ns:
                    env.vars[target] = ns[name]
                else:
                    sub = f"{mod}.{name}"
                    if sub in self.program.modules or sub in SCHEMA_MODULES:
                        self.module_ns(sub)
                        env.vars[target] = ModuleRef(sub)
                    elif mod in self.module_loading:
                        raise AnalysisError(f"circular import of {name} from {mod}")
                    else:
                        raise self.exc("ImportError", f"cannot import name {name} from {mod}")
            else:
                full = f"{mod}.{name}"
                env.vars[target] = self.models.ext_entity(self, CANON.get(full, full))

    # ------------------------------------------------------------------ assignment

    def assign(self, tgt: ast.expr, val: Any, env: Env) -> None:
        t = type(tgt)
        if t is ast.Name:
            if tgt.id in env.vars.get("__global_names__", ()):
                self.emit("setattr", obj=ModuleRef(env.module), attr=tgt.id, value=val, shared=self.init_depth == 0)
                self.module_ns(env.module)[tgt.id] = val
                return
            if tgt.id in env.vars.get("__nonlocal_names__", ()):
                e = env.parent
                while e is not None:
                    if tgt.id in e.vars and e.func is not None:
                        e.vars[tgt.id] = val
                        return
                    e = e.parent
            env.vars[tgt.id] = val
        elif t is ast.Attribute:
            self.setattr(self.eval(tgt.value, env), tgt.attr, val)
        elif t is ast.Subscript:
            self.models.setitem(self, self.eval(tgt.value, env), self.eval(tgt.slice, env), val)
        elif t in (ast.Tuple, ast.List):
            items = self.unpack_values(val)
            elts = tgt.elts
            star = [i for i, e in enumerate(elts) if isinstance(e, ast.Starred)]
            if star:
                i = star[0]
                after = len(elts) - i - 1
                if len(items) < len(elts) - 1:
                    raise self.exc("ValueError", "not enough values to unpack")
                for e, v in zip(elts[:i], items[:i]):
                    self.assign(e, v, env)
                self.assign(elts[i].value, AList(list(items[i : len(items) - after])), env)  # type: ignore[attr-defined]
                for e, v in zip(elts[i + 1 :], items[len(items) - after :]):
                    self.assign(e, v, env)
            else:
                if len(items) != len(elts):
                    raise self.exc("ValueError", f"unpack: expected {len(elts)} values, got {len(items)}")
                for e, v in zip(elts, items):
                    self.assign(e, v, env)
        elif t is ast.Starred:
            raise self.unsupported("bare starred target")
        else:
            raise self.unsupported(f"assignment target {t.__name__}")

    def unpack_values(self, val: Any) -> list:
        if isinstance(val, tuple):
            return list(val)
        if isinstance(val, AList):
            return list(val.items)
        if isinstance(val, Obj) and val.tuple_items is not None:
            return list(val.tuple_items)
        it = self.get_iter(val)
        self.emit("materialise", what="unpack", source=repr(val))
        out = []
        while True:
            ok, item = self.next_value(it)
            if not ok:
                return out
            out.append(item)
            if len(out) > 10_000:
                raise BudgetExceeded("unpacking an unbounded iterator")

    # ------------------------------------------------------------------ functions / classes

    def make_function(self, node: ast.AST, env: Env, name: str | None = None) -> FuncRef:
        fname = name or getattr(node, "name", "<lambda>")
        if env.cls is not None and env.func is None:
            qual = f"{env.cls.qualname}.{fname}"
        elif env.func is not None:
            qual = f"{env.func.qualname}.<locals>.{fname}"
        else:
            qual = fname
        is_gen = False
        if isinstance(node, ast.FunctionDef):
            is_gen = _contains_yield(node)
        info = FunctionInfo(fname, qual, env.module, node, is_gen, env.cls if env.func is None else None)
        defaults: dict[str, Any] = {}
        args = node.args  # type: ignore[attr-defined]
        pos = args.posonlyargs + args.args
        for a, d in zip(pos[len(pos) - len(args.defaults) :], args.defaults):
            defaults[a.arg] = self.eval(d, env)
        for a, d in zip(args.kwonlyargs, args.kw_defaults):
            if d is not None:
                defaults[a.arg] = self.eval(d, env)
        closure = env if (env.func is not None or env.cls is not None) else None
        return FuncRef(info, env, defaults)

    def apply_decorator(self, dec: Any, fn: Any, name: str) -> Any:
        if isinstance(dec, ExtRef):
            n = dec.name
            if n in ("builtins.property",):
                fn.kind = "property"
                return fn
            if n == "builtins.classmethod":
                fn.kind = "classmethod"
                return fn
            if n == "builtins.staticmethod":
                fn.kind = "staticmethod"
                return fn
            if n in ("typing.override", "typing.final", "abc.abstractmethod", "jstat.identity_decorator"):
                return fn
            if n == "functools.singledispatch":
                sd = SingleDispatch(fn)
                sd.shared = self.init_depth > 0
                return sd
            if n in ("functools.cache", "functools.lru_cache"):
                fn.cached = True
                return fn
            if n == "functools.cached_property":
                new = FuncRef(fn.info, fn.env, fn.defaults, "property")
                new.cache_attr = True  # type: ignore[attr-defined]
                return new
            if n == "functools.singledispatchmethod":
                sd = SingleDispatch(fn)
                sd.shared = self.init_depth > 0
                sd.method = True  # type: ignore[attr-defined]
                return sd
            if n == "contextlib.contextmanager":
                fn.kind = "contextmanager"
                return fn
            if n == "dataclasses.dataclass":
                return self._make_dataclass(fn, {})
            raise self.unsupported(f"decorator {n} on {name}")
        if isinstance(dec, ExtObj) and dec.kind == "dataclass_decorator":
            return self._make_dataclass(fn, dec.attrs)
        if isinstance(dec, ExtObj) and dec.kind == "cache_decorator":
            fn.cached = True
            return fn
        if isinstance(dec, ExtMethod) and dec.kind == "property" and dec.name == "setter":
            dec = ExtObj("property_setter", {"prop": dec.recv})
        if isinstance(dec, ExtObj) and dec.kind == "property_setter":
            prop = dec.attrs["prop"]
            new = FuncRef(prop.info, prop.env, prop.defaults, "property")
            new.setter = fn  # type: ignore[attr-defined]
            return new
        if isinstance(dec, ExtObj) and dec.kind == "singledispatch_register":
            dec.attrs["sd"].registry.append((dec.attrs["cls"], fn))
            self.emit("register", what=dec.attrs["sd"].default.info.qualname)
            return fn
        if isinstance(dec, ExtMethod) and dec.kind == "singledispatch" and dec.name == "register" and isinstance(fn, FuncRef):
            sd = dec.recv
            params = fn.info.node.args.posonlyargs + fn.info.node.args.args  # type: ignore[attr-defined]
            idx = 1 if getattr(sd, "method", False) else 0
            if len(params) <= idx or params[idx].annotation is None:
                raise self.exc("TypeError", "Invalid first argument to register(): use either @register(some_class) or a type annotation")
            ann = params[idx].annotation
            if isinstance(ann, ast.Constant) and isinstance(ann.value, str):
                ann = ast.parse(ann.value, mode="eval").body
            target = self.eval(ann, fn.env)
            sd.registry.append((target, fn))
            self.emit("register", what=sd.default.info.qualname)
            return fn
        if isinstance(dec, ExtObj) and dec.kind == "functools.wraps":
            if isinstance(fn, FuncRef):
                w = dec.attrs["wrapped"]
                new = FuncRef(fn.info, fn.env, fn.defaults, fn.kind)
                new.wrapped = w  # type: ignore[attr-defined]
                return new
            return fn
        if isinstance(dec, (FuncRef, BoundMethod, Obj, ClassInfo)) or (isinstance(dec, ExtObj) and dec.kind == "functools.partial"):
            return self.call(dec, [fn], {})
        raise self.unsupported(f"decorator value {dec!r} on {name}")

    def _make_dataclass(self, cls: Any, opts: dict) -> Any:
        if not isinstance(cls, ClassInfo):
            raise self.unsupported("dataclass on non-class")
        cls.dataclass = {"frozen": bool(opts.get("frozen", False)), "slots": bool(opts.get("slots", False)), "order": bool(opts.get("order", False)), "kw_only": bool(opts.get("kw_only", False)), "eq": bool(opts.get("eq", True))}
        return cls

    def make_class(self, node: ast.ClassDef, env: Env) -> ClassInfo:
        bases = []
        for b in node.bases:
            bv = self.eval(b, env)
            bases.append(bv)
        qual = node.name if env.cls is None else f"{env.cls.qualname}.{node.name}"
        cls = ClassInfo(node.name, qual, env.module, node, bases)
        cls.shared = True
        body_vars: dict[str, Any] = {}
        cenv = Env(body_vars, env, env.module, None, cls)
        self.run_plain(node.body, cenv)
        cls.annotations = body_vars.pop("__annotations__", {})
        cls.attrs = body_vars
        # kind of class
        flat_bases = [b for b in bases]
        if any(isinstance(b, ExtRef) and b.name in ("typing.NamedTuple",) for b in flat_bases):
            cls.is_namedtuple = True
            cls.nt_fields = list(cls.annotations)
        enum_bases = [b for b in flat_bases if (isinstance(b, ExtRef) and b.name in ("enum.IntEnum", "enum.Enum", "enum.IntFlag", "enum.StrEnum", "enum.Flag")) or (isinstance(b, ClassInfo) and b.is_enum)]
        if enum_bases:
            if any(isinstance(b, ExtRef) and b.name in ("enum.IntFlag", "enum.StrEnum", "enum.Flag") for b in flat_bases):
                raise self.unsupported(f"enum base of {node.name}")
            cls.is_enum = True
            int_like = any((isinstance(b, ExtRef) and b.name in ("enum.IntEnum", "builtins.int")) or (isinstance(b, ClassInfo) and getattr(b, "enum_int", False)) for b in flat_bases)
            cls.enum_int = int_like  # type: ignore[attr-defined]
            auto = 0
            for k in list(cls.attrs):
                v = cls.attrs[k]
                if k.startswith("_") or isinstance(v, (FuncRef, ClassInfo)) or (isinstance(v, ExtObj) and v.kind in ("classmethod", "staticmethod")):
                    continue
                if isinstance(v, ExtObj) and v.kind == "enum.auto":
                    auto += 1
                    v = auto
                if isinstance(v, int) and not isinstance(v, bool):
                    auto = max(auto, int(v))
                if int_like:
                    if not (isinstance(v, int) and not isinstance(v, bool)):
                        raise self.unsupported(f"IntEnum member {k} with non-int value")
                    cls.attrs[k] = EnumInt(int(v), cls, k)
                else:
                    # plain Enum: members are singletons that compare by identity (never equal to their value)
                    alias = next((cls.attrs[m] for m in cls.enum_members if self.eq(cls.attrs[m].attrs["_value_"], v) is True), None)
                    if alias is not None:
                        cls.attrs[k] = alias
                        continue
                    member = Obj(cls, {"_name_": k, "_value_": v, "name": k, "value": v})
                    member.shared = True
                    member.frozen_ok = True
                    cls.attrs[k] = member
                cls.enum_members.append(k)
        cls.mro = self._c3(cls)
        # PEP 487: the nearest base class that defines __init_subclass__ is told about the new class
        for b in cls.mro[1:]:
            if isinstance(b, ClassInfo) and "__init_subclass__" in b.attrs:
                hook = b.attrs["__init_subclass__"]
                if isinstance(hook, FuncRef):
                    kw = {k.arg: self.eval(k.value, env) for k in node.keywords if k.arg and k.arg != "metaclass"}
                    self.call_function(FuncRef(hook.info, hook.env, hook.defaults, "function"), [cls], kw)
                break
        # dataclass inheritance marker is per class; decorators applied after
        result: Any = cls
        for dec in reversed(node.decorator_list):
            result = self.apply_decorator(self.eval(dec, env), result, node.name)
        # a class defined while running a scenario (never in pyjelly) would not be shared
        cls.shared = self.init_depth > 0
        for v in cls.attrs.values():
            if isinstance(v, FuncRef) and v.info.defining_class is None:
                v.info.defining_class = cls
        return result

    def _c3(self, cls: ClassInfo) -> list:
        def mro_of(b: Any) -> list:
            if isinstance(b, ClassInfo):
                return list(b.mro)
            return [b]

        seqs = [mro_of(b) for b in cls.bases] + [list(cls.bases)]
        out = [cls]
        seqs = [s for s in seqs if s]
        while seqs:
            for s in seqs:
                cand = s[0]
                if not any(_in_tail(cand, t) for t in seqs):
                    break
            else:
                raise AnalysisError(f"inconsistent MRO for {cls.qualname}")
            out.append(cand)
            seqs = [[x for x in s if x is not cand and x != cand] for s in seqs]
            seqs = [s for s in seqs if s]
        return out

    # ------------------------------------------------------------------ calls

    def bind_args(self, fref: FuncRef, args: list, kwargs: dict) -> dict:
        node = fref.info.node
        a = node.args  # type: ignore[attr-defined]
        params = [p.arg for p in a.posonlyargs + a.args]
        bound: dict[str, Any] = {}
        args = list(args)
        if len(args) > len(params):
            if a.vararg is None:
                raise self.exc("TypeError", f"{fref.info.qualname}() takes {len(params)} positional arguments but {len(args)} were given")
            bound[a.vararg.arg] = tuple(args[len(params) :])
            args = args[: len(params)]
        elif a.vararg is not None:
            bound[a.vararg.arg] = ()
        for p, v in zip(params, args):
            bound[p] = v
        kwargs = dict(kwargs)
        posonly = {p.arg for p in a.posonlyargs}
        for p in params[len(args) :]:
            if p in kwargs and p not in posonly:
                bound[p] = kwargs.pop(p)
            elif p in fref.defaults:
                bound[p] = fref.defaults[p]
            else:
                raise self.exc("TypeError", f"{fref.info.qualname}() missing required argument: '{p}'")
        for p in a.kwonlyargs:
            if p.arg in kwargs:
                bound[p.arg] = kwargs.pop(p.arg)
            elif p.arg in fref.defaults:
                bound[p.arg] = fref.defaults[p.arg]
            else:
                raise self.exc("TypeError", f"{fref.info.qualname}() missing required keyword-only argument: '{p.arg}'")
        for k in list(kwargs):
            if k in bound:
                raise self.exc("TypeError", f"{fref.info.qualname}() got multiple values for argument '{k}'")
        if kwargs:
            if a.kwarg is None:
                raise self.exc("TypeError", f"{fref.info.qualname}() got an unexpected keyword argument '{next(iter(kwargs))}'")
            bound[a.kwarg.arg] = ADict([[k, v] for k, v in kwargs.items()])
        elif a.kwarg is not None:
            bound[a.kwarg.arg] = ADict([])
        return bound

    def call_function(self, fref: FuncRef, args: list, kwargs: dict) -> Any:
        info = fref.info
        if info.qualname in self.summaries:
            return self.summaries[info.qualname](self, args, kwargs)
        bound = self.bind_args(fref, args, kwargs)
        if fref.cached:
            # functools.cache / lru_cache: a hit is decided by == and hash of the arguments (for rdflib terms that is
            # rdflib's own equality, e.g. language tags compared case-insensitively), not by structural identity
            cache = self.__dict__.setdefault("_fn_cache", {})
            cargs = list(bound.values())
            for old_args, old_res in cache.get(info.qualname, []):
                if len(old_args) == len(cargs) and all(a is b or self.eq(a, b) is True for a, b in zip(old_args, cargs)):
                    self.emit("cache_hit", func=info.qualname)
                    return old_res
        env = Env(bound, fref.env, info.module, info, info.defining_class)
        node = info.node
        self.emit("call", func=info.qualname, module=info.module, args=bound)
        if isinstance(node, ast.Lambda):
            return self._with_frame(info, lambda: self.eval(node.body, env))
        if info.is_generator:
            g = self.make_generator(info, node.body, env)  # type: ignore[attr-defined]
            if fref.kind == "contextmanager":
                return ExtObj("generator_cm", {"gen": g})
            return g

        def run() -> Any:
            try:
                self.run_plain(node.body, env)  # type: ignore[attr-defined]
            except ReturnSignal as r:
                return r.value
            return None

        res = self._with_frame(info, run)
        if fref.cached:
            self._fn_cache.setdefault(info.qualname, []).append((cargs, res))
        return res

    def _with_frame(self, info: FunctionInfo, thunk: Callable[[], Any]) -> Any:
        self.depth += 1
        if self.depth > MAX_DEPTH:
            self.depth -= 1
            raise BudgetExceeded(f"call depth {MAX_DEPTH} exceeded in {info.qualname}")
        self.call_stack.append(info)
        saved = self.site
        try:
            res = thunk()
            self.emit("return", func=info.qualname, value=res)
            return res
        except PyRaise as pr:
            self.emit("unwind", func=info.qualname, exc=self.exc_class_name(pr.exc))
            raise
        finally:
            self.call_stack.pop()
            self.depth -= 1
            self.site = saved

    def make_generator(self, info: FunctionInfo, body: list[ast.stmt], env: Env) -> GenObj:
        gen = GenObj(None, info.qualname)

        def host() -> Iterator[Any]:
            try:
                yield from self.exec_block(body, env)
            except ReturnSignal as r:
                gen.retval = r.value
                return

        gen.host = host()
        gen.shared = self.init_depth > 0
        return gen

    def call(self, fn: Any, args: list, kwargs: dict) -> Any:
        if isinstance(fn, FuncRef):
            if fn.kind == "classmethod":
                raise self.unsupported("unbound classmethod call")
            return self.call_function(fn, args, kwargs)
        if isinstance(fn, BoundMethod):
            if isinstance(fn.func, SingleDispatch):
                if not args:
                    raise self.exc("TypeError", "singledispatchmethod requires at least 1 positional argument")
                return self.call(self.dispatch(fn.func, args[0]), [fn.self_obj] + list(args), kwargs)
            return self.call(fn.func, [fn.self_obj] + list(args), kwargs) if isinstance(fn.func, FuncRef) else self.call(fn.func, args, kwargs)
        if isinstance(fn, ClassInfo):
            return self.instantiate(fn, args, kwargs)
        if isinstance(fn, ExtRef):
            return self.models.call_ext(self, fn.name, args, kwargs)
        if isinstance(fn, ExtMethod):
            return self.models.call_method(self, fn, args, kwargs)
        if isinstance(fn, MsgClass):
            return self.models.new_msg(self, fn.mtype, args, kwargs)
        if isinstance(fn, SingleDispatch):
            if not args:
                raise self.exc("TypeError", "singledispatch function requires at least 1 positional argument")
            target = self.dispatch(fn, args[0])
            return self.call(target, args, kwargs)
        if isinstance(fn, Obj):
            m = self.lookup_class_attr(fn.cls, "__call__")
            if m is not MISSING:
                return self.call(self.bind(m, fn, fn.cls), args, kwargs)
        if isinstance(fn, ExtObj) and fn.kind == "functools.partial":
            return self.call(fn.attrs["func"], list(fn.attrs["args"]) + list(args), {**fn.attrs["kwargs"], **kwargs})
        if isinstance(fn, ExtObj):
            from . import models_std

            r = models_std.call_callable_obj(self, fn, args, kwargs)
            if r is not models_std.MISSING:
                return r
        if isinstance(fn, Unknown):
            self.emit("ext", name="call-unknown", recv=repr(fn))
            return fresh_unknown("result of unknown callable")
        raise self.exc("TypeError", f"{fn!r} is not callable")

    def dispatch(self, sd: SingleDispatch, arg: Any) -> FuncRef:
        if isinstance(arg, Obj):
            for c in arg.cls.mro:
                for rc, fn in sd.registry:
                    if rc is c:
                        return fn
            return sd.default
        for rc, fn in sd.registry:
            if self.isinstance_one(arg, rc) is True:
                return fn
        return sd.default

    # ------------------------------------------------------------------ classes / instances

    def find_init(self, cls: ClassInfo) -> Any:
        """First class in the MRO that provides __init__ (user-defined or dataclass-synthesised)."""
        for c in cls.mro:
            if isinstance(c, ClassInfo):
                if "__init__" in c.attrs:
                    return ("user", c, c.attrs["__init__"])
                if c.dataclass is not None:
                    return ("dataclass", c, None)
            else:
                return ("ext", c, None)
        return ("ext", ExtRef("builtins.object"), None)

    def dataclass_fields(self, cls: ClassInfo) -> list[tuple[str, Any]]:
        fields: dict[str, Any] = {}
        for c in reversed(cls.mro):
            if isinstance(c, ClassInfo) and c.dataclass is not None:
                for name, ann in c.annotations.items():
                    if "ClassVar" in ast.unparse(ann):
                        continue
                    fields[name] = c.attrs.get(name, MISSING)
        return list(fields.items())

    def instantiate(self, cls: ClassInfo, args: list, kwargs: dict) -> Any:
        if cls.is_enum:
            for m in cls.enum_members:
                mem = cls.attrs[m]
                if args and (mem is args[0] or (isinstance(mem, EnumInt) and not isinstance(args[0], (Obj, Unknown)) and mem == args[0]) or (isinstance(mem, Obj) and self.eq(mem.attrs["_value_"], args[0]) is True)):
                    return mem
            if args and isinstance(args[0], Unknown):
                raise self.unsupported(f"{cls.name}(unknown value)")
            raise self.exc("ValueError", f"{args!r} is not a valid {cls.name}")
        if cls.is_namedtuple or any(isinstance(c, ClassInfo) and c.is_namedtuple for c in cls.mro):
            ntc = next(c for c in cls.mro if isinstance(c, ClassInfo) and c.is_namedtuple)
            fields = ntc.nt_fields
            vals: dict[str, Any] = {}
            if len(args) > len(fields):
                raise self.exc("TypeError", f"{cls.name}() takes {len(fields)} positional arguments but {len(args)} were given")
            for f, v in zip(fields, args):
                vals[f] = v
            for k, v in kwargs.items():
                if k not in fields or k in vals:
                    raise self.exc("TypeError", f"{cls.name}() got an unexpected keyword argument '{k}'")
                vals[k] = v
            for f in fields:
                if f not in vals:
                    if f in ntc.attrs:
                        vals[f] = ntc.attrs[f]
                    else:
                        raise self.exc("TypeError", f"{cls.name}() missing required argument '{f}'")
            obj = Obj(cls, dict(vals), tuple(vals[f] for f in fields))
            obj.shared = self.init_depth > 0
            self.emit("new", cls=cls.qualname, uid=obj.uid)
            return obj
        new = self.lookup_class_attr(cls, "__new__")
        if new is not MISSING and isinstance(new, FuncRef):
            obj = self.call_function(new, [cls] + list(args), kwargs)
            if not (isinstance(obj, Obj) and cls in [obj.cls] + obj.cls.mro):
                return obj
        else:
            obj = Obj(cls)
            obj.shared = self.init_depth > 0
            obj.alloc_site = self.site
        self.emit("new", cls=cls.qualname, uid=obj.uid)
        kind, owner, fn = self.find_init(cls)
        if kind == "user":
            self.call_function(fn, [obj] + list(args), kwargs)
        elif kind == "dataclass":
            self._dataclass_init(obj, cls, args, kwargs)
        else:
            if new is MISSING or not isinstance(new, FuncRef):
                self.models.ext_init(self, obj, owner, args, kwargs)
        return obj

    def _field_opt(self, default: Any, opt: str, dflt: Any) -> Any:
        if isinstance(default, ExtObj) and default.kind == "dataclasses.Field":
            return default.attrs.get(opt, dflt)
        return dflt

    def _dataclass_init(self, obj: Obj, cls: ClassInfo, args: list, kwargs: dict) -> None:
        fields = self.dataclass_fields(cls)
        cls_kw_only = any(isinstance(c, ClassInfo) and c.dataclass and c.dataclass.get("kw_only") for c in cls.mro)
        init_names = [n for n, d in fields if self._field_opt(d, "init", True) is not False]
        names = [n for n, d in fields if n in init_names and not self._field_opt(d, "kw_only", cls_kw_only)]
        if len(args) > len(names):
            raise self.exc("TypeError", f"{cls.name}.__init__() takes {len(names) + 1} positional arguments but {len(args) + 1} were given")
        given: dict[str, Any] = dict(zip(names, args))
        for k, v in kwargs.items():
            if k not in init_names:
                raise self.exc("TypeError", f"{cls.name}.__init__() got an unexpected keyword argument '{k}'")
            if k in given:
                raise self.exc("TypeError", f"{cls.name}.__init__() got multiple values for '{k}'")
            given[k] = v
        for name, default in fields:
            if name in given:
                val = given[name]
            elif isinstance(default, ExtObj) and default.kind == "dataclasses.Field":
                if default.attrs.get("default_factory") is not None:
                    val = self.call(default.attrs["default_factory"], [], {})
                elif "default" in default.attrs:
                    val = default.attrs["default"]
                elif name not in init_names:
                    continue  # init=False without default: left unset (set by __post_init__)
                else:
                    raise self.exc("TypeError", f"{cls.name}.__init__() missing required argument '{name}'")
            elif default is not MISSING:
                val = default
            else:
                raise self.exc("TypeError", f"{cls.name}.__init__() missing required argument '{name}'")
            obj.attrs[name] = val
            self.emit("setattr", obj=obj, attr=name, value=val, init=True)
        post = self.lookup_class_attr(cls, "__post_init__")
        if post is not MISSING:
            obj.frozen_ok, saved = False, obj.frozen_ok
            self.call(self.bind(post, obj, cls), [], {})

    def lookup_class_attr(self, cls: ClassInfo, name: str, after: Any = None) -> Any:
        mro = cls.mro
        if after is not None:
            idx = next((i for i, c in enumerate(mro) if c is after), None)
            if idx is None:
                raise self.unsupported("super(): class not in MRO")
            mro = mro[idx + 1 :]
        for c in mro:
            if isinstance(c, ClassInfo):
                if name in c.attrs:
                    return c.attrs[name]
        return MISSING

    def ext_bases(self, cls: ClassInfo, after: Any = None) -> list[ExtRef]:
        mro = cls.mro
        if after is not None:
            idx = next((i for i, c in enumerate(mro) if c is after), None)
            mro = mro[idx + 1 :] if idx is not None else mro
        return [c for c in mro if isinstance(c, ExtRef)]

    def bind(self, attr: Any, obj: Any, cls: ClassInfo) -> Any:
        if isinstance(attr, SingleDispatch) and getattr(attr, "method", False) and obj is not None:
            return BoundMethod(obj, attr)
        if isinstance(attr, FuncRef):
            if attr.kind == "property":
                if obj is not None and getattr(attr, "cache_attr", False):
                    val = self.call_function(attr, [obj], {})
                    obj.attrs[attr.info.name] = val
                    return val
                return self.call_function(attr, [obj], {}) if obj is not None else attr
            if attr.kind == "classmethod":
                return BoundMethod(cls, FuncRef(attr.info, attr.env, attr.defaults, "function"))
            if attr.kind == "staticmethod":
                return FuncRef(attr.info, attr.env, attr.defaults, "function")
            if obj is None:
                return attr
            return BoundMethod(obj, attr)
        return attr

    def getattr(self, obj: Any, name: str, default: Any = MISSING) -> Any:
        try:
            return self._getattr(obj, name)
        except PyRaise as pr:
            if default is not MISSING and self.exc_class_name(pr.exc) == "AttributeError":
                return default
            raise

    def _getattr(self, obj: Any, name: str) -> Any:
        if isinstance(obj, Obj):
            if name in obj.attrs:
                return obj.attrs[name]
            if name == "__class__":
                return obj.cls
            v = self.lookup_class_attr(obj.cls, name)
            if v is not MISSING:
                return self.bind(v, obj, obj.cls)
            for eb in self.ext_bases(obj.cls):
                m = self.models.ext_base_attr(self, obj, eb, name)
                if m is not MISSING:
                    return m
            if name == "__dict__" and self.slots_of(obj.cls) is None:
                return ADict([[k, v] for k, v in obj.attrs.items()])
            ga = self.lookup_class_attr(obj.cls, "__getattr__")
            if ga is not MISSING and not name.startswith("__"):
                return self.call(self.bind(ga, obj, obj.cls), [name], {})
            raise self.exc("AttributeError", f"'{obj.cls.name}' object has no attribute '{name}'")
        if isinstance(obj, ClassInfo):
            if name == "__name__":
                return obj.name
            if name == "__qualname__" and "__qualname__" not in obj.attrs:
                return obj.qualname
            if name == "__module__" and "__module__" not in obj.attrs:
                return obj.module
            if name == "__mro__":
                return tuple(obj.mro)
            if name == "__bases__":
                return tuple(obj.bases)
            if name == "__doc__" and "__doc__" not in obj.attrs:
                return ast.get_docstring(obj.node) if obj.node is not None else None
            v = self.lookup_class_attr(obj, name)
            if v is not MISSING:
                return self.bind(v, None, obj)
            if name == "__class__":
                return ExtRef("builtins.type")
            for eb in self.ext_bases(obj):
                m = self.models.ext_class_attr(self, obj, eb, name)
                if m is not MISSING:
                    return m
            if name.startswith("__") and name.endswith("__"):
                # special attributes of classes mostly exist in CPython: an unmodelled one is an analysis gap, not an
                # AttributeError of the program
                raise self.unsupported(f"special attribute {name} of class {obj.name}")
            raise self.exc("AttributeError", f"type object '{obj.name}' has no attribute '{name}'")
        if isinstance(obj, ModuleRef):
            return self.module_attr(obj, name)
        if isinstance(obj, SuperProxy):
            v = self.lookup_class_attr(obj.obj.cls if isinstance(obj.obj, Obj) else obj.obj, name, after=obj.cls)
            if v is not MISSING:
                if isinstance(obj.obj, Obj):
                    return self.bind(v, obj.obj, obj.obj.cls)
                return self.bind(v, None, obj.obj)
            target_cls = obj.obj.cls if isinstance(obj.obj, Obj) else obj.obj
            for eb in self.ext_bases(target_cls, after=obj.cls):
                m = self.models.ext_base_attr(self, obj.obj, eb, name) if isinstance(obj.obj, Obj) else self.models.ext_class_attr(self, obj.obj, eb, name)
                if m is not MISSING:
                    return m
            if name.startswith("__") and name.endswith("__") and name not in ("__init_subclass__", "__init__"):
                raise self.unsupported(f"special method {name} through super()")
            if name in ("__init_subclass__", "__init__"):
                # every class ultimately derives from object, whose hooks take no arguments and do nothing
                return ExtMethod(obj.obj, "object_init", name)
            raise self.exc("AttributeError", f"'super' object has no attribute '{name}'")
        if isinstance(obj, SingleDispatch):
            if name == "register":
                return ExtMethod(obj, "singledispatch", "register")
            raise self.exc("AttributeError", name)
        if isinstance(obj, EnumInt):
            if name == "value":
                return int(obj)
            if name == "name":
                return obj.member
        return self.models.getattr_ext(self, obj, name)

    def slots_of(self, cls: ClassInfo) -> set | None:
        """Attribute names allowed by __slots__, or None when instances have a __dict__."""
        names: set = set()
        for c in cls.mro:
            if isinstance(c, ClassInfo):
                if c.dataclass is not None and c.dataclass.get("slots"):
                    names.update(n for n, _ in self.dataclass_fields(c))
                    continue
                sl = c.attrs.get("__slots__", MISSING)
                if sl is MISSING:
                    return None
                names.update([sl] if isinstance(sl, str) else self.unpack_values(sl))
            elif isinstance(c, ExtRef) and c.name != "builtins.object":
                return None
        return names

    def setattr(self, obj: Any, name: str, val: Any) -> None:
        if isinstance(obj, Obj):
            if any(isinstance(c, ClassInfo) and c.dataclass and c.dataclass["frozen"] for c in obj.cls.mro) and not obj.frozen_ok:
                raise self.exc("FrozenInstanceError", f"cannot assign to field '{name}'")
            prop = self.lookup_class_attr(obj.cls, name)
            if isinstance(prop, FuncRef) and prop.kind == "property":
                setter = getattr(prop, "setter", None)
                if setter is None:
                    raise self.exc("AttributeError", f"property '{name}' has no setter")
                self.call_function(setter, [obj, val], {})
                return
            if name not in obj.attrs:
                slots = self.slots_of(obj.cls)
                if slots is not None and name not in slots:
                    raise self.exc("AttributeError", f"'{obj.cls.name}' object has no attribute '{name}'")
            self.emit("setattr", obj=obj, attr=name, value=val, shared=obj.shared and self.init_depth == 0)
            obj.attrs[name] = val
            return
        if isinstance(obj, ClassInfo):
            self.emit("setattr", obj=obj, attr=name, value=val, shared=self.init_depth == 0)
            obj.attrs[name] = val
            return
        if isinstance(obj, ModuleRef):
            self.emit("setattr", obj=obj, attr=name, value=val, shared=self.init_depth == 0)
            self.module_ns(obj.name)[name] = val
            return
        self.models.setattr_ext(self, obj, name, val)

    # ------------------------------------------------------------------ iteration

    def get_iter(self, v: Any) -> Any:
        if isinstance(v, (GenObj, AIter, SymIter)):
            return v
        if isinstance(v, tuple):
            return AIter(iter(v), "tuple")
        if isinstance(v, (str, bytes)):
            if isinstance(v, bytes):
                return AIter(iter(v), "bytes")
            return AIter(iter(v), "str")
        if isinstance(v, AList):
            return AIter(_live_iter(v), v.kind)
        if isinstance(v, ADict):
            return AIter(iter([k for k, _ in v.pairs]), "dict_keys")
        if isinstance(v, ASet):
            self.emit("set_iteration", uid=v.uid)
            return AIter(iter(list(v.items)), "set")
        if isinstance(v, Obj):
            it = self.lookup_class_attr(v.cls, "__iter__")
            if it is not MISSING:
                return self.get_iter(self.call(self.bind(it, v, v.cls), [], {}))
            if v.tuple_items is not None:
                return AIter(iter(v.tuple_items), "tuple")
            for eb in self.ext_bases(v.cls):
                r = self.models.ext_base_iter(self, v, eb)
                if r is not MISSING:
                    return r
            raise self.exc("TypeError", f"'{v.cls.name}' object is not iterable")
        if isinstance(v, ClassInfo) and v.is_enum:
            return AIter(iter([v.attrs[m] for m in v.enum_members]), "enum")
        return self.models.iter_ext(self, v)

    def send_value(self, it: GenObj, value: Any) -> tuple[bool, Any]:
        return self.next_value(it, send=value)

    def next_value(self, it: Any, send: Any = None) -> tuple[bool, Any]:
        if isinstance(it, GenObj):
            if it.done:
                return False, None
            try:
                v = it.host.send(send) if (send is not None and it.started) else next(it.host)
                it.started = True
                return True, v
            except StopIteration:
                it.done = True
                return False, None
            except PyRaise as pr:
                it.done = True
                if self.exc_class_name(pr.exc) == "StopIteration":
                    # PEP 479: a StopIteration escaping a generator body is turned into RuntimeError
                    raise self.exc("RuntimeError", "generator raised StopIteration") from None
                raise
        if isinstance(it, AIter):
            try:
                return True, next(it.source)
            except StopIteration:
                return False, None
        if isinstance(it, SymIter):
            if it.exhausted:
                return False, None
            more = False
            if it.pulled < it.max_items:
                more = self.choose(2, f"more:{it.label}:{it.pulled}") == 0
            self.emit("pull", label=it.label, index=it.pulled, got=more)
            if not more:
                it.exhausted = True
                return False, None
            v = it.make(self, it.pulled)
            it.pulled += 1
            return True, v
        raise self.exc("TypeError", f"{it!r} is not an iterator")

    def drain(self, v: Any, limit: int = 10_000) -> list:
        it = self.get_iter(v)
        out = []
        while True:
            ok, item = self.next_value(it)
            if not ok:
                return out
            out.append(item)
            if len(out) > limit:
                raise BudgetExceeded("draining an unbounded iterator")

    # ------------------------------------------------------------------ truth / equality

    def truth(self, v: Any, tag: str = "") -> bool:
        if v is None or v is False:
            return False
        if v is True:
            return True
        if isinstance(v, (int, float, str, bytes, tuple)):
            return bool(v)
        if isinstance(v, SStr):
            known = None
            for p in v.parts:
                if isinstance(p, str) or (isinstance(p, Atom) and p.nonempty is True):
                    return True
                if isinstance(p, Atom) and p.nonempty is None:
                    known = False
            if known is None:
                return False
            return self.decide(("truth", v), f"{tag}:nonempty({v!r})")
        if isinstance(v, Unknown):
            if v.positive:
                return True
            return self.decide(("truth", v.key), f"{tag}:truth({v!r})")
        if isinstance(v, AList):
            return bool(v.items)
        if isinstance(v, ADict):
            return bool(v.pairs)
        if isinstance(v, ASet):
            return bool(v.items)
        if isinstance(v, Obj):
            b = self.lookup_class_attr(v.cls, "__bool__")
            if b is not MISSING:
                return self.truth(self.call(self.bind(b, v, v.cls), [], {}), tag)
            ln = self.lookup_class_attr(v.cls, "__len__")
            if ln is not MISSING:
                return self.truth(self.call(self.bind(ln, v, v.cls), [], {}), tag)
            if v.tuple_items is not None:
                return bool(v.tuple_items)
            for eb in self.ext_bases(v.cls):
                r = self.models.ext_base_len(self, v, eb)
                if r is not MISSING:
                    return self.truth(r, tag)
            return True
        if isinstance(v, ExtObj):
            return self.models.truth_ext(self, v, tag)
        return True

    def eq(self, a: Any, b: Any) -> Any:
        """Abstract ``a == b``: True / False / Unknown."""
        if a is b:
            if isinstance(a, float) and a != a:
                return False
            return True
        if isinstance(a, Unknown) or isinstance(b, Unknown):
            ka = a.key if isinstance(a, Unknown) else _key(a)
            kb = b.key if isinstance(b, Unknown) else _key(b)
            if isinstance(a, Unknown) and isinstance(b, Unknown) and repr(ka) == repr(kb) and not (isinstance(ka, tuple) and ka and ka[0] == "fresh"):
                return True  # the same unknown quantity
            return Unknown(("eq",) + tuple(sorted((repr(ka), repr(kb)))), f"{a!r}=={b!r}")
        if isinstance(a, SPos) or isinstance(b, SPos):
            if isinstance(a, SPos) and isinstance(b, SPos):
                return a == b if a.s == b.s and self.models._parts(a.head) == self.models._parts(b.head) else self._cmp_pos(ast.GtE, a, b) and self._cmp_pos(ast.LtE, a, b)
            p, n = (a, b) if isinstance(a, SPos) else (b, a)
            if isinstance(n, int) and not isinstance(n, bool):
                if n < p.delta:
                    return False
                return self._cmp_pos(ast.GtE, p, n) and self._cmp_pos(ast.LtE, p, n)
            return False
        if isinstance(a, Obj) or isinstance(b, Obj):
            for x, y in ((a, b), (b, a)):
                if isinstance(x, Obj):
                    m = self.lookup_class_attr(x.cls, "__eq__")
                    if m is not MISSING:
                        r = self.call(self.bind(m, x, x.cls), [y], {})
                        if (isinstance(r, ExtObj) and r.kind == "NotImplemented") or (isinstance(r, ExtRef) and r.name == "builtins.NotImplemented"):
                            continue
                        return r
            if isinstance(a, Obj) and isinstance(b, Obj):
                if a.tuple_items is not None and b.tuple_items is not None:
                    return self.eq(a.tuple_items, b.tuple_items)
                if a.cls is b.cls and any(isinstance(c, ClassInfo) and c.dataclass and c.dataclass.get("eq", True) for c in a.cls.mro):
                    cmp_fields = [n for n, d in self.dataclass_fields(a.cls) if self._field_opt(d, "compare", True) is not False]
                    fa = [a.attrs.get(n) for n in cmp_fields]
                    fb = [b.attrs.get(n) for n in cmp_fields]
                    return self.eq(tuple(fa), tuple(fb))
            if isinstance(a, Obj) and a.tuple_items is not None and isinstance(b, tuple):
                return self.eq(a.tuple_items, b)
            if isinstance(b, Obj) and b.tuple_items is not None and isinstance(a, tuple):
                return self.eq(a, b.tuple_items)
            return False
        if isinstance(a, SStr) or isinstance(b, SStr):
            if not (is_strlike(a) and is_strlike(b)):
                return False
            if a == b:
                return True
            for x, y in ((a, b), (b, a)):
                if isinstance(y, str) and y == "" and isinstance(x, SStr):
                    t = _sstr_nonempty(x)
                    if t is True:
                        return False
                    if t is False:
                        return True
            if self.generic_strings:
                return False
            ka, kb = sorted((repr(a), repr(b)))
            return Unknown(("eq", ka, kb), f"{a!r}=={b!r}")
        if isinstance(a, tuple) and isinstance(b, tuple):
            if len(a) != len(b):
                return False
            res: Any = True
            for x, y in zip(a, b):
                r = self.eq(x, y)
                if r is False:
                    return False
                if r is not True:
                    if not self.truth(r, "eq-elem"):
                        return False
            return res
        if isinstance(a, AList) and isinstance(b, AList):
            if (a.kind == "bytearray") != (b.kind == "bytearray") or (a.kind == "deque") != (b.kind == "deque"):
                return False
            return self.eq(tuple(a.items), tuple(b.items))
        if isinstance(a, AList) and a.kind == "bytearray" and isinstance(b, bytes):
            return bytes(a.items) == b
        if isinstance(b, AList) and b.kind == "bytearray" and isinstance(a, bytes):
            return bytes(b.items) == a
        if isinstance(a, ADict) and isinstance(b, ADict):
            if len(a.pairs) != len(b.pairs):
                return False
            if a.kind == "OrderedDict" and b.kind == "OrderedDict":
                return self.eq(tuple((k, v) for k, v in a.pairs), tuple((k, v) for k, v in b.pairs))
            for k, v in a.pairs:
                i = self.models.dict_find(self, b, k)
                if i is None or not self.truth(self.eq(v, b.pairs[i][1]), "dict-eq"):
                    return False
            return True
        if isinstance(a, ASet) and isinstance(b, ASet):
            if len(a.items) != len(b.items):
                return False
            return all(self.truth(self.contains(b, x), "set-eq") for x in a.items)
        if isinstance(a, ExtObj) or isinstance(b, ExtObj):
            return self.models.eq_ext(self, a, b)
        if isinstance(a, Msg) and isinstance(b, Msg):
            from .freeze import freeze as _fz

            return a.mtype == b.mtype and _fz(a) == _fz(b)  # protobuf messages compare by content
        if isinstance(a, (ClassInfo, FuncRef, Msg, ADict, AList, ASet, GenObj, ModuleRef)) or isinstance(b, (ClassInfo, FuncRef, Msg, ADict, AList, ASet, GenObj, ModuleRef)):
            return False
        if isinstance(a, (MsgClass, ExtRef, EnumTypeRef)) or isinstance(b, (MsgClass, ExtRef, EnumTypeRef)):
            return a == b
        try:
            return bool(a == b)
        except Exception as e:  # pragma: no cover
            raise self.unsupported(f"equality of {a!r} and {b!r}: {e}")

    def is_same(self, a: Any, b: Any) -> Any:
        if isinstance(a, Unknown) or isinstance(b, Unknown):
            if a is b:
                return True
            u = a if isinstance(a, Unknown) else b
            o = b if isinstance(a, Unknown) else a
            return Unknown(("is", u.key, _key(o)), f"{a!r} is {b!r}")
        if a is None or b is None or isinstance(a, bool) or isinstance(b, bool):
            return a is b
        if isinstance(a, (int, str, bytes, SStr, tuple)) and not isinstance(a, EnumInt):
            if type(a) is type(b):
                return a == b
            return False
        if isinstance(a, EnumInt) and isinstance(b, EnumInt):
            return a.cls is b.cls and int(a) == int(b)
        if isinstance(a, (ExtRef, MsgClass)):
            return a == b
        return a is b

    # ------------------------------------------------------------------ isinstance / exceptions

    def isinstance_one(self, v: Any, cls: Any) -> Any:
        if isinstance(cls, tuple):
            unk = None
            for c in cls:
                r = self.isinstance_one(v, c)
                if r is True:
                    return True
                if r is not False:
                    unk = r
            return unk if unk is not None else False
        if isinstance(v, Unknown):
            return Unknown(("isinstance", v.key, _key(cls)), f"isinstance({v!r},{cls!r})")
        if isinstance(cls, ClassInfo):
            if isinstance(v, Obj):
                return cls in v.cls.mro
            if isinstance(v, EnumInt):
                return v.cls is cls
            return False
        if isinstance(cls, MsgClass):
            return isinstance(v, Msg) and v.mtype == cls.mtype
        if isinstance(cls, ExtRef):
            return self.models.isinstance_ext(self, v, cls)
        if isinstance(cls, Unknown):
            return fresh_unknown("isinstance against unknown class")
        raise self.exc("TypeError", f"isinstance() arg 2 must be a type, got {cls!r}")

    def exc_class_name(self, e: Any) -> str:
        if isinstance(e, ExtObj) and e.kind.startswith("exc:"):
            return e.kind[4:]
        if isinstance(e, Obj):
            return e.cls.name
        return repr(e)

    def exc_matches(self, e: Any, handler: Any) -> bool:
        if isinstance(handler, tuple):
            return any(self.exc_matches(e, h) for h in handler)
        if isinstance(handler, ClassInfo):
            return isinstance(e, Obj) and handler in e.cls.mro
        if isinstance(handler, ExtRef):
            hname = handler.name.split(".")[-1]
            hcls = self.models.EXC_CLASSES.get(hname) or getattr(_pybuiltins, hname, None)
            if not (isinstance(hcls, type) and issubclass(hcls, BaseException)):
                raise self.unsupported(f"except clause with external class {handler.name}")
            if isinstance(e, ExtObj) and e.kind.startswith("exc:"):
                ecls = self.models.EXC_CLASSES.get(e.kind[4:]) or getattr(_pybuiltins, e.kind[4:], None)
                if ecls is None:
                    raise self.unsupported(f"unknown exception kind {e.kind}")
                return issubclass(ecls, hcls)
            if isinstance(e, Obj):
                for c in e.cls.mro:
                    if isinstance(c, ExtRef):
                        ecls = getattr(_pybuiltins, c.name.split(".")[-1], None)
                        if isinstance(ecls, type) and issubclass(ecls, BaseException):
                            return issubclass(ecls, hcls)
                return False
        raise self.unsupported(f"except clause with {handler!r}")

    # ------------------------------------------------------------------ expressions

    def eval(self, node: ast.expr | None, env: Env) -> Any:
        if node is None:
            return None
        m = getattr(self, "_e_" + type(node).__name__, None)
        if m is None:
            raise self.unsupported(f"expression {type(node).__name__}")
        return m(node, env)

    def _e_Constant(self, node: ast.Constant, env: Env) -> Any:
        v = node.value
        if v is Ellipsis:
            return ExtObj("Ellipsis")
        if self.tunable_scale is not None and type(v) is int:
            key = self._tunable_index.get(id(node))
            if key is not None and key not in self._tunable_spec:
                self.tunables_hit.add(key)
                return self.tunable_scale
        return v

    def lookup_name(self, name: str, env: Env) -> Any:
        e: Env | None = env
        first = True
        while e is not None:
            # class bodies are not enclosing scopes for functions
            if name in e.vars and (first or e.cls is None or e.func is not None):
                return e.vars[name]
            first = False
            e = e.parent
        ns = self.modules.get(env.module)
        if ns is not None and name in ns:
            return ns[name]
        if name == "__class__" and env.cls is not None:
            return env.cls
        if hasattr(_pybuiltins, name):
            return ExtRef("builtins." + name)
        raise self.exc("NameError", f"name '{name}' is not defined")

    def _e_Name(self, node: ast.Name, env: Env) -> Any:
        return self.lookup_name(node.id, env)

    def _e_Attribute(self, node: ast.Attribute, env: Env) -> Any:
        return self.getattr(self.eval(node.value, env), node.attr)

    def _e_Tuple(self, node: ast.Tuple, env: Env) -> Any:
        return tuple(self._elts(node.elts, env))

    def _e_List(self, node: ast.List, env: Env) -> Any:
        lst = AList(self._elts(node.elts, env))
        lst.shared = self.init_depth > 0
        return lst

    def _e_Set(self, node: ast.Set, env: Env) -> Any:
        out: list = []
        for v in self._elts(node.elts, env):
            if not any(self.eq(v, o) is True for o in out):
                out.append(v)
        s = ASet(out)
        s.shared = self.init_depth > 0
        return s

    def _elts(self, elts: list[ast.expr], env: Env) -> list:
        out = []
        for e in elts:
            if isinstance(e, ast.Starred):
                vals = self.unpack_values(self.eval(e.value, env))
                self.emit("copy", what="[*seq]", size=len(vals))
                out.extend(vals)
            else:
                out.append(self.eval(e, env))
        return out

    def _e_Dict(self, node: ast.Dict, env: Env) -> Any:
        d = ADict([])
        d.shared = self.init_depth > 0
        for k, v in zip(node.keys, node.values):
            if k is None:
                src = self.eval(v, env)
                if not isinstance(src, ADict):
                    raise self.unsupported("** of a non-dict in a dict display")
                self.emit("copy", what="{**dict}", size=len(src.pairs))
                for kk, vv in src.pairs:
                    self.models.dict_set(self, d, kk, vv, quiet=True)
            else:
                self.models.dict_set(self, d, self.eval(k, env), self.eval(v, env), quiet=True)
        return d

    def _e_JoinedStr(self, node: ast.JoinedStr, env: Env) -> Any:
        parts = []
        for v in node.values:
            if isinstance(v, ast.Constant):
                parts.append(v.value)
            else:
                fv: ast.FormattedValue = v  # type: ignore[assignment]
                val = self.eval(fv.value, env)
                if fv.conversion == 114 and fv.format_spec is None:  # !r
                    parts.append(self.models.to_repr(self, val))
                elif fv.format_spec is not None:
                    if fv.conversion == 114:
                        val = self.models.to_repr(self, val)
                    elif fv.conversion == 115:
                        val = self.models.to_str(self, val)
                    spec = self.eval(fv.format_spec, env)
                    from . import models_std as _ms

                    if isinstance(spec, str) and _ms.is_concrete(val):
                        try:
                            parts.append(format(val, spec))
                        except (ValueError, TypeError) as e:
                            raise self.exc(type(e).__name__, str(e))
                    else:
                        parts.append(Atom(f"fmt{getattr(fv, 'lineno', 0)}", nonempty=None))
                else:
                    parts.append(self.models.to_str(self, val, opaque_ok=True))
        try:
            return sstr(*parts)
        except TypeError:
            return sstr(*[p if isinstance(p, (str, SStr, Atom)) else Atom("fmt", nonempty=None) for p in parts])

    def _e_BoolOp(self, node: ast.BoolOp, env: Env) -> Any:
        is_and = isinstance(node.op, ast.And)
        val: Any = None
        for i, v in enumerate(node.values):
            val = self.eval(v, env)
            if i == len(node.values) - 1:
                return val
            t = self.truth(val, "boolop")
            if is_and and not t:
                return val
            if not is_and and t:
                return val
        return val

    def _e_UnaryOp(self, node: ast.UnaryOp, env: Env) -> Any:
        v = self.eval(node.operand, env)
        if isinstance(node.op, ast.Not):
            return not self.truth(v, "not")
        if isinstance(node.op, ast.USub):
            if isinstance(v, (int, float)):
                return -v
            if isinstance(v, Unknown):
                return Unknown(("neg", v.key), f"-{v!r}")
        if isinstance(node.op, ast.UAdd) and isinstance(v, (int, float)):
            return +v
        if isinstance(node.op, ast.Invert) and isinstance(v, int):
            return ~v
        if isinstance(v, Unknown):
            return Unknown((type(node.op).__name__, v.key), f"{type(node.op).__name__} {v!r}")
        raise self.unsupported(f"unary {type(node.op).__name__} on {v!r}")

    def _e_IfExp(self, node: ast.IfExp, env: Env) -> Any:
        if self.truth(self.eval(node.test, env), "ifexp"):
            return self.eval(node.body, env)
        return self.eval(node.orelse, env)

    def _e_NamedExpr(self, node: ast.NamedExpr, env: Env) -> Any:
        v = self.eval(node.value, env)
        # walrus inside a comprehension binds in the enclosing function scope; here comprehensions
        # get their own Env whose parent is the function Env, so bind at the nearest function Env
        e = env
        while e.func is not None and e.func.name in ("<genexpr>", "<listcomp>") and e.parent is not None:
            e = e.parent
        e.vars[node.target.id] = v
        return v

    def _e_Lambda(self, node: ast.Lambda, env: Env) -> Any:
        return self.make_function(node, env, "<lambda>")

    def _e_Compare(self, node: ast.Compare, env: Env) -> Any:
        left = self.eval(node.left, env)
        result: Any = True
        for i, (op, rn) in enumerate(zip(node.ops, node.comparators)):
            right = self.eval(rn, env)
            r = self.compare(type(op), left, right)
            if i == len(node.ops) - 1:
                return r if result is True else (r if self.truth(result, "cmpchain") else result)
            if not self.truth(r, "cmpchain"):
                return False
            left = right
        return result

    def compare(self, op: type, a: Any, b: Any) -> Any:
        if op is ast.Eq:
            return self.eq(a, b)
        if op is ast.NotEq:
            r = self.eq(a, b)
            if isinstance(r, Unknown):
                return Unknown(("not", r.key), f"not {r!r}")
            return not r
        if op is ast.Is:
            return self.is_same(a, b)
        if op is ast.IsNot:
            r = self.is_same(a, b)
            if isinstance(r, Unknown):
                return Unknown(("not", r.key), f"not {r!r}")
            return not r
        if op in (ast.In, ast.NotIn):
            r = self.contains(b, a)
            if op is ast.NotIn:
                if isinstance(r, Unknown):
                    return Unknown(("not", r.key), f"not {r!r}")
                return not r
            return r
        if isinstance(a, Unknown) and a.positive and isinstance(b, (int, float)) and b <= 0:
            return op in (ast.Gt, ast.GtE)
        if isinstance(b, Unknown) and b.positive and isinstance(a, (int, float)) and a <= 0:
            return op in (ast.Lt, ast.LtE)
        if isinstance(a, Unknown) or isinstance(b, Unknown):
            return Unknown(("cmp", op.__name__, _key(a), _key(b)), f"{a!r} {op.__name__} {b!r}")
        if isinstance(a, SPos) or isinstance(b, SPos):
            return self._cmp_pos(op, a, b)
        if isinstance(a, (int, float)) and isinstance(b, (int, float)):
            return {ast.Lt: a < b, ast.LtE: a <= b, ast.Gt: a > b, ast.GtE: a >= b}[op]
        if isinstance(a, str) and isinstance(b, str):
            return {ast.Lt: a < b, ast.LtE: a <= b, ast.Gt: a > b, ast.GtE: a >= b}[op]
        if isinstance(a, bytes) and isinstance(b, bytes):
            return {ast.Lt: a < b, ast.LtE: a <= b, ast.Gt: a > b, ast.GtE: a >= b}[op]
        seq_a = a.items if isinstance(a, AList) and a.kind == "list" else (list(a) if isinstance(a, tuple) else None)
        seq_b = b.items if isinstance(b, AList) and b.kind == "list" else (list(b) if isinstance(b, tuple) else None)
        if seq_a is not None and seq_b is not None and isinstance(a, tuple) == isinstance(b, tuple):
            # lexicographic: first differing element decides, then the lengths
            for x, y in zip(seq_a, seq_b):
                if not self.truth(self.eq(x, y), "seq-compare"):
                    return self.compare(op, x, y)
            return {ast.Lt: len(seq_a) < len(seq_b), ast.LtE: len(seq_a) <= len(seq_b), ast.Gt: len(seq_a) > len(seq_b), ast.GtE: len(seq_a) >= len(seq_b)}[op]
        if isinstance(a, ASet) and isinstance(b, ASet):
            sub = all(self.truth(self.contains(b, x), "subset") for x in a.items)
            sup = all(self.truth(self.contains(a, x), "superset") for x in b.items)
            return {ast.LtE: sub, ast.Lt: sub and not sup, ast.GtE: sup, ast.Gt: sup and not sub}[op]
        if isinstance(a, Obj):
            dunder = {ast.Lt: "__lt__", ast.LtE: "__le__", ast.Gt: "__gt__", ast.GtE: "__ge__"}[op]
            m = self.lookup_class_attr(a.cls, dunder)
            if m is not MISSING:
                return self.call(self.bind(m, a, a.cls), [b], {})
            if isinstance(b, Obj):
                refl = {ast.Lt: "__gt__", ast.LtE: "__ge__", ast.Gt: "__lt__", ast.GtE: "__le__"}[op]
                m = self.lookup_class_attr(b.cls, refl)
                if m is not MISSING:
                    return self.call(self.bind(m, b, b.cls), [a], {})
                if a.cls is b.cls and any(isinstance(c, ClassInfo) and c.dataclass and c.dataclass.get("order") for c in a.cls.mro):
                    cmp_fields = [n for n, d in self.dataclass_fields(a.cls) if self._field_opt(d, "compare", True) is not False]
                    return self.compare(op, tuple(a.attrs.get(n) for n in cmp_fields), tuple(b.attrs.get(n) for n in cmp_fields))
        from . import models_std as _ms

        if _ms.is_concrete(a) and _ms.is_concrete(b):
            raise self.exc("TypeError", f"'{ {ast.Lt: '<', ast.LtE: '<=', ast.Gt: '>', ast.GtE: '>='}[op] }' not supported between instances of '{type(a).__name__}' and '{type(b).__name__}'")
        raise self.unsupported(f"ordering comparison of {a!r} and {b!r}")

    def _cmp_pos(self, op: type, a: Any, b: Any) -> Any:
        """Ordering of symbolic positions: against integers (a position is >= its delta) and against each other when
        one head is a prefix of the other."""
        table = {ast.Lt: lambda x: x < 0, ast.LtE: lambda x: x <= 0, ast.Gt: lambda x: x > 0, ast.GtE: lambda x: x >= 0}
        if isinstance(a, SPos) and isinstance(b, SPos):
            if a.s != b.s:
                raise self.unsupported("comparison of positions in different strings")
            pa, pb = self.models._parts(a.head), self.models._parts(b.head)

            def is_prefix(x: list, y: list) -> bool:
                if len(x) > len(y):
                    return False
                for i, p in enumerate(x):
                    if p == y[i]:
                        continue
                    if i == len(x) - 1 and isinstance(p, str) and isinstance(y[i], str) and y[i].startswith(p):
                        return True
                    return False
                return True

            if pa == pb:
                return table[op](a.delta - b.delta)
            if is_prefix(pa, pb) and a.delta <= b.delta:
                return table[op](-1)
            if is_prefix(pb, pa) and b.delta <= a.delta:
                return table[op](1)
            raise self.unsupported(f"ordering of {a!r} and {b!r}")
        if isinstance(a, SPos) and isinstance(b, int):
            # value = len(head) + delta >= delta
            if a.delta > b:
                return table[op](1)
            if a.delta == b:
                if op is ast.Lt:
                    return False
                if op is ast.GtE:
                    return True
                ne = self._pos_head_nonempty(a)
                if ne is True:
                    return table[op](1)
                if ne is False:
                    return table[op](0)
            raise self.unsupported(f"ordering of {a!r} and {b!r}")
        if isinstance(b, SPos) and isinstance(a, int):
            flip = {ast.Lt: ast.Gt, ast.LtE: ast.GtE, ast.Gt: ast.Lt, ast.GtE: ast.LtE}[op]
            return self._cmp_pos(flip, b, a)
        raise self.unsupported(f"ordering of {a!r} and {b!r}")

    def _pos_head_nonempty(self, p: Any) -> bool | None:
        h = p.head
        if isinstance(h, str):
            return bool(h)
        return _sstr_nonempty(h)

    def contains(self, container: Any, item: Any) -> Any:
        if isinstance(container, bytes) and isinstance(item, (int, bytes)) and not isinstance(item, bool):
            return item in container
        if isinstance(container, AList) and container.kind == "bytearray" and isinstance(item, (int, bytes)):
            return item in bytes(container.items)
        if isinstance(container, (tuple, AList, ASet)) or (isinstance(container, Obj) and container.tuple_items is not None):
            items = container if isinstance(container, tuple) else (container.items if isinstance(container, (AList, ASet)) else container.tuple_items)
            for x in items:
                r = self.eq(item, x) if not (item is x) else True
                if r is True:
                    return True
                if r is not False and self.truth(r, "in"):
                    return True
            return False
        if isinstance(container, ADict):
            return self.models.dict_find(self, container, item) is not None
        if isinstance(container, str) and isinstance(item, str):
            return item in container
        if isinstance(container, (str, SStr)) and is_strlike(item):
            return Unknown(("in", _key(item), _key(container)), f"{item!r} in {container!r}")
        if isinstance(container, Unknown):
            return Unknown(("in", _key(item), container.key), f"{item!r} in {container!r}")
        if isinstance(container, Obj):
            m = self.lookup_class_attr(container.cls, "__contains__")
            if m is not MISSING:
                return self.call(self.bind(m, container, container.cls), [item], {})
            return self.contains(tuple(self.drain(container)), item)
        return self.models.contains_ext(self, container, item)

    def _e_BinOp(self, node: ast.BinOp, env: Env) -> Any:
        return self.binop(type(node.op), self.eval(node.left, env), self.eval(node.right, env))

    def binop(self, op: type, a: Any, b: Any, inplace: bool = False) -> Any:
        if isinstance(a, SPos) and isinstance(b, int) and not isinstance(b, bool) and op in (ast.Add, ast.Sub):
            return SPos(a.s, a.head, a.delta + (b if op is ast.Add else -b))
        if isinstance(b, SPos) and isinstance(a, int) and not isinstance(a, bool) and op is ast.Add:
            return SPos(b.s, b.head, b.delta + a)
        if op is ast.BitOr:
            if _is_typeish(a) and _is_typeish(b):
                return ExtRef("typing.Union")
        if op is ast.Add and isinstance(a, ExtObj) and a.kind == "rdflib.URIRef" and is_strlike(b):
            from . import models_rdflib as _R

            return _R.uri(sstr(a.attrs["value"], b))  # rdflib.term.URIRef.__add__ keeps the class
        if op is ast.Add:
            if isinstance(a, ExtObj) and a.kind == "bytes:chunk":
                return self.models.concat_chunks(a, b)
            if is_strlike(a) and is_strlike(b):
                return sstr(a, b)
            if isinstance(a, tuple) and isinstance(b, tuple):
                self.emit("copy", what="tuple+tuple", size=len(a) + len(b))
                return a + b
            if isinstance(a, AList) and isinstance(b, AList):
                if not inplace:
                    self.emit("copy", what="list+list", size=len(a.items) + len(b.items))
                if inplace:
                    self.models.list_mutated(self, a, "extend")
                    a.items.extend(b.items)
                    return None
                return AList(a.items + b.items)
            if isinstance(a, bytes) and isinstance(b, bytes):
                return a + b
            _byteslike = lambda x: isinstance(x, bytes) or (isinstance(x, ExtObj) and x.kind in ("bytes:frame", "bytes:cat")) or (isinstance(x, AList) and x.kind == "bytearray")  # noqa: E731
            if _byteslike(a) and _byteslike(b):
                if isinstance(a, AList) and inplace:
                    if not isinstance(b, (bytes, AList)):
                        raise self.unsupported("bytearray += serialised frame")
                    a.items.extend(b if isinstance(b, bytes) else b.items)
                    return None
                return self.models.concat_bytes(self, a, b)
        if op is ast.Mult:
            for x, y in ((a, b), (b, a)):
                if isinstance(y, int) and not isinstance(y, bool) or isinstance(y, bool):
                    if isinstance(x, tuple):
                        self.emit("alloc", what="tuple*n", size=y)
                        if y > 10_000:
                            return Unknown(("huge-seq", y), f"sequence of {y} items")
                        return x * y
                    if isinstance(x, AList):
                        self.emit("alloc", what="list*n", size=y)
                        if y > 10_000:
                            return Unknown(("huge-seq", y), f"sequence of {y} items")
                        return AList(x.items * y)
                    if isinstance(x, str):
                        return x * y
                if isinstance(y, Unknown) and isinstance(x, (tuple, AList)):
                    self.emit("alloc", what="seq*n", size=y)
                    return fresh_unknown("sequence of unknown size")
        if isinstance(a, (int, float)) and isinstance(b, (int, float)):
            try:
                if op is ast.Add:
                    return a + b
                if op is ast.Sub:
                    return a - b
                if op is ast.Mult:
                    return a * b
                if op is ast.Mod:
                    return a % b
                if op is ast.FloorDiv:
                    return a // b
                if op is ast.Div:
                    return a / b
                if op is ast.LShift:
                    return a << b
                if op is ast.RShift:
                    return a >> b
                if op is ast.BitAnd:
                    return a & b
                if op is ast.BitOr:
                    return a | b
                if op is ast.Pow:
                    return a**b
            except ZeroDivisionError:
                raise self.exc("ZeroDivisionError", "division by zero")
        if isinstance(a, Unknown) or isinstance(b, Unknown):
            return Unknown(("binop", op.__name__, _key(a), _key(b)), f"{a!r}{op.__name__}{b!r}")
        from . import models_std as _ms

        if op is ast.Mod and isinstance(a, (str, bytes)):
            if isinstance(b, ADict) and all(_ms.is_concrete(k) and _ms.is_concrete(v) for k, v in b.pairs):
                b = {k: v for k, v in b.pairs}
            if _ms.is_concrete(b) or isinstance(b, dict):
                try:
                    return a % b
                except (TypeError, ValueError) as e:
                    raise self.exc(type(e).__name__, str(e))
            return sstr(Atom("pct-format", nonempty=None))
        def _keys_as_set(x: Any) -> Any:
            if isinstance(x, ExtObj) and x.kind == "dict_view" and x.attrs["what"] in ("keys", "items"):
                return ASet(list(self.models.view_items(x)))
            return x

        if op in (ast.BitOr, ast.BitAnd, ast.Sub, ast.BitXor) and (isinstance(a, ExtObj) or isinstance(b, ExtObj)):
            a2, b2 = _keys_as_set(a), _keys_as_set(b)
            if isinstance(a2, ASet) and isinstance(b2, ASet):
                a, b, inplace = a2, b2, False
        if op is ast.BitOr and isinstance(a, ADict) and isinstance(b, ADict):
            merged = ADict([[k, v] for k, v in a.pairs], kind=a.kind)
            for k, v in b.pairs:
                i = self.models.dict_find(self, merged, k)
                if i is None:
                    merged.pairs.append([k, v])
                else:
                    merged.pairs[i][1] = v
            if inplace:
                self.models.list_mutated(self, a, "update") if False else None
                a.pairs[:] = merged.pairs
                return a
            return merged
        if isinstance(a, ASet) and isinstance(b, ASet) and op in (ast.BitOr, ast.BitAnd, ast.Sub, ast.BitXor):
            def has(st: ASet, x: Any) -> bool:
                return self.contains(st, x) is True or (self.contains(st, x) is not False and self.truth(self.contains(st, x), "set-op"))

            if op is ast.BitOr:
                items = list(a.items) + [x for x in b.items if not has(a, x)]
            elif op is ast.BitAnd:
                items = [x for x in a.items if has(b, x)]
            elif op is ast.Sub:
                items = [x for x in a.items if not has(b, x)]
            else:
                items = [x for x in a.items if not has(b, x)] + [x for x in b.items if not has(a, x)]
            if inplace and not a.frozen:
                a.items[:] = items
                return a
            return ASet(items, frozen=a.frozen)
        if isinstance(a, (int, float)) and isinstance(b, (int, float)):
            if op is ast.BitXor:
                return a ^ b
        if op is ast.Add and (_ms.is_concrete(a) and _ms.is_concrete(b)):
            raise self.exc("TypeError", f"unsupported operand type(s) for +: '{type(a).__name__}' and '{type(b).__name__}'")
        if op is ast.Mult and _ms.is_concrete(a) and _ms.is_concrete(b):
            try:
                return a * b
            except TypeError as e:
                raise self.exc("TypeError", str(e))
        raise self.unsupported(f"binary {op.__name__} on {a!r} and {b!r}")

    def _e_Subscript(self, node: ast.Subscript, env: Env) -> Any:
        base = self.eval(node.value, env)
        if isinstance(base, (ExtRef, ClassInfo, MsgClass)) and not (isinstance(base, ClassInfo) and base.is_enum):
            # generic alias: typing only, the parameters are irrelevant at run time
            return base
        if isinstance(node.slice, ast.Slice):
            lo = self.eval(node.slice.lower, env) if node.slice.lower else None
            hi = self.eval(node.slice.upper, env) if node.slice.upper else None
            st = self.eval(node.slice.step, env) if node.slice.step else None
            return self.models.getslice(self, base, lo, hi, st)
        return self.models.getitem(self, base, self.eval(node.slice, env))

    def _e_Slice(self, node: ast.Slice, env: Env) -> Any:
        lo = self.eval(node.lower, env) if node.lower else None
        hi = self.eval(node.upper, env) if node.upper else None
        st = self.eval(node.step, env) if node.step else None
        if not all(x is None or (isinstance(x, int) and not isinstance(x, bool)) for x in (lo, hi, st)):
            raise self.unsupported("slice with non-constant bounds")
        return slice(lo, hi, st)

    def _e_Starred(self, node: ast.Starred, env: Env) -> Any:
        raise self.unsupported("starred expression outside call/display")

    def _e_Call(self, node: ast.Call, env: Env) -> Any:
        fn = self.eval(node.func, env)
        args: list = []
        for a in node.args:
            if isinstance(a, ast.Starred):
                args.extend(self.unpack_values(self.eval(a.value, env)))
            else:
                args.append(self.eval(a, env))
        kwargs: dict[str, Any] = {}
        for kw in node.keywords:
            if kw.arg is None:
                d = self.eval(kw.value, env)
                if not isinstance(d, ADict):
                    raise self.unsupported("** of a non-dict")
                for k, v in d.pairs:
                    if not isinstance(k, str):
                        raise self.unsupported("** with non-constant key")
                    kwargs[k] = v
            else:
                kwargs[kw.arg] = self.eval(kw.value, env)
        # zero-argument super()
        if isinstance(fn, ExtRef) and fn.name == "builtins.super" and not args:
            e: Env | None = env
            while e is not None and e.cls is None:
                e = e.parent
            if e is None or env.func is None:
                raise self.unsupported("super() outside a method")
            fnode = env.func.node
            first = (fnode.args.posonlyargs + fnode.args.args)[0].arg  # type: ignore[attr-defined]
            return SuperProxy(e.cls, env.vars[first])
        saved = self.site
        try:
            return self.call(fn, args, kwargs)
        finally:
            self.site = saved

    def _comp_env(self, env: Env, name: str) -> Env:
        info = FunctionInfo(name, (env.func.qualname + ".<locals>." if env.func else "") + name, env.module, None, name == "<genexpr>", env.cls)  # type: ignore[arg-type]
        return Env({}, env, env.module, info, env.cls)

    def _comp_iter(self, gens: list[ast.comprehension], env: Env, first_iter: Any = MISSING) -> Iterator[None]:
        def rec(i: int) -> Iterator[None]:
            if i == len(gens):
                yield None
                return
            g = gens[i]
            if g.is_async:
                raise self.unsupported("async comprehension")
            src = first_iter if (i == 0 and first_iter is not MISSING) else self.get_iter(self.eval(g.iter, env))
            while True:
                ok, item = self.next_value(src)
                if not ok:
                    break
                self.assign(g.target, item, env)
                if all(self.truth(self.eval(c, env), "comp-if") for c in g.ifs):
                    yield from rec(i + 1)

        return rec(0)

    def _e_ListComp(self, node: ast.ListComp, env: Env) -> Any:
        cenv = self._comp_env(env, "<listcomp>")
        out = []
        for _ in self._comp_iter(node.generators, cenv):
            out.append(self.eval(node.elt, cenv))
        return AList(out)

    def _e_SetComp(self, node: ast.SetComp, env: Env) -> Any:
        cenv = self._comp_env(env, "<listcomp>")
        out: list = []
        for _ in self._comp_iter(node.generators, cenv):
            v = self.eval(node.elt, cenv)
            if not any(self.eq(v, o) is True for o in out):
                out.append(v)
        return ASet(out)

    def _e_DictComp(self, node: ast.DictComp, env: Env) -> Any:
        cenv = self._comp_env(env, "<listcomp>")
        d = ADict([])
        d.shared = self.init_depth > 0
        for _ in self._comp_iter(node.generators, cenv):
            self.models.dict_set(self, d, self.eval(node.key, cenv), self.eval(node.value, cenv), quiet=True)
        return d

    def _e_GeneratorExp(self, node: ast.GeneratorExp, env: Env) -> Any:
        cenv = self._comp_env(env, "<genexpr>")
        # the outermost iterable is evaluated eagerly, as in CPython
        first = self.get_iter(self.eval(node.generators[0].iter, env))
        gen = GenObj(None, cenv.func.qualname)  # type: ignore[union-attr]

        def host() -> Iterator[Any]:
            for _ in self._comp_iter(node.generators, cenv, first):
                v = self.eval(node.elt, cenv)
                self.emit("yield", value=v, func=cenv.func.qualname)  # type: ignore[union-attr]
                yield v

        gen.host = host()
        return gen


def _contains_yield(fn: ast.FunctionDef) -> bool:
    stack: list[ast.AST] = list(fn.body)
    while stack:
        n = stack.pop()
        if isinstance(n, (ast.Yield, ast.YieldFrom)):
            return True
        if isinstance(n, (ast.FunctionDef, ast.AsyncFunctionDef, ast.Lambda, ast.ClassDef)):
            continue
        stack.extend(ast.iter_child_nodes(n))
    return False


def _in_tail(cand: Any, seq: list) -> bool:
    return any((x is cand) or (x == cand and isinstance(x, ExtRef)) for x in seq[1:])


def _live_iter(lst: AList) -> Iterator[Any]:
    i = 0
    while i < len(lst.items):
        yield lst.items[i]
        i += 1


def _key(v: Any) -> Any:
    if isinstance(v, Unknown):
        return v.key
    if isinstance(v, (int, str, bytes, SStr, type(None), float)):
        return v
    if isinstance(v, tuple):
        return tuple(_key(x) for x in v)
    if isinstance(v, (Obj, ExtObj, AList, ADict, Msg, GenObj, ASet)):
        return ("uid", v.uid)
    return repr(v)


def _sstr_nonempty(s: SStr) -> bool | None:
    known: bool | None = False
    for p in s.parts:
        if isinstance(p, str) or (isinstance(p, Atom) and p.nonempty is True):
            return True
        if isinstance(p, Atom) and p.nonempty is None:
            known = None
    return known


def _is_typeish(v: Any) -> bool:
    return v is None or isinstance(v, (ExtRef, ClassInfo, MsgClass, EnumTypeRef)) or (isinstance(v, str))


# ---------------------------------------------------------------------------- path exploration


def next_vector(decisions: list[int], arity: list[int]) -> list[int] | None:
    d = list(decisions[: len(arity)])
    while d:
        if d[-1] + 1 < arity[len(d) - 1]:
            d[-1] += 1
            return d
        d.pop()
    return None


def explore(program: Program, scenario: Callable[[Interp], Any], *, max_paths: int = 20_000, generic_strings: bool = False, max_steps: int = MAX_STEPS, tunable_scale: int | None = None):
    """Enumerate every decision vector of ``scenario`` by deterministic re-execution.

    Yields (interp, outcome) with outcome = ('ok', value) | ('raise', PyRaise)."""
    vec: list[int] | None = []
    n = 0
    while vec is not None:
        n += 1
        if n > max_paths:
            raise BudgetExceeded(f"path budget {max_paths} exhausted")
        it = Interp(program, vec, generic_strings=generic_strings, max_steps=max_steps, tunable_scale=tunable_scale)
        try:
            val = scenario(it)
            outcome: tuple = ("ok", val)
        except PyRaise as pr:
            outcome = ("raise", pr)
        yield it, outcome
        vec = next_vector(it.decisions, it.arity)
