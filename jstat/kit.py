"""Scenario kit: builds abstract inputs for the analysed entry points and inspects results."""
from __future__ import annotations

from typing import Any, Callable

from . import models
from .errors import AnalysisError
from .interp import Interp
from .values import ADict, AIter, AList, Atom, ExtObj, GenObj, Msg, Obj, SStr, SymIter, sstr

GS = "pyjelly.integrations.generic.serialize"
GP = "pyjelly.integrations.generic.parse"
GK = "pyjelly.integrations.generic.generic_sink"
RS = "pyjelly.integrations.rdflib.serialize"
RP = "pyjelly.integrations.rdflib.parse"
ST = "pyjelly.serialize.streams"
FL = "pyjelly.serialize.flows"
EN = "pyjelly.serialize.encode"
LK = "pyjelly.serialize.lookup"
OP = "pyjelly.options"
DE = "pyjelly.parse.decode"
PL = "pyjelly.parse.lookup"
IO = "pyjelly.parse.ioutils"
SIO = "pyjelly.serialize.ioutils"

XSD_STRING = "http://www.w3.org/2001/XMLSchema#string"


class Kit:
    def __init__(self, it: Interp):
        self.it = it
        self.c = it.schema.constants()

    # -- access
    def ns(self, module: str) -> dict:
        return self.it.module_ns(module)

    def get(self, module: str, name: str) -> Any:
        ns = self.ns(module)
        if name not in ns:
            raise AnalysisError(f"anchor vanished: {module}.{name}")
        return ns[name]

    def call(self, fn: Any, *args: Any, **kwargs: Any) -> Any:
        return self.it.call(fn, list(args), kwargs)

    def new(self, module: str, name: str, *args: Any, **kwargs: Any) -> Any:
        return self.call(self.get(module, name), *args, **kwargs)

    def method(self, obj: Any, name: str, *args: Any, **kwargs: Any) -> Any:
        return self.call(self.it.getattr(obj, name), *args, **kwargs)

    def attr(self, obj: Any, path: str) -> Any:
        for p in path.split("."):
            obj = self.it.getattr(obj, p)
        return obj

    # -- symbolic strings
    @staticmethod
    def iri_str(tag: str, shape: str = "hash") -> Any:
        # fully structured atoms: rpartition on '#' or '/' is decidable whatever order the code tries them in
        if shape == "hash":
            return sstr(Atom(tag + ".scheme", nosep=True), "/", Atom(tag + ".path", nosep=True), "#", Atom(tag + ".local", nosep=True))
        if shape == "slash":
            return sstr(Atom(tag + ".scheme", nosep=True), "/", Atom(tag + ".path", nosep=True), "/", Atom(tag + ".local", nosep=True))
        if shape == "nosep":
            return sstr(Atom(tag + ".whole", nosep=True))
        if shape == "opaque":
            return sstr(Atom(tag + ".iri", nosep=False))
        raise ValueError(shape)

    @staticmethod
    def text(tag: str, nonempty: bool | None = True) -> Any:
        return sstr(Atom(tag, nonempty=nonempty))

    # -- generic terms
    def g_iri(self, tag: str, shape: str = "hash") -> Obj:
        return self.new(GK, "IRI", self.iri_str(tag, shape))

    def g_bnode(self, tag: str) -> Obj:
        return self.new(GK, "BlankNode", self.text(tag + ".id"))

    def g_lit(self, tag: str, kind: str = "plain") -> Obj:
        lex = self.text(tag + ".lex")
        if kind == "plain":
            return self.new(GK, "Literal", lex)
        if kind == "lang":
            return self.new(GK, "Literal", lex, self.text(tag + ".lang"), None)
        if kind == "typed":
            return self.new(GK, "Literal", lex, None, self.text(tag + ".dt"))
        if kind == "xsdstring":
            return self.new(GK, "Literal", lex, None, XSD_STRING)
        raise ValueError(kind)

    def g_triple(self, s: Any, p: Any, o: Any) -> Obj:
        return self.new(GK, "Triple", s, p, o)

    def g_quad(self, s: Any, p: Any, o: Any, g: Any) -> Obj:
        return self.new(GK, "Quad", s, p, o, g)

    def g_default_graph(self) -> Any:
        return self.get(GK, "DefaultGraph")

    def g_sink(self, statements: list, namespaces: list | None = None, identifier: Any = None) -> Obj:
        sink = self.new(GK, "GenericStatementSink") if identifier is None else self.new(GK, "GenericStatementSink", identifier)
        for st in statements:
            self.method(sink, "add", st)
        for prefix, ns in namespaces or []:
            self.method(sink, "bind", prefix, ns)
        return sink

    def generator(self, items: list, label: str = "input", on_pull: Any = None) -> GenObj:
        """A generator object yielding the given items (what callers pass as 'Generator[...]')."""
        it = self.it

        def host():
            for i, x in enumerate(items):
                it.emit("pull", label=label, index=i, got=True)
                if on_pull is not None:
                    on_pull(i, True)
                yield x
            it.emit("pull", label=label, index=len(items), got=False)
            if on_pull is not None:
                on_pull(len(items), False)

        return GenObj(host(), label)

    # -- options / streams
    def preset(self, names: int = 8, prefixes: int = 8, datatypes: int = 8) -> Obj:
        return self.new(OP, "LookupPreset", max_names=names, max_prefixes=prefixes, max_datatypes=datatypes)

    def params(self, **kw: Any) -> Obj:
        return self.new(OP, "StreamParameters", **kw)

    def options(self, **kw: Any) -> Obj:
        return self.new(ST, "SerializerOptions", **kw)

    def flow(self, cls: str, **kw: Any) -> Obj:
        return self.new(FL, cls, **kw)

    def generic_encoder(self, preset: Any = None) -> Obj:
        return self.new(GS, "GenericSinkTermEncoder", lookup_preset=preset)

    def stream(self, cls: str, encoder: Any, options: Any = None) -> Obj:
        return self.new(ST, cls, encoder=encoder, options=options)

    # -- I/O
    def input_stream(self, frames: list | Any, delimited: bool = True, **kw: Any) -> ExtObj:
        src = AIter(iter(frames), "frames") if isinstance(frames, list) else frames
        header = b"\x20\x0a\x05" if delimited else b"\x0a\x05\x0a"
        return models.make_input(src, header, **kw)

    def output(self) -> ExtObj:
        return models.make_output()

    # -- inspection
    def flow_len(self, stream: Obj) -> int:
        flow = stream.attrs["flow"]
        return len(flow.attrs["data"].items)

    @staticmethod
    def rows_of(frame: Msg) -> list[Msg]:
        r = frame.fields.get("rows")
        return list(r.items) if isinstance(r, AList) else []

    @staticmethod
    def row_kind(row: Msg) -> str | None:
        for k in row.present:
            return k
        return None

    def written_frames(self, out: ExtObj) -> list[tuple[str, Msg]]:
        res = []
        for mode, data in out.attrs["writes"]:
            if mode == "delimited":
                res.append(("delimited", data))
            elif isinstance(data, ExtObj) and data.kind == "bytes:frame":
                res.append(("delimited" if data.attrs.get("length_prefixed") else "single", data.attrs["msg"]))
            else:
                res.append(("raw", data))
        return res


# ----------------------------------------------------------------------------- hand-built wire messages


class Wire:
    """Builds abstract protobuf messages directly from the descriptor (a foreign producer)."""

    def __init__(self, it: Interp):
        self.it = it

    def msg(self, mtype: str, **kw: Any) -> Msg:
        return models.new_msg(self.it, mtype, [], kw)

    def options_row(self, physical: int, logical: int, names: int = 8, prefixes: int = 8, datatypes: int = 8, version: int = 1, **kw: Any) -> Msg:
        o = self.msg(
            "RdfStreamOptions",
            physical_type=physical,
            logical_type=logical,
            max_name_table_size=names,
            max_prefix_table_size=prefixes,
            max_datatype_table_size=datatypes,
            version=version,
            **kw,
        )
        return self.msg("RdfStreamRow", options=o)

    def bnode_triple(self, tag: str, mtype: str = "RdfTriple", **extra: Any) -> Msg:
        return self.msg(mtype, s_bnode=sstr(Atom(tag + ".s")), p_bnode=sstr(Atom(tag + ".p")), o_bnode=sstr(Atom(tag + ".o")), **extra)

    def statement_rows(self, physical: int, n: int = 1, tag: str = "t") -> list[Msg]:
        rows: list[Msg] = []
        if physical == 1:
            for i in range(n):
                rows.append(self.msg("RdfStreamRow", triple=self.bnode_triple(f"{tag}{i}")))
        elif physical == 2:
            for i in range(n):
                rows.append(self.msg("RdfStreamRow", quad=self.bnode_triple(f"{tag}{i}", "RdfQuad", g_bnode=sstr(Atom(f"{tag}{i}.g")))))
        elif physical == 3:
            rows.append(self.msg("RdfStreamRow", graph_start=self.msg("RdfGraphStart", g_bnode=sstr(Atom(f"{tag}.g")))))
            for i in range(n):
                rows.append(self.msg("RdfStreamRow", triple=self.bnode_triple(f"{tag}{i}")))
            rows.append(self.msg("RdfStreamRow", graph_end=self.msg("RdfGraphEnd")))
        return rows

    def frame(self, rows: list[Msg], metadata: Any = None) -> Msg:
        f = self.msg("RdfStreamFrame", rows=AList(list(rows)))
        if metadata is not None:
            f.fields["metadata"] = metadata
        return f
