"""Models of the rdflib API surface pyjelly touches (filled in below)."""
from __future__ import annotations

from typing import Any

from .interp import MISSING


def call(interp, name, args, kwargs):
    return MISSING


def constant(interp, full):
    return MISSING


def str_of(interp, v):
    return MISSING


def len_of(interp, v):
    return MISSING
