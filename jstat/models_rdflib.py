"""Models of the rdflib API surface pyjelly touches.

Trusted facts (each is a statement about rdflib 7, not about pyjelly):
* URIRef / BNode are str subclasses; their constructors are idempotent; str(term) is the raw string;
  terms of different classes never compare equal.
* Literal(lex, lang=, datatype=) stores the three components; str(literal) is the lexical form;
  .language / .datatype return them (datatype as URIRef or None).  Lexical normalisation by rdflib
  is not modelled (C02 says so).
* Graph: ordered set of triples with an identifier; iteration yields its triples; namespaces()
  yields (prefix, URIRef) pairs in binding order; bind() adds/replaces.
* Dataset is a Graph subclass; get_context(id) returns the context with that identifier, creating
  and registering it on first use; graphs() yields registered contexts in registration order and the
  default graph last if it was never registered; quads() yields (s, p, o, context identifier);
  add((s,p,o,ctx)) adds to that context.  Real store iteration order is unspecified; the model's
  order is one legal order.
"""
from __future__ import annotations

from typing import Any

from .interp import MISSING
from .values import ADict, AIter, AList, Atom, ClassInfo, ExtMethod, ExtObj, ExtRef, Obj, SStr, Unknown, fresh_unknown, is_strlike, sstr

DEFAULT_GRAPH_IRI = "urn:x-rdflib:default"
TERM_KINDS = ("rdflib.URIRef", "rdflib.BNode", "rdflib.Literal")
GRAPH_KINDS = ("rdflib.Graph", "rdflib.Dataset")

_SUBCLASS = {
    "rdflib.URIRef": {"rdflib.URIRef", "rdflib.Node", "rdflib.term.Identifier", "rdflib.IdentifiedNode", "builtins.str"},
    "rdflib.BNode": {"rdflib.BNode", "rdflib.Node", "rdflib.term.Identifier", "rdflib.IdentifiedNode", "builtins.str"},
    "rdflib.Literal": {"rdflib.Literal", "rdflib.Node", "rdflib.term.Identifier", "builtins.str"},
    "rdflib.Graph": {"rdflib.Graph", "rdflib.Node"},
    "rdflib.Dataset": {"rdflib.Dataset", "rdflib.ConjunctiveGraph", "rdflib.Graph", "rdflib.Node"},
    "rdflib.QuotedGraph": {"rdflib.QuotedGraph", "rdflib.Graph", "rdflib.Node"},
}


def uri(value: Any) -> ExtObj:
    return ExtObj("rdflib.URIRef", {"value": value})


def bnode(value: Any) -> ExtObj:
    return ExtObj("rdflib.BNode", {"value": value})


def literal(lex: Any, language: Any = None, datatype: Any = None) -> ExtObj:
    return ExtObj("rdflib.Literal", {"lex": lex, "language": language, "datatype": datatype})


def new_graph(interp, identifier: Any = None, store: Any = None) -> ExtObj:
    if store is None or not isinstance(store, ExtObj):
        store = ExtObj("rdflib.Store", {"graphs": [], "all": []})
    store.attrs.setdefault("all", [])
    if identifier is None:
        identifier = bnode(sstr(Atom(f"auto-graph-id", nosep=True)))
    # one context per (store, identifier): Graph objects over the same store and identifier share their triples
    for g in store.attrs["all"]:
        if interp.truth(interp.eq(g.attrs["identifier"], identifier), "graph-id"):
            return ExtObj("rdflib.Graph", {"identifier": identifier, "store": store, "data": g.attrs["data"], "ns": store.attrs.setdefault("ns", AList([]))})
    g = ExtObj("rdflib.Graph", {"identifier": identifier, "store": store, "data": AList([]), "ns": store.attrs.setdefault("ns", AList([]))})
    store.attrs["all"].append(g)
    return g


def _register(store: ExtObj, g: ExtObj) -> None:
    if not any(x.attrs["data"] is g.attrs["data"] for x in store.attrs["graphs"]):
        store.attrs["graphs"].append(g)


def new_dataset(interp, store: Any = None) -> ExtObj:
    if store is None or not isinstance(store, ExtObj):
        store = ExtObj("rdflib.Store", {"graphs": [], "all": []})
    default = new_graph(interp, uri(DEFAULT_GRAPH_IRI), store)
    return ExtObj("rdflib.Dataset", {"identifier": uri(DEFAULT_GRAPH_IRI), "store": store, "default": default, "ns": store.attrs.setdefault("ns", AList([])), "data": default.attrs["data"]})


def _to_strval(interp, x: Any) -> Any:
    if isinstance(x, ExtObj) and x.kind in ("rdflib.URIRef", "rdflib.BNode"):
        return x.attrs["value"]
    if isinstance(x, ExtObj) and x.kind == "rdflib.Literal":
        return x.attrs["lex"]
    if is_strlike(x):
        return x
    if isinstance(x, Unknown):
        return sstr(Atom(f"str({x.hint or x.key})", nonempty=None))
    return interp.models.to_str(interp, x)


def call(interp, name: str, args: list, kwargs: dict) -> Any:
    if name == "rdflib.URIRef":
        interp.emit("rdflib_ctor", cls="URIRef", arg=args[0] if args else None)
        return uri(_to_strval(interp, args[0] if args else kwargs.get("value", "")))
    if name == "rdflib.BNode":
        interp.emit("rdflib_ctor", cls="BNode", arg=args[0] if args else None)
        if not args or args[0] is None:
            return bnode(sstr(Atom("fresh-bnode", nosep=True)))
        return bnode(_to_strval(interp, args[0]))
    if name == "rdflib.Literal":
        lex = args[0] if args else kwargs.get("lexical_or_value")
        lang = kwargs.get("lang", args[1] if len(args) > 1 else None)
        dt = kwargs.get("datatype", args[2] if len(args) > 2 else None)
        interp.emit("rdflib_ctor", cls="Literal", arg=lex)
        if lang is not None and dt is not None and interp.truth(lang, "lit-lang") and interp.truth(dt, "lit-dt"):
            raise interp.exc("TypeError", "A Literal can only have one of lang or datatype")
        if dt is not None and not (isinstance(dt, ExtObj) and dt.kind == "rdflib.URIRef"):
            dt = uri(_to_strval(interp, dt))
        if isinstance(lex, ExtObj) and lex.kind == "rdflib.Literal":
            if lang is None and dt is None:
                return literal(lex.attrs["lex"], lex.attrs["language"], lex.attrs["datatype"])
            lex = lex.attrs["lex"]
        if lang is not None and not interp.truth(lang, "lit-lang"):
            lang = None
        return literal(_to_strval(interp, lex) if not is_strlike(lex) else lex, lang, dt)
    if name == "rdflib.Graph":
        interp.emit("rdflib_ctor", cls="Graph")
        return new_graph(interp, kwargs.get("identifier", args[1] if len(args) > 1 else None), kwargs.get("store", args[0] if args else None))
    if name == "rdflib.Dataset":
        interp.emit("rdflib_ctor", cls="Dataset")
        return new_dataset(interp, kwargs.get("store", args[0] if args else None))
    if name == "rdflib.QuotedGraph":
        return ExtObj("rdflib.QuotedGraph", {})
    return MISSING


def constant(interp, full: str) -> Any:
    if full == "rdflib.DATASET_DEFAULT_GRAPH_ID":
        return uri(DEFAULT_GRAPH_IRI)
    return MISSING


def hash_of(interp, v: ExtObj) -> Any:
    """Equal terms hash equally (rdflib hashes the type name with the text; literals with the lower-cased tag)."""
    from .freeze import freeze

    if v.kind == "rdflib.Literal":
        lang = v.attrs["language"]
        return Unknown(("rdflib-hash", "Literal", repr(freeze(v.attrs["lex"])), lang.lower() if isinstance(lang, str) else repr(freeze(lang)), repr(freeze(v.attrs["datatype"]))), "hash(Literal)")
    if v.kind in ("rdflib.URIRef", "rdflib.BNode"):
        return Unknown(("rdflib-hash", v.kind, repr(freeze(v.attrs["value"]))), f"hash({v.kind})")
    return MISSING


def str_of(interp, v: ExtObj) -> Any:
    if v.kind in ("rdflib.URIRef", "rdflib.BNode"):
        return v.attrs["value"]
    if v.kind == "rdflib.Literal":
        return v.attrs["lex"]
    return MISSING


def len_of(interp, v: ExtObj) -> Any:
    if v.kind == "rdflib.Graph":
        return len(v.attrs["data"].items)
    if v.kind == "rdflib.Dataset":
        return sum(len(g.attrs["data"].items) for g in _contexts(interp, v))
    if v.kind in TERM_KINDS:
        text = str_of(interp, v)
        if isinstance(text, str):
            return len(text)
        return Unknown(("len", v.uid), "len(term)")
    return MISSING


def truth(interp, v: ExtObj, tag: str) -> bool:
    if v.kind == "rdflib.Literal" and v.attrs["datatype"] is not None:
        # rdflib.term.Literal.__bool__: the truth of the *value* when the datatype maps to a Python value
        # ("0"^^xsd:integer and "false"^^xsd:boolean are falsy), else non-emptiness of the lexical form
        lex, dt = v.attrs["lex"], v.attrs["datatype"].attrs["value"] if isinstance(v.attrs["datatype"], ExtObj) else v.attrs["datatype"]
        if isinstance(lex, str) and isinstance(dt, str):
            try:
                import rdflib as _rdflib  # the installed library decides concrete cases

                return bool(_rdflib.Literal(lex, datatype=_rdflib.URIRef(dt)))
            except ImportError:
                pass
        return interp.decide(("rdflib-literal-truth", v.uid), f"{tag}:bool(typed literal)")
    if v.kind in TERM_KINDS:
        return interp.truth(str_of(interp, v), tag)
    if v.kind in GRAPH_KINDS:
        return interp.truth(len_of(interp, v), tag)
    return True


def eq(interp, a: Any, b: Any) -> Any:
    ka = a.kind if isinstance(a, ExtObj) else None
    kb = b.kind if isinstance(b, ExtObj) else None
    if ka in TERM_KINDS or kb in TERM_KINDS:
        if ka != kb:
            return False
        if ka == "rdflib.Literal":
            r1 = interp.eq(a.attrs["lex"], b.attrs["lex"])
            if r1 is False:
                return False
            la, lb = a.attrs["language"], b.attrs["language"]
            if isinstance(la, str) and isinstance(lb, str):
                la, lb = la.lower(), lb.lower()  # rdflib.term.Literal.__eq__/__hash__ compare language tags lower-cased
            r2 = interp.eq(la, lb)
            if r2 is False:
                return False
            r3 = interp.eq(a.attrs["datatype"], b.attrs["datatype"])
            if r3 is False:
                return False
            for r in (r1, r2, r3):
                if r is not True and not interp.truth(r, "lit-eq"):
                    return False
            return True
        return interp.eq(a.attrs["value"], b.attrs["value"])
    if ka in GRAPH_KINDS and kb in GRAPH_KINDS:
        return a.attrs["data"] is b.attrs["data"]
    return a is b


def isinstance_(interp, v: Any, n: str) -> Any:
    if isinstance(v, ExtObj) and v.kind in _SUBCLASS:
        return n in _SUBCLASS[v.kind]
    if isinstance(v, Obj):
        return any(isinstance(c, ExtRef) and c.name == n for c in v.cls.mro)
    return False


def _ns_bind(interp, o: ExtObj, prefix: Any, ns: Any, override: bool, replace: bool) -> None:
    """rdflib.namespace.NamespaceManager.bind over rdflib.plugins.stores.memory.Memory.bind (rdflib 7): the store keeps
    two dicts, prefix -> namespace (insertion ordered: what namespaces() iterates) and namespace -> prefix."""
    nsv = ns if (isinstance(ns, ExtObj) and ns.kind == "rdflib.URIRef") else uri(_to_strval(interp, ns))
    if prefix is None:
        prefix = ""
    by_prefix = o.attrs["ns"].items  # [(prefix, namespace)]
    store = o.attrs["store"]
    by_ns = store.attrs.setdefault("ns_inv", AList([])).items  # [(namespace, prefix)]

    def same(a: Any, b: Any, tag: str) -> bool:
        return interp.truth(interp.eq(a, b), tag)

    def get(lst: list, key: Any, tag: str) -> Any:
        for k_, v_ in lst:
            if same(k_, key, tag):
                return v_
        return None

    def put(lst: list, key: Any, val: Any, tag: str) -> None:
        for i, (k_, _v) in enumerate(lst):
            if same(k_, key, tag):
                lst[i] = (k_, val)
                return
        lst.append((key, val))

    def drop(lst: list, key: Any, tag: str) -> None:
        for i, (k_, _v) in enumerate(lst):
            if same(k_, key, tag):
                del lst[i]
                return

    def store_bind(pfx: Any, namespace: Any) -> None:
        bound_namespace = get(by_prefix, pfx, "bind-prefix")
        bound_prefix = get(by_ns, namespace, "bind-ns")
        if bound_prefix is None and bound_namespace is not None:
            bound_prefix = get(by_ns, bound_namespace, "bind-ns")
        if override:
            if bound_prefix is not None:
                drop(by_prefix, bound_prefix, "bind-prefix")
            if bound_namespace is not None:
                drop(by_ns, bound_namespace, "bind-ns")
            put(by_ns, namespace, pfx, "bind-ns")
            put(by_prefix, pfx, namespace, "bind-prefix")
        else:
            put(by_ns, bound_namespace if bound_namespace is not None else namespace, bound_prefix if bound_prefix is not None else pfx, "bind-ns")
            put(by_prefix, bound_prefix if bound_prefix is not None else pfx, bound_namespace if bound_namespace is not None else namespace, "bind-prefix")

    bound_namespace = get(by_prefix, prefix, "bind-prefix")
    if bound_namespace is not None and not same(bound_namespace, nsv, "bind-ns"):
        if replace:
            store_bind(prefix, nsv)
            return
        # the prefix is in use for another namespace: a numbered prefix is generated
        base = prefix if interp.truth(prefix, "bind-prefix-nonempty") else "default"
        if not isinstance(base, str):
            raise interp.unsupported("generated prefix for a symbolic prefix")
        num = 1
        while True:
            new_prefix = f"{base}{num}"
            t = get(by_prefix, new_prefix, "bind-prefix")
            if t is not None and same(t, nsv, "bind-ns"):
                return
            if t is None:
                break
            num += 1
        store_bind(new_prefix, nsv)
        return
    bound_prefix = get(by_ns, nsv, "bind-ns")
    if bound_prefix is None:
        store_bind(prefix, nsv)
    elif same(bound_prefix, prefix, "bind-prefix"):
        return
    elif override or (isinstance(bound_prefix, str) and bound_prefix.startswith("_")):
        store_bind(prefix, nsv)


def getattr_(interp, o: ExtObj, name: str) -> Any:
    k = o.kind
    if k == "rdflib.Literal":
        if name == "language":
            return o.attrs["language"]
        if name == "datatype":
            return o.attrs["datatype"]
        if name == "value":
            return o.attrs["lex"]
    if k in TERM_KINDS:
        if name in ("n3", "toPython", "__str__"):
            return ExtMethod(o, k, name)
        # rdflib terms are str subclasses: every str method that rdflib does not override works on the text
        if hasattr(str, name) and not name.startswith("__") and name not in ("format", "format_map"):
            return ExtMethod(str_of(interp, o), "str", name)
        try:
            import rdflib as _rdflib

            real = getattr(_rdflib, k.split(".")[1], None)
        except ImportError:
            real = None
        if real is None or hasattr(real, name):
            # the real class has this attribute (or cannot be consulted): a gap of the model, not an error of the program
            raise interp.unsupported(f"attribute {name} of {k} is not modelled")
        raise interp.exc("AttributeError", f"'{k}' object has no attribute '{name}'")
    if k in GRAPH_KINDS:
        if name == "identifier":
            return o.attrs["identifier"]
        if name == "store":
            return o.attrs["store"]
        if name in ("default_graph", "default_context") and k == "rdflib.Dataset":
            return o.attrs["default"]
        return ExtMethod(o, k, name)
    if k == "rdflib.Store":
        return ExtMethod(o, k, name)
    if k == "rdflib.InputSource":
        return ExtMethod(o, k, name)
    if name in o.attrs:
        return o.attrs[name]
    raise interp.exc("AttributeError", f"'{k}' object has no attribute '{name}'")


def _contexts(interp, ds: ExtObj) -> list[ExtObj]:
    store = ds.attrs["store"]
    out = list(store.attrs["graphs"])
    if not any(x.attrs["data"] is ds.attrs["default"].attrs["data"] for x in out):
        out.append(ds.attrs["default"])
    return out


def _add_triple(interp, g: ExtObj, t: Any) -> None:
    items = interp.unpack_values(t)
    if len(items) != 3:
        raise interp.exc("ValueError", f"Graph.add expects a triple, got {len(items)} items")
    tup = tuple(items)
    for x in g.attrs["data"].items:
        if interp.truth(interp.eq(x, tup), "graph-dedup"):
            return
    interp.emit("mutate", target=g.attrs["data"], op="graph.add", shared=g.shared and interp.init_depth == 0)
    g.attrs["data"].items.append(tup)
    _register(g.attrs["store"], g)


def method(interp, em: ExtMethod, args: list, kwargs: dict) -> Any:
    o, name, k = em.recv, em.name, em.kind
    if k.startswith("rdflib.plugin_init:"):
        return plugin_init(interp, em, args, kwargs)
    if k in TERM_KINDS:
        if name in ("toPython", "__str__"):
            return str_of(interp, o)
        if name == "n3":
            return sstr(Atom("n3", nonempty=True))
    if k in GRAPH_KINDS:
        if name == "namespaces":
            return AIter(iter(list(o.attrs["ns"].items)), "namespaces")
        if name == "bind":
            prefix, ns = args[0], args[1]
            override = kwargs.get("override", args[2] if len(args) > 2 else True)
            replace = kwargs.get("replace", args[3] if len(args) > 3 else False)
            interp.emit("bind", graph=o, prefix=prefix, ns=ns, override=override)
            _ns_bind(interp, o, prefix, ns, interp.truth(override, "bind-override"), interp.truth(replace, "bind-replace"))
            return None
        if name == "add":
            items = interp.unpack_values(args[0])
            if k == "rdflib.Dataset":
                if len(items) == 4:
                    ctx = items[3]
                    if isinstance(ctx, ExtObj) and ctx.kind in GRAPH_KINDS:
                        tgt = ctx
                    else:
                        tgt = _get_context(interp, o, ctx)
                    _add_triple(interp, tgt, tuple(items[:3]))
                    return o
                _add_triple(interp, o.attrs["default"], tuple(items))
                return o
            if len(items) != 3:
                raise interp.exc("ValueError", "Graph.add expects a triple")
            _add_triple(interp, o, tuple(items))
            return o
        if name in ("get_context", "graph") and k == "rdflib.Dataset":
            ident = args[0] if args else kwargs.get("identifier")
            return _get_context(interp, o, ident)
        if name in ("graphs", "contexts") and k == "rdflib.Dataset":
            return AIter(iter(_contexts(interp, o)), "graphs")
        if name == "quads" and k == "rdflib.Dataset":
            out = []
            for g in _contexts(interp, o):
                for (s, p, ob) in g.attrs["data"].items:
                    out.append((s, p, ob, g.attrs["identifier"]))
            return AIter(iter(out), "quads")
        if name == "triples":
            pat = interp.unpack_values(args[0]) if args else [None, None, None]
            if len(pat) != 3:
                raise interp.exc("ValueError", "triples() takes a (s, p, o) pattern")
            hits = []
            for t in o.attrs["data"].items if k != "rdflib.Dataset" else [t_ for g_ in _contexts(interp, o) for t_ in g_.attrs["data"].items]:
                if all(w is None or interp.truth(interp.eq(w, x), "triples-pattern") for w, x in zip(pat, t)):
                    hits.append(t)
            return AIter(iter(hits), "triples")
        if name == "__len__":
            return len_of(interp, o)
        if name == "__iter__":
            return iter_(interp, o)
        if name == "serialize" or name == "parse":
            raise interp.unsupported(f"rdflib plugin dispatch Graph.{name} (analyse the plugin class directly)")
    if k == "rdflib.InputSource" and name == "getByteStream":
        return o.attrs.get("stream")
    raise interp.unsupported(f"rdflib method {k}.{name}")


def _get_context(interp, ds: ExtObj, ident: Any) -> ExtObj:
    if isinstance(ident, ExtObj) and ident.kind in GRAPH_KINDS:
        ident = ident.attrs["identifier"]
    if is_strlike(ident):
        ident = uri(ident)
    if ident is None:
        ident = bnode(sstr(Atom("fresh-graph", nosep=True)))
    g = new_graph(interp, ident, ds.attrs["store"])
    _register(ds.attrs["store"], g)
    return g


def iter_(interp, v: ExtObj) -> Any:
    if v.kind == "rdflib.Graph":
        return AIter(iter(list(v.attrs["data"].items)), "graph")
    if v.kind == "rdflib.Dataset":
        return method(interp, ExtMethod(v, v.kind, "quads"), [], {})
    if v.kind in TERM_KINDS:
        return AIter(iter([fresh_unknown("char")]), "str")
    raise interp.unsupported(f"iteration over {v.kind}")


def getitem(interp, base: ExtObj, idx: Any) -> Any:
    raise interp.unsupported(f"subscript of {base.kind}")


def contains(interp, container: ExtObj, item: Any) -> Any:
    if container.kind == "rdflib.Graph":
        return any(interp.truth(interp.eq(x, item), "in-graph") for x in container.attrs["data"].items)
    raise interp.unsupported(f"membership in {container.kind}")


# -- repo classes deriving from rdflib classes (serializer / parser plugins)


def ext_init(interp, obj: Obj, owner: ExtRef, args: list, kwargs: dict) -> None:
    if owner.name == "rdflib.Serializer":
        obj.attrs["store"] = args[0] if args else kwargs.get("store")
        return
    if owner.name == "rdflib.Parser":
        return
    return


def ext_base_attr(interp, obj: Obj, eb: ExtRef, name: str) -> Any:
    if eb.name in ("rdflib.Serializer", "rdflib.Parser") and name == "__init__":
        return ExtMethod(obj, "rdflib.plugin_init:" + eb.name, "__init__")
    return MISSING


def plugin_init(interp, em: ExtMethod, args: list, kwargs: dict) -> None:
    if em.kind.endswith("rdflib.Serializer"):
        em.recv.attrs["store"] = args[0] if args else kwargs.get("store")
