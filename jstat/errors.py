class AnalysisError(Exception):
    """The analysis cannot decide (unsupported construct, vanished anchor, budget).

    Never a verdict: a check that hits it prints ANALYSIS-ERROR and exits 2.
    """


class BudgetExceeded(AnalysisError):
    pass
