"""Wire schema of Jelly, recovered statically from pyjelly/jelly/rdf_pb2.py.

The generated module is never imported.  The bytes literal handed to
``AddSerializedFile`` is located in the AST, read with ``ast.literal_eval`` and decoded
by a small FileDescriptorProto reader (only the parts of descriptor.proto that are needed).
"""
from __future__ import annotations

import ast
from dataclasses import dataclass, field
from pathlib import Path

from .errors import AnalysisError

# FieldDescriptorProto.Type
T_DOUBLE, T_FLOAT, T_INT64, T_UINT64, T_INT32, T_FIXED64, T_FIXED32, T_BOOL, T_STRING = range(1, 10)
T_GROUP, T_MESSAGE, T_BYTES, T_UINT32, T_ENUM = 10, 11, 12, 13, 14
LABEL_REPEATED = 3


def _varint(buf: bytes, pos: int) -> tuple[int, int]:
    shift = 0
    out = 0
    while True:
        b = buf[pos]
        pos += 1
        out |= (b & 0x7F) << shift
        if not b & 0x80:
            return out, pos
        shift += 7


def _fields(buf: bytes):
    pos = 0
    n = len(buf)
    while pos < n:
        key, pos = _varint(buf, pos)
        num, wt = key >> 3, key & 7
        if wt == 0:
            val, pos = _varint(buf, pos)
        elif wt == 2:
            ln, pos = _varint(buf, pos)
            val = buf[pos : pos + ln]
            pos += ln
        elif wt == 1:
            val = buf[pos : pos + 8]
            pos += 8
        elif wt == 5:
            val = buf[pos : pos + 4]
            pos += 4
        else:  # pragma: no cover
            raise AnalysisError(f"descriptor: unsupported wire type {wt}")
        yield num, wt, val


@dataclass
class FieldDesc:
    name: str
    number: int
    type: int
    label: int
    type_name: str | None  # short message / enum name
    oneof: str | None
    is_map: bool = False

    @property
    def repeated(self) -> bool:
        return self.label == LABEL_REPEATED

    @property
    def is_message(self) -> bool:
        return self.type == T_MESSAGE

    def default(self):
        if self.type == T_STRING:
            return ""
        if self.type == T_BYTES:
            return b""
        if self.type == T_BOOL:
            return False
        if self.type in (T_DOUBLE, T_FLOAT):
            return 0.0
        return 0

    @property
    def wire_type(self) -> int:
        if self.type in (T_STRING, T_BYTES, T_MESSAGE):
            return 2
        if self.type in (T_DOUBLE, T_FIXED64):
            return 1
        if self.type in (T_FLOAT, T_FIXED32):
            return 5
        return 0

    @property
    def tag_byte(self) -> int:
        return (self.number << 3) | self.wire_type


@dataclass
class MessageDesc:
    name: str
    fields: dict[str, FieldDesc] = field(default_factory=dict)
    oneofs: dict[str, list[str]] = field(default_factory=dict)
    nested: dict[str, "MessageDesc"] = field(default_factory=dict)
    map_entry: bool = False


@dataclass
class EnumDesc:
    name: str
    values: dict[str, int] = field(default_factory=dict)

    def name_of(self, number: int) -> str | None:
        for k, v in self.values.items():
            if v == number:
                return k
        return None


@dataclass
class Schema:
    package: str
    messages: dict[str, MessageDesc]
    enums: dict[str, EnumDesc]
    source: str

    def constants(self) -> dict[str, int]:
        out: dict[str, int] = {}
        for e in self.enums.values():
            out.update(e.values)
        return out


def _parse_field(buf: bytes, oneof_names: list[str]) -> FieldDesc:
    name = ""
    number = 0
    typ = 0
    label = 1
    type_name = None
    oneof = None
    for num, _wt, val in _fields(buf):
        if num == 1:
            name = val.decode()
        elif num == 3:
            number = val
        elif num == 4:
            label = val
        elif num == 5:
            typ = val
        elif num == 6:
            type_name = val.decode().rsplit(".", 1)[-1]
        elif num == 9:
            oneof = val  # index, resolved by the caller
    return FieldDesc(name, number, typ, label, type_name, oneof)  # type: ignore[arg-type]


def _parse_message(buf: bytes) -> MessageDesc:
    name = ""
    raw_fields: list[bytes] = []
    oneof_names: list[str] = []
    nested: list[MessageDesc] = []
    map_entry = False
    for num, _wt, val in _fields(buf):
        if num == 1:
            name = val.decode()
        elif num == 2:
            raw_fields.append(val)
        elif num == 3:
            nested.append(_parse_message(val))
        elif num == 8:
            for n2, _w2, v2 in _fields(val):
                if n2 == 1:
                    oneof_names.append(v2.decode())
        elif num == 7:
            for n2, _w2, v2 in _fields(val):
                if n2 == 7 and v2:
                    map_entry = True
    md = MessageDesc(name, map_entry=map_entry)
    for n in oneof_names:
        md.oneofs[n] = []
    for m in nested:
        md.nested[m.name] = m
    for rf in raw_fields:
        fd = _parse_field(rf, oneof_names)
        if fd.oneof is not None:
            oname = oneof_names[fd.oneof]  # type: ignore[index]
            fd.oneof = oname
            md.oneofs[oname].append(fd.name)
        if fd.is_message and fd.type_name in md.nested and md.nested[fd.type_name].map_entry:
            fd.is_map = True
        md.fields[fd.name] = fd
    return md


def _parse_enum(buf: bytes) -> EnumDesc:
    ed = EnumDesc("")
    for num, _wt, val in _fields(buf):
        if num == 1:
            ed.name = val.decode()
        elif num == 2:
            vname = ""
            vnum = 0
            for n2, _w2, v2 in _fields(val):
                if n2 == 1:
                    vname = v2.decode()
                elif n2 == 2:
                    vnum = v2
            ed.values[vname] = vnum
    return ed


def descriptor_bytes(pb2_path: Path) -> bytes:
    tree = ast.parse(pb2_path.read_text(), filename=str(pb2_path))
    for node in ast.walk(tree):
        if (
            isinstance(node, ast.Call)
            and isinstance(node.func, ast.Attribute)
            and node.func.attr == "AddSerializedFile"
            and node.args
            and isinstance(node.args[0], ast.Constant)
            and isinstance(node.args[0].value, bytes)
        ):
            return node.args[0].value
    raise AnalysisError(f"no AddSerializedFile(b'...') call found in {pb2_path}")


def load_schema(repo: Path) -> Schema:
    pb2 = repo / "pyjelly" / "jelly" / "rdf_pb2.py"
    if not pb2.exists():
        raise AnalysisError(f"anchor vanished: {pb2}")
    raw = descriptor_bytes(pb2)
    package = ""
    messages: dict[str, MessageDesc] = {}
    enums: dict[str, EnumDesc] = {}
    for num, _wt, val in _fields(raw):
        if num == 2:
            package = val.decode()
        elif num == 4:
            m = _parse_message(val)
            messages[m.name] = m
        elif num == 5:
            e = _parse_enum(val)
            enums[e.name] = e
    if len(messages) < 10 or len(enums) < 2:
        raise AnalysisError("descriptor decoded to an implausibly small schema")
    return Schema(package, messages, enums, str(pb2))
