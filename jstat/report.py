"""Check protocol: obligations, violations, known findings, evidence, exit codes."""
from __future__ import annotations

import json
import os
import re
import sys
import time
import traceback
from dataclasses import dataclass, field
from pathlib import Path
from typing import Any, Callable

from .errors import AnalysisError

VERIF = Path(__file__).resolve().parent.parent
KNOWN_FILE = VERIF / "known_findings.txt"
EVIDENCE_DIR = Path(os.environ.get("JSTAT_EVIDENCE_DIR", VERIF / "evidence"))
REPLAY_DIR = Path(os.environ.get("JSTAT_REPLAY_DIR", VERIF / "replay"))


def plain(v: Any, depth: int = 0) -> Any:
    """JSON-able rendering of abstract values for evidence / replay files."""
    if depth > 6:
        return "…"
    if v is None or isinstance(v, (bool, int, float, str)):
        return v
    if isinstance(v, bytes):
        return v.hex()
    if isinstance(v, dict):
        return {str(k): plain(x, depth + 1) for k, x in v.items()}
    if isinstance(v, (list, tuple, set, frozenset)):
        return [plain(x, depth + 1) for x in v]
    return repr(v)


@dataclass
class KnownFinding:
    property_id: str
    rule: str
    construct: str
    text: str


def load_known() -> tuple[list[KnownFinding], list[str]]:
    known: list[KnownFinding] = []
    fixed: list[str] = []
    if not KNOWN_FILE.exists():
        return known, fixed
    for line in KNOWN_FILE.read_text().splitlines():
        line = line.strip()
        if not line or line.startswith("#"):
            continue
        if line.startswith("fixed:"):
            fixed.append(line)
            continue
        m = re.match(r"known:\s+property=(\S+)\s+rule=(\S+)\s+construct=(\S+)\s+(.*)$", line)
        if not m:
            raise AnalysisError(f"malformed line in {KNOWN_FILE}: {line}")
        known.append(KnownFinding(*m.groups()))
    return known, fixed


@dataclass
class Violation:
    rule: str
    construct: str  # stable key: qualified construct (never a line number)
    message: str
    detail: dict = field(default_factory=dict)


class Check:
    """Collects what one run of one property check covered and found."""

    def __init__(self, pid: str, tier: str, program: Any):
        self.pid = pid
        self.tier = tier
        self.program = program
        self.t0 = time.time()
        self.rules: dict[str, dict] = {}
        self.violations: list[Violation] = []
        self.samples: list[Any] = []
        self.functions: set[str] = set()
        self.paths = 0
        self.notes: list[str] = []
        self.exhaustive: bool | None = None
        self.trusted: list[str] = []
        self.undecided: list[str] = []
        self.selftests: list[dict] = []
        self._nontrivial: set[str] = set()
        self.part_errors: list[str] = []

    def part(self, name: str, fn: Callable[[], None]) -> None:
        """Run one independent group of rules.  If it cannot be analysed the other groups still run;
        the check then ends as ANALYSIS-ERROR (exit 2) unless another group found a violation."""
        try:
            fn()
        except AnalysisError as e:
            self.part_errors.append(f"{name}: {e}")
        except RecursionError as e:
            self.part_errors.append(f"{name}: recursion limit: {e}")

    # -- recording
    def rule(self, name: str, desc: str, floor: int = 1) -> None:
        self.rules.setdefault(name, {"desc": desc, "floor": floor, "instances": 0, "discharged": 0, "failed": 0})

    def ok(self, rule: str, instance: str, sample: Any = None, nontrivial: bool = True) -> None:
        r = self.rules[rule]
        r["instances"] += 1
        r["discharged"] += 1
        if nontrivial:
            self._nontrivial.add(f"{rule}|{instance}")
        if sample is not None and len(self.samples) < 40 and sum(1 for s in self.samples if s.get("rule") == rule) < 3:
            self.samples.append({"rule": rule, "instance": instance, "verdict": "holds", "case": plain(sample)})

    def fail(self, rule: str, instance: str, construct: str, message: str, detail: dict | None = None) -> None:
        r = self.rules[rule]
        r["instances"] += 1
        r["failed"] += 1
        self._nontrivial.add(f"{rule}|{instance}")
        # one violation per (rule, construct); further instances are attached to it
        for v in self.violations:
            if v.rule == rule and v.construct == construct:
                v.detail.setdefault("more_instances", [])
                if len(v.detail["more_instances"]) < 25:
                    v.detail["more_instances"].append(instance)
                v.detail["instances"] = v.detail.get("instances", 1) + 1
                return
        d = dict(detail or {})
        d["instance"] = instance
        self.violations.append(Violation(rule, construct, message, d))

    def note(self, text: str) -> None:
        self.notes.append(text)

    def saw_functions(self, interp: Any) -> None:
        for e in interp.events:
            if e["kind"] == "call":
                self.functions.add(f"{e['module']}.{e['func']}")

    # -- finishing
    def finish(self) -> int:
        known, fixed = load_known()
        from . import par

        self.part_errors.extend(f"job: {e}" for e in par.take_errors())
        if self.part_errors and not self.violations:
            raise AnalysisError("; ".join(self.part_errors))
        # instance floors: a rule matching (almost) nothing passes vacuously forever -> broken analysis
        for name, r in self.rules.items():
            # (when violations were found some dependent instances are legitimately skipped)
            if r["instances"] < r["floor"] and not self.violations:
                raise AnalysisError(f"rule {name}: only {r['instances']} instances found, floor is {r['floor']} (anchor vanished?)")
        for st in self.selftests:
            if not st["ok"]:
                raise AnalysisError(f"self-test failed: {st['name']}: {st['why']}")
        new: list[Violation] = []
        kf_lines: list[str] = []
        for v in self.violations:
            k = next((k for k in known if k.property_id == self.pid and k.rule == v.rule and k.construct == v.construct), None)
            if k is not None:
                kf_lines.append(f"KNOWN-FINDING: property={self.pid} rule={v.rule} construct={v.construct} {k.text}")
            else:
                new.append(v)
        REPLAY_DIR.mkdir(parents=True, exist_ok=True)
        for old in REPLAY_DIR.glob(f"{self.pid}-*.json"):
            old.unlink()
        out_lines: list[str] = []
        for i, v in enumerate(new):
            path = REPLAY_DIR / f"{self.pid}-{i}.json"
            path.write_text(json.dumps({"property": self.pid, "rule": v.rule, "construct": v.construct, "message": v.message, "detail": plain(v.detail)}, indent=1))
            out_lines.append(f"  {v.rule} @ {v.construct}: {v.message}")
            out_lines.append(f"VIOLATION property={self.pid} replay={path}")
        self.write_evidence(len(new), kf_lines)
        total = sum(r["instances"] for r in self.rules.values())
        disch = sum(r["discharged"] for r in self.rules.values())
        print(f"[{self.pid}/{self.tier}] rules={len(self.rules)} instances={total} discharged={disch} paths={self.paths} functions={len(self.functions)} wall={time.time() - self.t0:.2f}s")
        for name, r in self.rules.items():
            print(f"  {name}: {r['discharged']}/{r['instances']} (floor {r['floor']}) — {r['desc']}")
        for st in self.selftests:
            print(f"  selftest {st['name']}: ok")
        for e in self.part_errors:
            print(f"  (not analysed: {e})")
        for l in kf_lines:
            print(l)
        for l in out_lines:
            print(l)
        return 1 if new else 0

    def write_evidence(self, n_viol: int, kf_lines: list[str]) -> None:
        EVIDENCE_DIR.mkdir(parents=True, exist_ok=True)
        total = sum(r["instances"] for r in self.rules.values())
        disch = sum(r["discharged"] for r in self.rules.values())
        expl = "; ".join(f"{n}: {r['desc']} [{r['discharged']}/{r['instances']}]" for n, r in self.rules.items())
        cov: dict[str, Any] = {
            "explanation": "Static analysis of /repo/pyjelly sources (never imported or executed): " + expl,
            "evaluations": max(total, 1),
            "distinct_nontrivial": len(self._nontrivial),
            "rule": "one evaluation = one rule instance (lattice point, decision-table cell, path, call site or symbolic composite) extracted from the current source; non-trivial = its verdict depended on at least one analysed construct of the repository; distinct by (rule, instance key)",
            "samples": self.samples[:40] or [{"note": "no samples"}],
            "obligations": total,
            "discharged": disch,
            "rules": {n: {k: v for k, v in r.items()} for n, r in self.rules.items()},
            "paths_enumerated": self.paths,
            "functions_analysed": sorted(self.functions),
            "files": self.program.files_evidence() if self.program is not None else [],
            "trusted_base": self.trusted,
            "not_decided": self.undecided,
            "known_findings_reported": kf_lines,
            "selftests": self.selftests,
            "notes": self.notes,
        }
        if self.exhaustive is not None:
            cov["exhaustive"] = self.exhaustive
        ev = {
            "property_id": self.pid,
            "tier": self.tier,
            "seed": int(os.environ.get("VERIF_SEED", "0") or 0),
            "level": "other",
            "coverage": cov,
            "assumptions": self.trusted,
            "wall_s": round(time.time() - self.t0, 3),
            "violations": n_viol,
        }
        (EVIDENCE_DIR / f"{self.pid}.json").write_text(json.dumps(ev, indent=1, default=repr))


def _install_deadline(pid: str, tier: str) -> None:
    """A check that cannot finish (e.g. the code under analysis makes a fixpoint diverge) is an ANALYSIS-ERROR."""
    import signal

    seconds = int(os.environ.get("JSTAT_DEADLINE", "900" if tier == "quick" else "5400"))

    def on_alarm(_sig: int, _frm: Any) -> None:
        print(f"ANALYSIS-ERROR property={pid} time budget of {seconds}s exhausted (the analysis does not converge on this tree)", flush=True)
        try:
            import multiprocessing

            for ch in multiprocessing.active_children():
                ch.terminate()
        finally:
            os._exit(2)

    try:
        signal.signal(signal.SIGALRM, on_alarm)
        signal.alarm(seconds)
    except (ValueError, AttributeError):  # not in the main thread / platform without SIGALRM
        pass


def run_check(pid: str, tier: str, fn: Callable[[Check], None], program_loader: Callable[[], Any]) -> int:
    _install_deadline(pid, tier)
    try:
        program = program_loader()
        chk = Check(pid, tier, program)
        fn(chk)
        return chk.finish()
    except AnalysisError as e:
        print(f"ANALYSIS-ERROR property={pid} {e}")
        return 2
    except RecursionError as e:
        print(f"ANALYSIS-ERROR property={pid} recursion limit: {e}")
        return 2
    except Exception as e:  # a traceback must never look like a violation
        tb = traceback.format_exc(limit=8)
        print(f"ANALYSIS-ERROR property={pid} internal error: {type(e).__name__}: {e}")
        print(tb, file=sys.stderr)
        return 2
