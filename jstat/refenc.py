"""Reference encoder: a foreign Jelly producer making arbitrary *legal* choices.

Builds abstract frames directly from the descriptor (no pyjelly code).  Every stream it emits is
validated by jstat.refdec before use (it must be valid and denote the intended statements), so a
mistake here shows up as an ANALYSIS-ERROR, not as a verdict about pyjelly.
"""
from __future__ import annotations

from dataclasses import dataclass, field
from typing import Any

from .freeze import freeze
from .kit import Wire
from .values import AList, Atom, Msg, SStr, sstr

XSD_STRING = "http://www.w3.org/2001/XMLSchema#string"


@dataclass
class Policy:
    evict: str = "lru"  # lru | fifo | highest | lowest-unpinned
    ids: str = "zero"  # zero (use 0 whenever legal) | explicit | alternate
    split: str = "last-sep"  # last-sep | none | first-part
    repeats: str = "use"  # use | never | alternate
    entries: str = "lazy"  # lazy | eager (all entries of a frame first) | redundant (re-send resident entries)
    framing: str = "one"  # one | per-row | per-statement | empty-and-options
    delimited: bool = True
    xsd_string: str = "plain"  # how a plain literal is written: plain | (never typed: xsd:string typed is a different wire form)

    def key(self) -> str:
        return f"evict={self.evict} ids={self.ids} split={self.split} repeats={self.repeats} entries={self.entries} framing={self.framing} delimited={self.delimited}"


@dataclass
class Table:
    size: int
    slots: dict = field(default_factory=dict)  # id -> value
    order: list = field(default_factory=list)  # ids, least recently used first
    born: list = field(default_factory=list)  # ids in insertion order
    last_set: int = 0
    last_used: int = 0

    def find(self, value: Any) -> int | None:
        fv = freeze(value)
        for i, v in self.slots.items():
            if freeze(v) == fv:
                return i
        return None


class RefEncoder:
    def __init__(self, wire: Wire, physical: int, logical: int, sizes: tuple, policy: Policy, version: int = 1, generalized: bool = True, rdf_star: bool = True):
        self.w = wire
        self.physical = physical
        self.policy = policy
        self.sizes = sizes
        self.names = Table(sizes[0])
        self.prefixes = Table(sizes[1])
        self.datatypes = Table(sizes[2])
        self.opts_kw = dict(physical=physical, logical=logical, names=sizes[0], prefixes=sizes[1], datatypes=sizes[2], version=version, generalized_statements=generalized, rdf_star=rdf_star)
        self.rows: list[tuple[str, Msg]] = []  # (tag, row) ; tag: 'options' | 'entry' | 'stmt' | 'graph' | 'ns'
        self.prev: dict[str, Any] = {}
        self.counter = 0
        self.pinned: dict[int, set] = {}
        self.pending_entries: list[Msg] = []
        self.rows.append(("options", self.w.options_row(**self.opts_kw)))

    # -- choices
    def flip(self) -> bool:
        self.counter += 1
        return self.counter % 2 == 0

    def use_zero(self) -> bool:
        p = self.policy.ids
        return p == "zero" or (p == "alternate" and self.flip())

    # -- tables
    def _pin(self, table: Table, ident: int) -> None:
        self.pinned.setdefault(id(table), set()).add(ident)

    def _victim(self, table: Table) -> int:
        pinned = self.pinned.get(id(table), set())
        cands = [i for i in table.slots if i not in pinned]
        if not cands:
            raise ValueError("statement needs more entries than the table holds")
        ev = self.policy.evict
        if ev == "lru":
            return next(i for i in table.order if i in cands)
        if ev == "fifo":
            return next(i for i in table.born if i in cands)
        if ev == "highest":
            return max(cands)
        return min(cands)

    def ensure(self, table: Table, role: str, value: Any) -> int:
        ident = table.find(value)
        resend = False
        if ident is not None and self.policy.entries == "redundant" and self.flip():
            resend = True
        if ident is None:
            if len(table.slots) < table.size:
                free = [i for i in range(1, table.size + 1) if i not in table.slots]
                ident = free[0] if self.policy.evict != "highest" else free[-1]
            else:
                ident = self._victim(table)
                table.order.remove(ident)
                table.born.remove(ident)
            resend = True
            table.born.append(ident)
        if resend:
            wire_id = 0 if (ident == table.last_set + 1 and self.use_zero()) else ident
            entry_type = {"name": "RdfNameEntry", "prefix": "RdfPrefixEntry", "datatype": "RdfDatatypeEntry"}[role]
            row = self.w.msg("RdfStreamRow", **{role: self.w.msg(entry_type, id=wire_id, value=value)})
            self.rows.append(("entry", row))
            table.slots[ident] = value
            table.last_set = ident
        if ident in table.order:
            table.order.remove(ident)
        table.order.append(ident)
        self._pin(table, ident)
        return ident

    # -- terms
    def split(self, iri: Any) -> tuple[Any, Any]:
        if self.prefixes.size == 0:
            return "", iri
        mode = self.policy.split
        parts = list(iri.parts) if isinstance(iri, SStr) else [iri]
        if mode == "none":
            return "", iri
        if mode == "first-part" and len(parts) > 1:
            return sstr(parts[0]), sstr(*parts[1:])
        # last-sep: after the last constant separator piece
        for i in range(len(parts) - 1, -1, -1):
            if isinstance(parts[i], str) and parts[i] and parts[i][-1] in "#/":
                return sstr(*parts[: i + 1]), sstr(*parts[i + 1 :])
        return "", iri

    def iri_msg(self, iri: Any) -> Msg:
        prefix, name = self.split(iri)
        kw: dict[str, Any] = {}
        if self.prefixes.size > 0 and not (prefix == "" and self.prefixes.last_used == 0):
            pid = self.ensure(self.prefixes, "prefix", prefix)
        else:
            pid = 0
        nid = self.ensure(self.names, "name", name)
        # references
        if pid:
            wire_p = 0 if (pid == self.prefixes.last_used and self.use_zero()) else pid
            self.prefixes.last_used = pid
        else:
            wire_p = 0
        wire_n = 0 if (nid == self.names.last_used + 1 and self.use_zero()) else nid
        self.names.last_used = nid
        if wire_p:
            kw["prefix_id"] = wire_p
        if wire_n:
            kw["name_id"] = wire_n
        m = self.w.msg("RdfIri", **kw)
        return m

    def literal_msg(self, term: tuple) -> Msg:
        _k, lex, lang, dt = term
        kw: dict[str, Any] = {"lex": lex}
        if lang is not None:
            kw["langtag"] = lang
        elif dt is not None and dt != XSD_STRING:
            kw["datatype"] = self.ensure(self.datatypes, "datatype", dt)
        return self.w.msg("RdfLiteral", **kw)

    def set_term(self, holder_kw: dict, slot_prefix: str, term: tuple) -> None:
        kind = term[0]
        if kind == "iri":
            holder_kw[f"{slot_prefix}_iri"] = self.iri_msg(term[1])
        elif kind == "bnode":
            holder_kw[f"{slot_prefix}_bnode"] = term[1]
        elif kind == "lit":
            holder_kw[f"{slot_prefix}_literal"] = self.literal_msg(term)
        elif kind == "default":
            holder_kw[f"{slot_prefix}_default_graph"] = self.w.msg("RdfDefaultGraph")
        elif kind == "triple":
            holder_kw[f"{slot_prefix}_triple_term"] = self.quoted(term)
        else:
            raise ValueError(kind)

    def quoted(self, term: tuple) -> Msg:
        kw: dict[str, Any] = {}
        for slot, t in zip("spo", term[1:]):
            self.set_term(kw, slot, t)
        return self.w.msg("RdfTriple", **kw)

    def _repeat_ok(self, slot: str, term: tuple) -> bool:
        if slot not in self.prev or freeze(self.prev[slot]) != freeze(term):
            return False
        p = self.policy.repeats
        return p == "use" or (p == "alternate" and self.flip())

    def statement(self, st: tuple) -> None:
        self.pinned = {}
        if self.physical == 3:
            g = st[3]
            if freeze(self.prev.get("__graph__", ("none",))) != freeze(g):
                if "__graph__" in self.prev:
                    self.rows.append(("graph", self.w.msg("RdfStreamRow", graph_end=self.w.msg("RdfGraphEnd"))))
                kw: dict[str, Any] = {}
                self.set_term(kw, "g", g)
                self.rows.append(("graph", self.w.msg("RdfStreamRow", graph_start=self.w.msg("RdfGraphStart", **kw))))
                self.prev["__graph__"] = g
            body = st[:3]
        else:
            body = st
        kw = {}
        for slot, t in zip("spog", body):
            if self._repeat_ok(slot, t):
                continue
            self.set_term(kw, slot, t)
            self.prev[slot] = t
        if self.physical == 2:
            self.rows.append(("stmt", self.w.msg("RdfStreamRow", quad=self.w.msg("RdfQuad", **kw))))
        else:
            self.rows.append(("stmt", self.w.msg("RdfStreamRow", triple=self.w.msg("RdfTriple", **kw))))

    def preload(self, st: tuple) -> None:
        """Early entries: define what a later statement needs before it is needed (legal)."""
        def walk(t: tuple) -> None:
            if t[0] == "iri":
                prefix, name = self.split(t[1])
                if self.prefixes.size > 0 and len(self.prefixes.slots) < self.prefixes.size and prefix != "":
                    self.ensure(self.prefixes, "prefix", prefix)
                if len(self.names.slots) < self.names.size:
                    self.ensure(self.names, "name", name)
            elif t[0] == "triple":
                for x in t[1:]:
                    walk(x)

        for t in st:
            walk(t)
        self.pinned = {}

    def namespace(self, prefix: Any, iri: Any) -> None:
        self.pinned = {}
        self.rows.append(("ns", self.w.msg("RdfStreamRow", namespace=self.w.msg("RdfNamespaceDeclaration", name=prefix, value=self.iri_msg(iri)))))

    def finish(self) -> list[Msg]:
        if self.physical == 3 and "__graph__" in self.prev:
            self.rows.append(("graph", self.w.msg("RdfStreamRow", graph_end=self.w.msg("RdfGraphEnd"))))
        return self.frames()

    # -- framing
    def frames(self) -> list[Msg]:
        rows = self.rows
        f = self.policy.framing
        if not self.policy.delimited or f == "one":
            return [self.w.frame([r for _t, r in rows])]
        out: list[Msg] = []
        if f == "per-row":
            return [self.w.frame([r]) for _t, r in rows]
        cur: list[Msg] = []
        for tag, r in rows:
            cur.append(r)
            if tag in ("stmt", "ns") or (tag == "graph" and "graph_end" in r.present):
                out.append(self.w.frame(cur))
                cur = []
        if cur:
            out.append(self.w.frame(cur))
        if f == "empty-and-options":
            from .values import ADict

            res: list[Msg] = [self.w.frame([]), self.w.frame([], metadata=ADict([["k", b"v"]]))]
            for i, fr in enumerate(out):
                if i and i % 2 == 0:
                    # an unchanged options row may be repeated at the start of any frame
                    rows_i = [self.w.options_row(**self.opts_kw)] + list(fr.fields["rows"].items)
                    res.append(self.w.frame(rows_i))
                else:
                    res.append(fr)
                if i % 2 == 1:
                    res.append(self.w.frame([]))
            return res
        return out


def policies(tier: str) -> list[Policy]:
    base = Policy()
    out = [base]
    dims = {
        "evict": ["fifo", "highest", "lowest-unpinned"],
        "ids": ["explicit", "alternate"],
        "split": ["none", "first-part"],
        "repeats": ["never", "alternate"],
        "entries": ["redundant", "early"],
        "framing": ["per-row", "per-statement", "empty-and-options"],
        "delimited": [False],
    }
    for d, vals in dims.items():
        for v in vals:
            p = Policy(**{**base.__dict__, d: v})
            out.append(p)
    # a second baseline that differs from the first in every dimension, and one-factor variations around it
    alt = Policy(evict="fifo", ids="explicit", split="first-part", repeats="never", entries="redundant", framing="empty-and-options", delimited=True)
    out.append(alt)
    for d, vals in dims.items():
        for v in vals + [getattr(base, d)]:
            if v != getattr(alt, d):
                out.append(Policy(**{**alt.__dict__, d: v}))
    if tier == "thorough":
        import itertools

        # the full product of the producer's choices (4 x 3 x 3 x 3 x 3 x 4 x 2 = 2592 policies)
        for ev, ids, sp, rp, en, fr, dl in itertools.product(["lru", "fifo", "highest", "lowest-unpinned"], ["zero", "explicit", "alternate"], ["last-sep", "first-part", "none"], ["use", "never", "alternate"], ["lazy", "redundant", "early"], ["one", "per-row", "per-statement", "empty-and-options"], [True, False]):
            if not dl and fr != "one":
                continue  # a non-delimited stream is a single frame
            out.append(Policy(evict=ev, ids=ids, split=sp, repeats=rp, entries=en, framing=fr, delimited=dl))
    seen = set()
    uniq = []
    for p in out:
        if p.key() not in seen:
            seen.add(p.key())
            uniq.append(p)
    return uniq
