"""Conformance of the rdflib model (jstat.models_rdflib, part of the trusted base) with the installed rdflib:
concrete snippet functions using the part of rdflib's API that pyjelly touches are evaluated by the abstract
interpreter (on the model) and by CPython (on rdflib itself); the results must agree.  Tests the tool, decides no
property.  `python -m jstat rdftest`.  Needs rdflib importable in the running interpreter (it is in /venv).

Facts that are deliberately not compared: iteration order of stores (hash order in rdflib, insertion order in the
model: results are compared as sorted collections) and the ~25 default namespace bindings of a fresh rdflib Graph
(the model starts empty: only bindings made by the snippet are compared).
"""
from __future__ import annotations

import ast
from pathlib import Path
from typing import Any

from .errors import AnalysisError
from .values import PyRaise

SOURCE = r'''
from __future__ import annotations
import rdflib
from rdflib import URIRef, BNode, Literal, Graph, Dataset
from rdflib.graph import DATASET_DEFAULT_GRAPH_ID

XSD_STRING = "http://www.w3.org/2001/XMLSchema#string"
XSD_INT = "http://www.w3.org/2001/XMLSchema#integer"


def n(t):
    """Neutral rendering of a term."""
    if isinstance(t, Literal):
        return ("lit", str(t), t.language, str(t.datatype) if t.datatype is not None else None)
    if isinstance(t, URIRef):
        return ("iri", str(t))
    if isinstance(t, BNode):
        return ("bnode", str(t))
    if isinstance(t, Graph):
        return ("graph", n(t.identifier))
    return ("other", repr(t))


def t_term_equality():
    a, b = URIRef("http://e/a"), URIRef("http://e/a")
    return [
        a == b, a != b, a == "http://e/a", "http://e/a" == a, a == BNode("http://e/a"), hash(a) == hash(b),
        BNode("x") == BNode("x"), BNode("x") == URIRef("x"), BNode("x") != BNode("y"),
        Literal("a") == Literal("a"), Literal("a") == "a", Literal("a") == Literal("a", lang="en"),
        Literal("a", lang="en") == Literal("a", lang="EN"), Literal("a", lang="en-GB") == Literal("a", lang="en-gb"),
        hash(Literal("a", lang="en")) == hash(Literal("a", lang="EN")),
        Literal("1", datatype=URIRef(XSD_INT)) == Literal("1", datatype=URIRef(XSD_INT)),
        Literal("1", datatype=URIRef(XSD_INT)) == Literal("1"),
        Literal("a", datatype=URIRef(XSD_STRING)) == Literal("a"),
        Literal("A") == Literal("a"),
        a in [b], a in ["http://e/a"], Literal("a", lang="en") in [Literal("a", lang="EN")],
        {a: 1}[b], len({Literal("a", lang="en"), Literal("a", lang="EN")}), len({a, b, "http://e/a"}),
        isinstance(a, str), isinstance(a, URIRef), isinstance(a, rdflib.term.Identifier), isinstance(Literal("x"), str), isinstance(BNode("b"), URIRef),
    ]


def t_literal_parts():
    l1 = Literal("chat", lang="en-GB")
    l2 = Literal("5", datatype=URIRef(XSD_INT))
    l3 = Literal("plain")
    l4 = Literal("s", datatype=URIRef(XSD_STRING))
    l5 = Literal("", lang="en")
    try:
        Literal("x", lang="en", datatype=URIRef(XSD_INT))
        both = "accepted"
    except TypeError:
        both = "typeerror"
    return [n(l1), n(l2), n(l3), n(l4), n(l5), str(l1), l1.language, l2.datatype == URIRef(XSD_INT), str(l2.datatype), l3.language, l3.datatype, both,
            bool(l3), bool(Literal("")), bool(Literal("0", datatype=URIRef(XSD_INT))), bool(Literal("false", datatype=URIRef("http://www.w3.org/2001/XMLSchema#boolean"))),
            bool(URIRef("")), bool(URIRef("x")), bool(BNode("b")), str(URIRef("http://e/x")), str(BNode("b1")), l1.datatype is None,
            URIRef("http://e/x#frag").rpartition("#"), URIRef("http://e/x/y").rpartition("/")[0], n(URIRef("ab") + "c"), len(URIRef("abc")), URIRef("abc")[1:], URIRef("abc").startswith("ab")]


def t_graph_basics():
    g = Graph()
    s, p = URIRef("http://e/s"), URIRef("http://e/p")
    g.add((s, p, Literal("o1")))
    g.add((s, p, Literal("o1")))
    g.add((s, p, Literal("o2", lang="en")))
    g.add((BNode("b"), p, s))
    out = [len(g), sorted(tuple(n(x) for x in t) for t in g), (s, p, Literal("o1")) in g, (s, p, Literal("zz")) in g, n(g.identifier)[0], isinstance(g.identifier, BNode), bool(g), bool(Graph())]
    out.append(sorted(tuple(n(x) for x in t) for t in g.triples((s, None, None))))
    out.append(sorted(tuple(n(x) for x in t) for t in g.triples((None, None, None))) == sorted(tuple(n(x) for x in t) for t in g))
    g2 = Graph(identifier=URIRef("http://e/g2"))
    out.append(n(g2.identifier))
    # language-tag case: a store is a set under rdflib's equality
    g3 = Graph()
    g3.add((s, p, Literal("chat", lang="en-US")))
    g3.add((s, p, Literal("chat", lang="en-us")))
    out.append(len(g3))
    return out


def t_namespaces():
    g = Graph()
    before = {p for p, _ in g.namespaces()}
    g.bind("ex", URIRef("http://e/ns#"))
    g.bind("ex2", "http://e/ns2/")
    g.bind("", URIRef("http://e/empty/"))
    added = [(p, str(u), isinstance(u, URIRef)) for p, u in g.namespaces() if p not in before]
    # re-binding
    g.bind("ex", URIRef("http://e/other#"))
    after1 = sorted((p, str(u)) for p, u in g.namespaces() if p not in before or p == "ex")
    h = Graph()
    hb = {p for p, _ in h.namespaces()}
    h.bind("a", URIRef("http://e/same#"))
    h.bind("b", URIRef("http://e/same#"))
    ov = sorted((p, str(u)) for p, u in h.namespaces() if p not in hb)
    h2 = Graph()
    h2b = {p for p, _ in h2.namespaces()}
    h2.bind("a", URIRef("http://e/same#"))
    h2.bind("b", URIRef("http://e/same#"), override=False)
    noov = sorted((p, str(u)) for p, u in h2.namespaces() if p not in h2b)
    return [added, after1, ov, noov]


def t_dataset():
    ds = Dataset()
    s, p = URIRef("http://e/s"), URIRef("http://e/p")
    g1 = ds.get_context(URIRef("http://e/g1"))
    g1.add((s, p, Literal("in g1")))
    gb = ds.get_context(BNode("gb"))
    gb.add((s, p, Literal("in gb")))
    ds.add((s, p, Literal("default")))
    ds.add((s, p, Literal("quad"), URIRef("http://e/g2")))
    ds.add((s, p, Literal("quad in g1"), g1))
    out = []
    out.append(sorted((tuple(n(x) for x in (q[0], q[1], q[2])) + (n(q[3]) if not isinstance(q[3], Graph) else n(q[3].identifier),)) for q in ds.quads()))
    out.append(sorted((n(g.identifier), len(g)) for g in ds.graphs()))
    out.append(n(DATASET_DEFAULT_GRAPH_ID))
    out.append(n(ds.default_context.identifier) == n(DATASET_DEFAULT_GRAPH_ID))
    out.append(len(ds.get_context(URIRef("http://e/g1"))))
    out.append(len(ds.get_context(DATASET_DEFAULT_GRAPH_ID)))
    out.append(isinstance(ds, Graph))
    out.append(isinstance(ds, Dataset))
    out.append(isinstance(g1, Dataset))
    # a context obtained twice denotes the same graph
    ds.get_context(URIRef("http://e/g1")).add((s, p, Literal("again")))
    out.append(len(g1))
    # empty named graph obtained through get_context only
    ds.get_context(URIRef("http://e/empty"))
    out.append(sorted(str(g.identifier) for g in ds.graphs() if len(g) == 0 and isinstance(g.identifier, URIRef) and "empty" in str(g.identifier)) in ([], ["http://e/empty"]))
    return out


def t_shared_store():
    ds = Dataset()
    s, p = URIRef("http://e/s"), URIRef("http://e/p")
    view = Graph(store=ds.store, identifier=URIRef("http://e/g"))
    view.add((s, p, Literal("via view")))
    ds2 = Dataset(store=ds.store)
    g = Graph()
    g.add((s, p, Literal("x")))
    same = Graph(store=g.store, identifier=g.identifier)
    same.add((s, p, Literal("y")))
    return [len(ds.get_context(URIRef("http://e/g"))), sorted(str(c.identifier) for c in ds2.graphs() if len(c)), len(g), len(same)]
'''

TESTS = [n.name for n in ast.parse(SOURCE).body if isinstance(n, ast.FunctionDef) and n.name.startswith("t_")]


def run(verbose: bool = False, only: str | None = None) -> tuple[int, list[str]]:
    import sys
    import types

    from .interp import Interp
    from .langtest import host_py, to_py
    from .loader import load_program

    try:
        import rdflib  # noqa: F401
    except ImportError:
        return 0, ["rdflib is not importable in this interpreter: the conformance test needs /venv/bin/python"]
    prog = load_program()
    name = "pyjelly._jstat_rdftest"
    prog.modules[name] = ast.parse(SOURCE)
    prog.paths[name] = Path(prog.repo) / "pyjelly" / "_jstat_rdftest.py"
    prog.sources[name] = SOURCE
    prog.sha256[name] = "0" * 64
    host_mod = types.ModuleType("jstat_rdftest_host")
    sys.modules["jstat_rdftest_host"] = host_mod
    exec(compile(SOURCE, "<rdftest>", "exec"), host_mod.__dict__)
    failures: list[str] = []
    count = 0
    for t in TESTS:
        if only and only not in t:
            continue
        count += 1
        want = host_py(host_mod.__dict__[t]())
        try:
            it = Interp(prog, max_steps=2_000_000)
            got = to_py(it, it.call(it.module_ns(name)[t], [], {}))
        except PyRaise as pr:
            failures.append(f"{t}: interpreter raises {it.exc_class_name(pr.exc)} {getattr(pr.exc, 'attrs', {}).get('args')} at {pr.site}")
            continue
        except AnalysisError as e:
            failures.append(f"{t}: {e}")
            continue
        if isinstance(want, list) and isinstance(got, list) and len(want) == len(got):
            for i, (w, g) in enumerate(zip(want, got)):
                if w != g:
                    failures.append(f"{t}[{i}]: rdflib {w!r} != model {g!r}")
        elif want != got:
            failures.append(f"{t}: rdflib {want!r} != model {got!r}")
        elif verbose:
            print(f"  {t}: ok")
    return count, failures
