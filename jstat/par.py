"""Process-parallel map for independent analysis jobs (each worker re-reads /repo itself)."""
from __future__ import annotations

import os
from concurrent.futures import ProcessPoolExecutor
from typing import Any, Callable

_PROGRAM = None


def program():
    global _PROGRAM
    if _PROGRAM is None:
        from .loader import load_program

        _PROGRAM = load_program()
    return _PROGRAM


_ERRORS: list[str] = []


def take_errors() -> list[str]:
    """Analysis errors of the jobs of the last pmap calls (their results are None)."""
    out = list(dict.fromkeys(_ERRORS))
    _ERRORS.clear()
    return out


def _safe(fn: Callable[[Any, Any], Any], prog: Any, job: Any) -> Any:
    from .errors import AnalysisError

    try:
        return fn(prog, job)
    except AnalysisError as e:
        return {"__analysis_error__": str(e)[:500]}
    except RecursionError as e:
        return {"__analysis_error__": f"recursion limit: {e}"}


def _run_chunk(args: tuple) -> list:
    fn, chunk = args
    prog = program()
    return [_safe(fn, prog, job) for job in chunk]


def _strip(results: list) -> list:
    out = []
    for r in results:
        if isinstance(r, dict) and "__analysis_error__" in r:
            _ERRORS.append(r["__analysis_error__"])
            out.append(None)
        else:
            out.append(r)
    return out


def pmap(fn: Callable[[Any, Any], Any], jobs: list, min_parallel: int = 24) -> list:
    """fn(program, job) -> picklable result; order of results = order of jobs."""
    workers = min(int(os.environ.get("JSTAT_WORKERS", "16")), os.cpu_count() or 1)
    if os.environ.get("JSTAT_SERIAL") or workers <= 1 or len(jobs) < min_parallel:
        prog = program()
        return _strip([_safe(fn, prog, j) for j in jobs])
    n = workers * 3
    chunks = [jobs[i::n] for i in range(n)]
    out: list = [None] * len(jobs)
    with ProcessPoolExecutor(max_workers=workers) as ex:
        for ci, part in enumerate(ex.map(_run_chunk, [(fn, c) for c in chunks])):
            for j, r in enumerate(part):
                out[ci + j * n] = r
    return _strip(out)
