"""Process-parallel map for independent analysis jobs (each worker re-reads /repo itself)."""
from __future__ import annotations

import os
from concurrent.futures import ProcessPoolExecutor
from typing import Any, Callable

_PROGRAM = None


def program():
    global _PROGRAM
    if _PROGRAM is None:
        from .loader import load_program

        _PROGRAM = load_program()
    return _PROGRAM


def _run_chunk(args: tuple) -> list:
    fn, chunk = args
    prog = program()
    return [fn(prog, job) for job in chunk]


def pmap(fn: Callable[[Any, Any], Any], jobs: list, min_parallel: int = 24) -> list:
    """fn(program, job) -> picklable result; order of results = order of jobs."""
    workers = min(16, os.cpu_count() or 1)
    if os.environ.get("JSTAT_SERIAL") or workers <= 1 or len(jobs) < min_parallel:
        prog = program()
        return [fn(prog, j) for j in jobs]
    n = workers * 3
    chunks = [jobs[i::n] for i in range(n)]
    out: list = [None] * len(jobs)
    with ProcessPoolExecutor(max_workers=workers) as ex:
        for ci, part in enumerate(ex.map(_run_chunk, [(fn, c) for c in chunks])):
            for j, r in enumerate(part):
                out[ci + j * n] = r
    return out
