#!/usr/bin/env python3
"""Print the DESIGN.md tables from committed data: /verif/seeded/*/meta.json, /verif/benign/*, /verif/evidence/*.json.

usage: design_tables.py seeded | benign | checks
"""
import json
import sys
from pathlib import Path

VERIF = Path(__file__).resolve().parent.parent


def seeded() -> None:
    metas = [json.loads(p.read_text()) for p in sorted((VERIF / "seeded").glob("*/meta.json"))]
    for rnd in (1, 2, 3, 4):
        rows = [m for m in metas if m.get("round", 1) == rnd]
        if not rows:
            continue
        own = sum(1 for m in rows if m["breaks_property"] in m["checks_that_fire"])
        other = sum(1 for m in rows if m["breaks_property"] not in m["checks_that_fire"] and m["checks_that_fire"])
        missed = [m["id"] for m in rows if not m["checks_that_fire"]]
        print(f"\n**Round {rnd}** — {len(rows)} confirmed changes: {own} caught by the check of the property they were written against, "
              f"{other} caught only by other checks, {len(missed)} not caught{(' (' + ', '.join(missed) + ')') if missed else ''}.\n")
        print("| change | file(s) touched | caught by (bold = the targeted property's check) | not analysable (ANALYSIS-ERROR) |")
        print("|--------|-----------------|--------------------------------------------------|----------------------------------|")
        for m in rows:
            files = ", ".join(Path(f).name for f in m["files_changed"])
            fired = m["checks_that_fire"]
            own_s = f"**{m['breaks_property']}**" if m["breaks_property"] in fired else ""
            others = ", ".join(x for x in fired if x != m["breaks_property"])
            caught = ", ".join(x for x in (own_s, others) if x) or "— (missed)"
            errs = m.get("checks_that_cannot_analyse_the_change", [])
            print(f"| {m['id']} | {files} | {caught} | {', '.join(errs) if len(errs) < 6 else str(len(errs)) + ' checks'} |")


def benign() -> None:
    rows = sorted((VERIF / "benign").glob("*/"))
    print("| refactoring | what it does | result |")
    print("|-------------|--------------|--------|")
    for d in rows:
        notes = (d / "notes.md").read_text().strip().splitlines() if (d / "notes.md").exists() else [""]
        first = next((ln.strip("# -*").strip() for ln in notes if ln.strip()), "")[:150]
        res = json.loads((d / "result.json").read_text()) if (d / "result.json").exists() else {}
        verdict = "all 20 checks silent (exit 0)" if not res.get("non_silent") else "; ".join(f"{k}: exit {v[0]}" for k, v in res["non_silent"].items())
        print(f"| {d.name} | {first} | {verdict} |")


def checks() -> None:
    print("| id | rules (instances on the clean tree) | paths | wall (quick) |")
    print("|----|--------------------------------------|-------|--------------|")
    for p in sorted((VERIF / "evidence").glob("C*.json")):
        d = json.loads(p.read_text())
        cov = d["coverage"]
        rules = cov.get("rules", {})
        if isinstance(rules, dict):
            rs = ", ".join(f"{k.split('.', 1)[1] if '.' in k else k} ({v.get('instances', v) if isinstance(v, dict) else v})" for k, v in rules.items())
        else:
            rs = ", ".join(f"{r.get('rule', '?').split('.', 1)[-1]} ({r.get('instances')})" for r in rules)
        print(f"| {d['property_id']} | {rs} | {cov.get('paths_enumerated')} | {d.get('wall_s')} s |")


if __name__ == "__main__":
    {"seeded": seeded, "benign": benign, "checks": checks}[sys.argv[1]]()
