#!/usr/bin/env python3
"""Fill the generated parts of DESIGN.md (between <!-- gen:NAME --> markers) from committed data."""
import io
import re
import sys
from contextlib import redirect_stdout
from pathlib import Path

sys.path.insert(0, str(Path(__file__).resolve().parent))
import design_tables  # noqa: E402

VERIF = Path(__file__).resolve().parent.parent


def capture(fn) -> str:
    buf = io.StringIO()
    with redirect_stdout(buf):
        fn()
    return buf.getvalue().strip("\n")


def main() -> None:
    p = VERIF / "DESIGN.md"
    s = p.read_text()
    parts = {"seeded": capture(design_tables.seeded), "benign": capture(design_tables.benign), "checks": capture(design_tables.checks)}
    for name, text in parts.items():
        pat = re.compile(rf"<!-- gen:{name} -->.*?<!-- /gen:{name} -->", re.S)
        if not pat.search(s):
            print(f"marker gen:{name} missing")
            continue
        s = pat.sub(lambda m: f"<!-- gen:{name} -->\n{text}\n<!-- /gen:{name} -->", s)
    p.write_text(s)
    print("DESIGN.md generated parts refreshed")


if __name__ == "__main__":
    main()
