#!/usr/bin/env python3
"""Regenerates /verif/MANIFEST.json from the table below (single source of truth for claims)."""
import json
from pathlib import Path

VERIF = Path(__file__).resolve().parent.parent
PY = "/venv/bin/python"

TRUST = (
    "Trusted base: CPython's ast parser; jstat's interpreter semantics for the Python subset pyjelly uses; "
    "the models of protobuf/rdflib/stdlib listed in jstat/models.py and jstat/models_rdflib.py; the Jelly facts in jstat/spec.py. "
    "pyjelly is never imported or executed; an unsupported construct or vanished anchor gives ANALYSIS-ERROR (exit 2), not a verdict."
)

# id -> dict(technique, text, design_ref, note) for claimed checks
CLAIMS: dict[str, dict] = {
    "C01": dict(
        technique="symbolic writer∘reader pipeline: abstract interpretation of serializer and parser source on symbolic statements, composite must normalise to the identity",
        text="Decides a necessary structural condition of the round trip: for every term kind x slot, repeat pattern, enabled/disabled/tight table sizing, framing, entry point and the three generic parsers, "
        "the real serializer source followed by the real parser source maps a symbolic statement sequence to itself (order, length, duplicates, components; xsd:string == plain). "
        "Covers quoted triples, generalized positions and paths the suite never executes. Not decided: equality for arbitrary concrete data, protobuf byte fidelity.",
        design_ref="DESIGN.md §5 C01",
    ),
    "C02": dict(
        technique="symbolic writer∘reader pipeline over a model of rdflib terms/graphs; path rule for graph bracketing; table rule for plugin glue",
        text="Same composite-is-identity rule for RDFLibTermEncoder/RDFLibAdapter over RDF 1.1 kinds, graph names incl. default graph, store and generator input, flat/grouped/non-delimited framings, three parsers; "
        "GraphStream.graph brackets every graph; Graph.serialize/Graph.parse glue delivers into the caller's store. Not decided: rdflib's own store order and literal normalisation.",
        design_ref="DESIGN.md §5 C02",
    ),
    "C03": dict(
        technique="abstract frames emitted by the analysed serializer source are checked by an independent specification state machine (jstat.refdec); typestate/validity rules",
        text="For ~3000 writer configurations of both integrations (all physical types, presets incl. disabled and tight tables, framings, reused streams, namespaces) the abstract stream is valid Jelly for a decoder that shares "
        "no code with pyjelly: options first and repeated unchanged, ids within declared sizes and defined earlier, zero forms, complete first statement/quoted triples, row kinds, bracketing, namespace rows only in v2, and it decodes to the input. "
        "Not decided: byte-level protobuf encoding.",
        design_ref="DESIGN.md §5 C03",
    ),
    "C05": dict(
        technique="least fixpoint of reachable joint writer/reader lookup states (finite abstract domain up to key renaming) computed through the source of the index rules; ordering enumeration",
        text="For table sizes 1..4 (quick) / 1..6 (thorough) and each of the three index rules the closed set of reachable (LookupEncoder, LookupDecoder) states is enumerated through the real source; at every transition the emitted entry id + reference "
        "resolves on the reader to the writer's key, ids lie in [0,size], the writer holds <= size entries. Closure of a finite state space covers histories of any length. Not decided: sizes above the bound (argued by the comparison-only fragment).",
        design_ref="DESIGN.md §5 C05",
    ),
    "C06": dict(
        technique="conditional constant propagation over the complete configuration lattice (abstract interpretation of Stream/FrameFlow/entry-point source), final-state rule",
        text="Decides completely, for every point of the finite lattice {3 stream classes x 8 logical types x delimited x frame sizes x inferred/6 explicit flows x 15 entry points} "
        "with symbolic statements, whether construction raises or every statement row is emitted and the flow is empty when the entry point returns. "
        "Exhaustive over configurations (the suite samples a handful); not decided: that the emitted bytes parse back (C01/C02).",
        design_ref="DESIGN.md §5 C06",
    ),
    "C08": dict(
        technique="constant propagation of the detector over a finite header domain; ground truth derived from the protobuf descriptor; position-tracking I/O rule",
        text="Finite and decided completely: delimited_jelly_hint agrees with the descriptor-derived ground truth on every 3-byte header a valid stream can start with (frame lengths and options-row lengths incl. all 0x0A coincidences, multi-byte varints); "
        "get_options_and_frames leaves the read position unchanged and routes to length-prefixed vs whole-input parsing.",
        design_ref="DESIGN.md §5 C08",
    ),
    "C09": dict(
        technique="I/O-contract taint rule on the resolved receiver class of every read-like call on the parser input (abstract interpretation with an io model)",
        text="The read schedule is the environment's; decided is pyjelly's use of the I/O API for three source classes x both framings x six public parsers: header bytes for the detector must come from an exact-or-EOF read, "
        "no raw read after wrapping, frames read from a buffered object. One known finding (peek(3) on a wrapped raw source). Not decided: third-party file objects, gzip internals.",
        design_ref="DESIGN.md §5 C09",
    ),
    "C13": dict(
        technique="constant propagation over finite enums: decision tables extracted from source vs specification tables",
        text="Finite and decided completely: header field bijection writer->row->reader for all 9 descriptor fields, version rule, all 4x8 physical/logical pairs on construction and parse, size limits on both sides, "
        "strict-gate tables for both integrations x flat/grouped x 8 logical types, and non-interference of the logical type when strict is off.",
        design_ref="DESIGN.md §5 C13",
    ),
    "C14": dict(
        technique="symbolic pipeline for namespace bindings (source -> rows -> reference decoder / real reader -> sink -> re-serialise), guard and order rules",
        text="For both integrations x physical types x sink/grouped/generator input: bound (prefix, IRI) pairs reach the wire, the reader's Prefix events and the sink unchanged and in order, the adapter constructor is applied once, "
        "re-serialisation is a fixpoint, no rows when the option is off, statements unaffected. Not decided: rdflib's default bindings, eviction interplay on concrete data.",
        design_ref="DESIGN.md §5 C14",
    ),
    "C16": dict(
        technique="rejection table: one hand-built abstract violating stream per catalogued class pushed through the parser source; every path must raise before delivering anything for the offending row",
        text="24 violation instances (entry/reference beyond size, never-filled slot, datatype 0 / while disabled, repeated term without previous / in quoted triple, missing options, forbidden row kinds, triple outside graph, unsupported type) "
        "x both integrations x flat/grouped x single/split frames: must raise, must not deliver fabricated items. Not decided: every position x table state of concrete streams.",
        design_ref="DESIGN.md §5 C16",
    ),
}

NOT_YET = "check not built yet (work in progress; see DESIGN.md §5 for the planned rule)"


def main() -> None:
    props = [json.loads(l) for l in (VERIF / "properties.jsonl").read_text().splitlines() if l.strip()]
    checks = []
    na = []
    for p in props:
        pid = p["id"]
        c = CLAIMS.get(pid)
        if c is None:
            na.append({"property_id": pid, "reason": NOT_YET})
            continue
        checks.append(
            {
                "property_id": pid,
                "quick_cmd": f"{PY} -m jstat check {pid} --tier quick",
                "thorough_cmd": f"{PY} -m jstat check {pid} --tier thorough",
                "evidence_file": f"/verif/evidence/{pid}.json",
                "replay_cmd_template": f"{PY} -m jstat replay {{path}}",
                "engine": "jstat",
                "level_claimed": {"category": "other", "text": c["text"], "design_ref": c["design_ref"]},
                "level_note": c.get("note", TRUST),
                "technique": c["technique"],
            }
        )
    man = {
        "version": 1,
        "setup_cmd": f"{PY} -m jstat selftest",
        "hooks": {
            "guard": "JELLY_RDF_PYJELLY_VERIF",
            "enable": "none needed: static analysis reads /repo sources; no instrumentation commits exist",
            "baseline_off_cmd": "cd /repo && /venv/bin/python -m pytest -ra -q -p no:cacheprovider --timeout=900 --continue-on-collection-errors",
            "source_commits": [],
            "add_only": True,
        },
        "engines": [
            {
                "name": "jstat",
                "path": "/verif/jstat",
                "serves_properties": [c["property_id"] for c in checks],
                "kind_free_text": "stdlib-only static analyser for pyjelly: AST front end, protobuf-descriptor decoder, path-sensitive abstract interpreter "
                "(conditional constant propagation with symbolic provenance, decision-vector path enumeration), call-graph/ownership/effect rules",
            }
        ],
        "checks": checks,
        "notes": "All checks are static: they read /repo/pyjelly/**/*.py on every run. Known findings: /verif/known_findings.txt. Design: /verif/DESIGN.md.",
        "not_applicable": na,
    }
    (VERIF / "MANIFEST.json").write_text(json.dumps(man, indent=1))
    print(f"MANIFEST: {len(checks)} checks, {len(na)} not applicable")


if __name__ == "__main__":
    main()
