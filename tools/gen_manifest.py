#!/usr/bin/env python3
"""Regenerates /verif/MANIFEST.json from the table below (single source of truth for claims)."""
import json
from pathlib import Path

VERIF = Path(__file__).resolve().parent.parent
PY = "/venv/bin/python"

TRUST = (
    "Trusted base: CPython's ast parser; jstat's interpreter semantics for the Python subset pyjelly uses (cross-checked against CPython by `jstat langtest`); "
    "the models of protobuf/rdflib/stdlib in jstat/models.py, jstat/models_std.py and jstat/models_rdflib.py; the Jelly facts in jstat/spec.py. "
    "pyjelly is never imported or executed; an unsupported construct or vanished anchor gives ANALYSIS-ERROR (exit 2), not a verdict."
)

# id -> dict(technique, text, design_ref, note) for claimed checks
CLAIMS: dict[str, dict] = {
    "C01": dict(
        technique="symbolic writer∘reader pipeline: abstract interpretation of the serializer and parser source on symbolic statements; the composite must normalise to the identity and agree with an independent specification decoder",
        text="Decides a necessary structural condition of the round trip: for every term kind x slot, repeat pattern, shared prefixes/names, duplicates, deep quoted triples, separator-less IRIs, literals differing only in case, enabled/disabled/tight table sizing, framing, entry point (sink, generator, grouped, flat) and the three generic parsers, "
        "the real serializer source followed by the real parser source maps a symbolic statement sequence to itself (order, length, duplicates, components; xsd:string == plain). Not decided: equality for arbitrary concrete data, protobuf byte fidelity.",
        design_ref="DESIGN.md §5 C01, §11.2",
    ),
    "C02": dict(
        technique="symbolic writer∘reader pipeline over an executable model of rdflib terms/graphs (rdflib's own ==/hash, set-semantics stores); path rule for graph bracketing; table rule for plugin glue",
        text="Same composite-is-identity rule for RDFLibTermEncoder/RDFLibAdapter over RDF 1.1 kinds, graph names incl. default graph, store/generator/bare-tuple/flat-entry input, flat/grouped/non-delimited framings, three parsers; GraphStream.graph brackets every graph; Graph.serialize/Graph.parse glue delivers into the caller's store. "
        "One known finding (language-tag case, F13). Not decided: rdflib's own store order and literal normalisation.",
        design_ref="DESIGN.md §5 C02, §11.2, §11.7",
    ),
    "C03": dict(
        technique="abstract frames emitted by the analysed serializer source are judged by an independent specification state machine (jstat.refdec): typestate/validity rules + decoding",
        text="For ~5000 writer configurations of both integrations (all physical types, presets incl. disabled and tight tables, framings, reused streams, namespaces) the abstract stream is valid Jelly for a decoder that shares no code with pyjelly: options first and repeated unchanged, ids within declared sizes and defined earlier, zero forms, complete first statement/quoted triples, row kinds, "
        "bracketing, namespace rows only in v2 streams, and it decodes to the input. One known finding (F13). Not decided: byte-level protobuf encoding.",
        design_ref="DESIGN.md §5 C03, §11.2",
    ),
    "C04": dict(
        technique="foreign-producer streams from a descriptor-built reference encoder (each validated by the reference decoder) pushed through the parser source; descriptor-driven exhaustiveness of dispatch tables",
        text="A reference encoder enumerates legal producer choices (4 eviction policies, zero/explicit/alternating ids, 3 IRI split strategies, repeated terms on/off, lazy/early/redundant entries, 4 framings incl. empty frames with metadata and repeated options rows, delimited or not, namespaces, many datatypes, falsy literal graph names) over statement sequences that force hits, misses and evictions; "
        "every stream is proven valid by jstat.refdec and must decode through pyjelly's parser source to the statements it denotes. Row/term dispatch tables are exhaustive w.r.t. the descriptor; a feature an integration lacks (quoted triples through rdflib) is refused, not faked. Thorough tier: the full product of 2592 producer policies. Not decided: an actual third-party encoder end to end.",
        design_ref="DESIGN.md §5 C04, §11.2",
    ),
    "C05": dict(
        technique="least fixpoint of reachable joint writer/reader lookup states (finite abstract domain up to key renaming) computed through the source of the index rules; ordering enumeration",
        text="For table sizes 1..5 (quick) / 1..6 (thorough) and each of the three index rules the closed set of reachable (LookupEncoder, LookupDecoder) states is enumerated through the real source; at every transition the emitted entry id + reference resolves on the reader to the writer's key, ids lie in [0,size], the writer holds <= size entries. "
        "The same closure is computed one level up (TermEncoder.encode_iri/encode_literal rows fed to Decoder, tables of size 1..3, key alphabet size+2). Closure of a finite state space covers histories of any length. A hit refreshes the entry when driven through TermEncoder.encode_iri/encode_literal for all three tables, and on every path on which the library itself pairs encoder and options the size announced in the options row is the size of the writer's table. Not decided: sizes above the bound (argued by the comparison-only fragment).",
        design_ref="DESIGN.md §5 C05, §11.2",
    ),
    "C06": dict(
        technique="conditional constant propagation over the complete configuration lattice (abstract interpretation of Stream/FrameFlow/entry-point source), final-state rule, independent decoding of the abstract output",
        text="Decides completely, for every point of the finite lattice {3 stream classes x 8 logical types x delimited x frame sizes x inferred/6 explicit flows x namespace declarations x 15 entry points} with symbolic statements, whether construction raises, or every row that entered the flow reached the caller, the flow is empty when the entry point returns and "
        "an independent specification decoder reads exactly the submitted statements; the rdflib plugin writes length-prefixed frames iff delimited for every logical type; a 3-term statement among quads is refused, never silently truncating the output. Not decided: protobuf byte fidelity.",
        design_ref="DESIGN.md §5 C06, §11.2",
    ),
    "C07": dict(
        technique="differential constant propagation over frame partitionings of one abstract row sequence; loop-shape / linear-use rules on grouped parser traces; frame-count rule on grouped writer traces",
        text="The same row sequence cut six ways (quick) or at every single cut, every single cut with an empty frame and every nearby pair of cuts (thorough) parses identically through the flat parsers of both integrations; grouped parsing yields one sink per frame in order with that frame's metadata visible, read by a streaming consumer; "
        "grouped writing with grouped logical types emits one frame per non-empty sink/graph (sink-size patterns incl. empty sinks, explicit flow objects). One known finding (F12: leading empty sink). Not decided: all re-partitionings of concrete streams.",
        design_ref="DESIGN.md §5 C07, §11.2, §11.7",
    ),
    "C08": dict(
        technique="constant propagation of the detector over a finite header domain; ground truth derived from the protobuf descriptor; position-tracking I/O rule; varint table for hand-made prefixes",
        text="Finite and decided completely: delimited_jelly_hint agrees with the descriptor-derived ground truth on every 3-byte header a valid stream can start with (frame and options-row lengths incl. all 0x0A coincidences, multi-byte varints); get_options_and_frames leaves the read position unchanged and routes to length-prefixed vs whole-input parsing, incl. empty frames; "
        "write_delimited writes varint(len)+frame at every varint boundary; the rdflib plugin's write mode follows params.delimited; the mode reported for a stream never depends on streams parsed before; every public parser classifies a payload handed over after an application header by the bytes at that position.",
        design_ref="DESIGN.md §5 C08, §11.2",
    ),
    "C09": dict(
        technique="I/O-contract taint rule on the resolved receiver class of every read-like call on the parser input (abstract interpretation with an io model); short-read differential",
        text="The read schedule is the environment's; decided is pyjelly's use of the I/O API for four source classes (BytesIO, seekable/non-seekable caller-supplied BufferedReader over a short-read raw source, raw non-seekable) x framings x six public parsers: header bytes for the detector come from an exact-or-EOF read, no raw read after wrapping, frames come from exact reads on a buffered object; "
        "with 1-2 bytes delivered to the first short-able read, more bytes than requested handed to the probe on 0x0A-coincidence headers, or a source handed over at a non-zero position, the same frames are parsed in the same mode; a wrapper that has read from an unbuffered source is never dropped while the source is read again. One known finding (peek(3) on a wrapped raw source). Not decided: third-party file objects, gzip internals.",
        design_ref="DESIGN.md §5 C09, §11.2",
    ),
    "C10": dict(
        technique="laziness/order rule on parser traces with a frame source that ends or fails after j frames",
        text="protobuf's rejection of a torn frame is trusted; decided is that the four streaming parsers hand the caller exactly the statements of the j completely delivered frames, in order, before ending or raising (no materialisation, no read-ahead), for j in {0,1,2,4} (quick) / 0..7 (thorough) x EOF/torn x 3 physical types x seekable/raw/buffered non-seekable sources.",
        design_ref="DESIGN.md §5 C10, §11.2",
    ),
    "C11": dict(
        technique="producer/consumer interleaving observed on abstract traces (instrumented input generator, frame-by-frame consumer, abstract sinks); constant propagation of frame_size into the flow",
        text="For flat delimited serialisation through 4 frame-generator entry points and flat_stream_to_file with raw/buffered/in-memory/duck-typed sinks x frame sizes x explicit/inferred logical type and caller-supplied flows: fewer than frame_size rows pending at every pull from the second statement on, each frame reaches the caller (or the caller's sink) before more input is consumed, "
        "no read-ahead, the flow's frame_size equals options.frame_size; parsers yield all statements of delivered frames before requesting the next frame. Not decided: real thread schedules and timing.",
        design_ref="DESIGN.md §5 C11, §11.2",
    ),
    "C12": dict(
        technique="whole-package ownership and effect analysis: shared-heap tagging on traces, syntactic sweep of all functions, instance-state disjointness, default-value table, nondeterminism taint, interleaving differential with an independent content oracle, class-definition hooks",
        text="No import-time object is mutated on any serialise/parse trace nor by any function syntactically; two instances of each stateful construction share no mutable object; all parameter/field defaults are immutable or factories; no hash/id/random/time/set-iteration/non-deterministic SerializeToString on the paths; the metadata map is never written; "
        "two parsers stepped alternately and two serializers driven under every interleaving of their statements (thorough: all 20 schedules; also one statement encoded in the middle of another) produce what each produces alone and decode to their own inputs (memoisation modelled with the program's own ==); a user subclass never rewires import-time tables; the first frame of a stream created after a stream differing in exactly one header field (11 fields, both orders) is what it writes in a fresh process. Not decided: rdflib's iteration order, protobuf internals, C-level parallelism.",
        design_ref="DESIGN.md §5 C12, §11.2",
    ),
    "C13": dict(
        technique="constant propagation over finite enums: decision tables extracted from source vs specification tables",
        text="Finite and decided completely: header field bijection writer->row->reader for all 9 descriptor fields (explicit and inferred flows), announced table sizes == the encoder's table sizes on every library-chosen pairing of encoder and options, version rule, all 4x8 physical/logical pairs on construction and parse, size limits on both sides, strict-gate tables for both integrations x flat/grouped x 8 logical types, and non-interference of the logical type when strict is off.",
        design_ref="DESIGN.md §5 C13, §11.2",
    ),
    "C14": dict(
        technique="symbolic pipeline for namespace bindings (source -> rows -> reference decoder / real reader -> sink -> re-serialise), guard and order rules",
        text="For both integrations x physical types x sink/grouped/generator input x frame sizes x presets incl. no prefix table: bound (prefix, IRI) pairs reach the wire, the reader's Prefix events and the sink unchanged and in order (no reordering construct on the path), the adapter constructor is applied once, re-serialisation is a fixpoint, no rows when the option is off, statements unaffected; "
        "a target that already binds the namespace ends up with the declared prefix; a reused reader sink reports the file's bindings; declarations falling between two uses of one IRI (second sink of a grouped stream) change nothing. Not decided: rdflib's default bindings, eviction interplay on concrete data.",
        design_ref="DESIGN.md §5 C14, §11.2",
    ),
    "C15": dict(
        technique="sibling cross-check of extracted semantics: six parsers on the same abstract frames (pyjelly's and a foreign producer's); frames of the two serializers on corresponding symbolic data",
        text="For RDF 1.1 corpora over all physical types: the flat, grouped (streaming consumer, concatenated) and to-graph parsers of both integrations return corresponding statements for the same frames; generic and rdflib serializers emit structurally identical frames for corresponding data and equal options (generator input for all types, containers for TRIPLES, flat entry points, logical subtypes). "
        "Two known findings (rdflib GRAPHS writer regroups a quad generator through a Dataset; F13). Not decided: byte equality on concrete inputs.",
        design_ref="DESIGN.md §5 C15, §11.2",
    ),
    "C16": dict(
        technique="rejection table: one hand-built abstract violating stream per catalogued class pushed through the parser source; every path must raise before delivering anything for the offending row",
        text="30 violation instances (entry/reference beyond size, never-filled slot, datatype 0 / while disabled, prefix id or prefix entry while disabled, repeated term without previous / in quoted triple, missing options, forbidden row kinds, triple outside graph, unsupported type/version, empty row) x both integrations x flat/grouped x single/split/per-row frames x with/without a stream parsed earlier in the process: "
        "must raise, must not deliver fabricated items. Not decided: every position x table state of concrete streams.",
        design_ref="DESIGN.md §5 C16, §11.2",
    ),
    "C17": dict(
        technique="taint + dominance of input-sized allocations on parser traces; recursion-shape rule via message parent pointers; must-progress analysis of while loops; regular-expression blow-up detection over re._parser trees",
        text="Wall time, RSS and interpreter crashes are runtime quantities and are not decided. Decided: no allocation sized by an options-row field or an entry id above 4096 happens before rejection; the only recursion on the parse path descends into strict sub-messages; every while loop on the parse path steps a counter of its condition or consumes input on every path back, (peek/tell do not count as consuming), the frame iterator stops at EOF, "
        "no lazy iterator is nested once per input frame, and no regular expression with nested/overlapping quantifiers is applied to input text.",
        design_ref="DESIGN.md §5 C17, §11.2",
    ),
    "C18": dict(
        technique="undersized-table configurations pushed through the serializer source; abstract stream decoded by the reference decoder (refuse-or-correct rule)",
        text="For enabled tables smaller than one statement needs (prefix 1..4, datatype 1..2, names 8..14 with nested quoted triples; both integrations) serialisation must raise or the stream must decode to the input; exact-size controls must succeed, including every 2-statement history over 5 keys on a 3-slot prefix/datatype table and single-namespace data with '/' inside fragments on a 1-slot prefix table. "
        "One known finding (LRU eviction cannot refuse). Not decided: which concrete statements overflow.",
        design_ref="DESIGN.md §5 C18, §11.2",
    ),
    "C19": dict(
        technique="row-level audit of abstract emitted streams by the reference decoder: redundant-entry, missed-elision, missed-zero counters, graph-start count",
        text="Over ~2900 writer configurations of both integrations (incl. namespace declarations and graph names reused as terms with and without a prefix table): no entry row for a resident string, no term written that equals the previous statement's term in its slot, zero forms wherever the delta rule allows, one graph start per run of equal graph names (generic writer; rdflib writer on inputs whose graph names form single runs). Integer thresholds written in the source (batch sizes, default frame size) are treated as parameters and scaled below the sequence length (jstat/tunables.py). Two known findings (F13 via C02/C03/C15; F14: plain vs xsd:string written again). Not decided: sizes of concrete outputs.",
        design_ref="DESIGN.md §5 C19, §11.2",
    ),
    "C20": dict(
        technique="exception-safety (effect) analysis on abstract traces: catch-and-continue driver, fault at every slot x cause, result judged by the reference decoder",
        text="For 3 stream methods x both encoders x causes {unsupported term, typed literal with disabled table, short tuple, interrupted term iterator, failure after already-known terms} x slots {s,p,o,g,nested} x frame sizes: after the rejected statement the frames written are valid and decode to exactly the accepted statements, or the stream refuses further use; "
        "the same through the integrations' stream_frames driver used again on the stream, and with GraphStream graph generators obtained before the failure and consumed after it. Not decided: every position in arbitrary concrete sequences.",
        design_ref="DESIGN.md §5 C20, §11.2",
    ),
}

NOT_YET = "check not built yet (work in progress; see DESIGN.md §5 for the planned rule)"


def main() -> None:
    props = [json.loads(l) for l in (VERIF / "properties.jsonl").read_text().splitlines() if l.strip()]
    checks = []
    na = []
    for p in props:
        pid = p["id"]
        c = CLAIMS.get(pid)
        if c is None:
            na.append({"property_id": pid, "reason": NOT_YET})
            continue
        checks.append(
            {
                "property_id": pid,
                "quick_cmd": f"{PY} -m jstat check {pid} --tier quick",
                "thorough_cmd": f"{PY} -m jstat check {pid} --tier thorough",
                "evidence_file": f"/verif/evidence/{pid}.json",
                "replay_cmd_template": f"{PY} -m jstat replay {{path}}",
                "engine": "jstat",
                "level_claimed": {"category": "other", "text": c["text"], "design_ref": c["design_ref"]},
                "level_note": c.get("note", TRUST),
                "technique": c["technique"],
            }
        )
    man = {
        "version": 1,
        "setup_cmd": f"{PY} -m jstat selftest",
        "hooks": {
            "guard": "JELLY_RDF_PYJELLY_VERIF",
            "enable": "none needed: static analysis reads /repo sources; no instrumentation commits exist",
            "baseline_off_cmd": "cd /repo && /venv/bin/python -m pytest -ra -q -p no:cacheprovider --timeout=900 --continue-on-collection-errors",
            "source_commits": [],
            "add_only": True,
        },
        "engines": [
            {
                "name": "jstat",
                "path": "/verif/jstat",
                "serves_properties": [c["property_id"] for c in checks],
                "kind_free_text": "stdlib-only static analyser for pyjelly: AST front end, protobuf-descriptor decoder, path-sensitive abstract interpreter "
                "(conditional constant propagation with symbolic provenance, decision-vector path enumeration), call-graph/ownership/effect rules",
            }
        ],
        "checks": checks,
        "notes": "All checks are static: they read /repo/pyjelly/**/*.py on every run. Known findings: /verif/known_findings.txt. Design: /verif/DESIGN.md (as built: §11). Seeded changes: /verif/seeded, behaviour-preserving corpus: /verif/benign.",
        "not_applicable": na,
    }
    (VERIF / "MANIFEST.json").write_text(json.dumps(man, indent=1))
    print(f"MANIFEST: {len(checks)} checks, {len(na)} not applicable")


if __name__ == "__main__":
    main()
