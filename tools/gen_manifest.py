#!/usr/bin/env python3
"""Regenerates /verif/MANIFEST.json from the table below (single source of truth for claims)."""
import json
from pathlib import Path

VERIF = Path(__file__).resolve().parent.parent
PY = "/venv/bin/python"

TRUST = (
    "Trusted base: CPython's ast parser; jstat's interpreter semantics for the Python subset pyjelly uses; "
    "the models of protobuf/rdflib/stdlib listed in jstat/models.py and jstat/models_rdflib.py; the Jelly facts in jstat/spec.py. "
    "pyjelly is never imported or executed; an unsupported construct or vanished anchor gives ANALYSIS-ERROR (exit 2), not a verdict."
)

# id -> dict(technique, text, design_ref, note) for claimed checks
CLAIMS: dict[str, dict] = {
    "C06": dict(
        technique="conditional constant propagation over the complete configuration lattice (abstract interpretation of Stream/FrameFlow/entry-point source), final-state rule",
        text="Decides completely, for every point of the finite lattice {3 stream classes x 8 logical types x delimited x frame sizes x inferred/7 explicit flows x 15 entry points} "
        "with symbolic statements, whether construction raises or every statement row is emitted and the flow is empty when the entry point returns. "
        "Exhaustive over configurations (what the suite samples 4 of); not decided: that the emitted bytes parse back (C01/C02).",
        design_ref="DESIGN.md §5 C06",
    ),
}

NOT_YET = "check not built yet (work in progress; see DESIGN.md §5 for the planned rule)"


def main() -> None:
    props = [json.loads(l) for l in (VERIF / "properties.jsonl").read_text().splitlines() if l.strip()]
    checks = []
    na = []
    for p in props:
        pid = p["id"]
        c = CLAIMS.get(pid)
        if c is None:
            na.append({"property_id": pid, "reason": NOT_YET})
            continue
        checks.append(
            {
                "property_id": pid,
                "quick_cmd": f"{PY} -m jstat check {pid} --tier quick",
                "thorough_cmd": f"{PY} -m jstat check {pid} --tier thorough",
                "evidence_file": f"/verif/evidence/{pid}.json",
                "replay_cmd_template": f"{PY} -m jstat replay {{path}}",
                "engine": "jstat",
                "level_claimed": {"category": "other", "text": c["text"], "design_ref": c["design_ref"]},
                "level_note": c.get("note", TRUST),
                "technique": c["technique"],
            }
        )
    man = {
        "version": 1,
        "setup_cmd": f"{PY} -m jstat selftest",
        "hooks": {
            "guard": "JELLY_RDF_PYJELLY_VERIF",
            "enable": "none needed: static analysis reads /repo sources; no instrumentation commits exist",
            "baseline_off_cmd": "cd /repo && /venv/bin/python -m pytest -ra -q -p no:cacheprovider --timeout=900 --continue-on-collection-errors",
            "source_commits": [],
            "add_only": True,
        },
        "engines": [
            {
                "name": "jstat",
                "path": "/verif/jstat",
                "serves_properties": [c["property_id"] for c in checks],
                "kind_free_text": "stdlib-only static analyser for pyjelly: AST front end, protobuf-descriptor decoder, path-sensitive abstract interpreter "
                "(conditional constant propagation with symbolic provenance, decision-vector path enumeration), call-graph/ownership/effect rules",
            }
        ],
        "checks": checks,
        "notes": "All checks are static: they read /repo/pyjelly/**/*.py on every run. Known findings: /verif/known_findings.txt. Design: /verif/DESIGN.md.",
        "not_applicable": na,
    }
    (VERIF / "MANIFEST.json").write_text(json.dumps(man, indent=1))
    print(f"MANIFEST: {len(checks)} checks, {len(na)} not applicable")


if __name__ == "__main__":
    main()
