#!/usr/bin/env python3
"""Copy confirmed seeded changes into /verif/seeded/<id>/ with meta.json, and print the DESIGN table.

usage: seed_collect.py <seed root (/tmp/seed)>   (expects <root>/results/*.json from seed_eval_all.py)
"""
import json
import re
import shutil
import sys
from pathlib import Path

VERIF = Path(__file__).resolve().parent.parent
root = Path(sys.argv[1] if len(sys.argv) > 1 else "/tmp/seed")
dest = VERIF / "seeded"
dest.mkdir(exist_ok=True)
rows = []
for rf in sorted((root / "results").glob("*.json")):
    r = json.loads(rf.read_text())
    name = rf.stem  # C05-change2
    pid, ch = name.split("-", 1)
    sid = f"{pid}-{ch[-1]}" if ch.startswith("change") else f"{pid}-{ch[:2]}-{ch[-1]}"
    src = root / pid / "_seed" / ch
    if not src.exists():
        continue
    suite_ok = bool(r.get("suite")) and r["suite"]["exit"] == 0 and any("487 passed" in x for x in r["suite"].get("summary", []))
    demo_ok = (r.get("demo_clean") or {}).get("exit") == 0 and (r.get("demo_patched") or {}).get("exit") not in (0, None)
    confirmed = suite_ok and demo_ok and "error" not in r
    d = dest / sid
    if not confirmed:
        rows.append((pid, ch, "NOT CONFIRMED", r.get("error", ""), [], []))
        continue
    d.mkdir(exist_ok=True)
    for fn in ("patch.diff", "demo.py", "notes.md"):
        if (src / fn).exists():
            shutil.copy(src / fn, d / fn)
    notes = (src / "notes.md").read_text() if (src / "notes.md").exists() else ""
    needs = ""
    m = re.search(r"(?im)^[-*\s]*(?:\*\*)?(?:needs?|needed to manifest|what it needs|manifests when)[^:\n]*:?\**\s*(.+)$", notes)
    if m:
        needs = m.group(1).strip()[:400]
    files = []
    for line in (src / "patch.diff").read_text().splitlines():
        if line.startswith("+++ b/"):
            files.append(line[6:])
    meta = {
        "id": sid,
        "round": 1 if ch.startswith("change") else int(ch[1]),
        "breaks_property": pid,
        "files_changed": files,
        "needs_to_manifest": needs or "see notes.md",
        "produced_by": "independent sub-agent given only the property text and a scratch git worktree of /repo (no access to /verif)",
        "confirmed": {
            "how": "tools/seed_eval.py: fresh scratch worktree of /repo HEAD, demo.py on the clean tree, git apply patch.diff, demo.py again, full test suite, then every quick check with JSTAT_REPO pointing at the patched worktree; worktree removed afterwards",
            "suite_with_change": r["suite"]["summary"],
            "demo_on_clean_tree_exit": r["demo_clean"]["exit"],
            "demo_with_change_exit": r["demo_patched"]["exit"],
            "demo_with_change_tail": r["demo_patched"]["tail"][-300:],
        },
        "checks_run_in_the_final_evaluation": r.get("checks_run", sorted(r.get("checks", {}))),
        "checks_that_fire": r.get("fired", []),
        "checks_that_cannot_analyse_the_change": r.get("errors", []),
        "first_report": {p: c["lines"][:1] for p, c in r.get("checks", {}).items() if c["exit"] == 1},
    }
    (d / "meta.json").write_text(json.dumps(meta, indent=1))
    rows.append((pid, ch, "confirmed", needs[:110], r.get("fired", []), r.get("errors", [])))

print("| seed | target | files | caught by | cannot analyse |")
print("|------|--------|-------|-----------|----------------|")
for pid, ch, st, needs, fired, errs in rows:
    sid = f"{pid}-{ch[-1]}" if ch.startswith("change") else f"{pid}-{ch[:2]}-{ch[-1]}"
    d = dest / sid
    files = ""
    if (d / "meta.json").exists():
        files = ", ".join(Path(f).name for f in json.loads((d / "meta.json").read_text())["files_changed"])
    own = "**" + pid + "**" if pid in fired else ""
    others = ", ".join(x for x in fired if x != pid)
    caught = ", ".join(x for x in (own, others) if x) or ("— (missed)" if st == "confirmed" else st)
    print(f"| {sid} | {pid} | {files} | {caught} | {', '.join(errs) if len(errs) < 8 else str(len(errs)) + ' checks'} |")
