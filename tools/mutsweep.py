#!/usr/bin/env python3
"""Mechanical mutation sweep: first-order syntactic mutants of pyjelly, filtered by the unedited test suite, then
judged by the checks.  A mutant that passes the suite but is caught by no check is either equivalent or a gap; the
survivors are listed for triage.  (Evaluation tooling: it *runs* the suite and the static checks; no check uses it.)

usage: mutsweep.py generate <out.json>                 list the mutants (file, line, operator, replacement)
       mutsweep.py run <mutants.json> <results_dir> [--par N] [--only-survivors-of-suite]
       mutsweep.py report <results_dir>
Scratch copies live under a mkdtemp directory outside /repo and /verif and are removed after each mutant.
"""
from __future__ import annotations

import ast
import json
import os
import shutil
import subprocess
import sys
import tempfile
from concurrent.futures import ThreadPoolExecutor
from pathlib import Path

VERIF = Path(__file__).resolve().parent.parent
REPO = Path("/repo")
PY = "/venv/bin/python"
ALL = [f"C{i:02d}" for i in range(1, 21)]
SKIP_FILES = ("rdf_pb2",)

CMP = {ast.Lt: "<", ast.LtE: "<=", ast.Gt: ">", ast.GtE: ">=", ast.Eq: "==", ast.NotEq: "!=", ast.Is: "is", ast.IsNot: "is not", ast.In: "in", ast.NotIn: "not in"}
CMP_SWAP = {"<": "<=", "<=": "<", ">": ">=", ">=": ">", "==": "!=", "!=": "==", "is": "is not", "is not": "is", "in": "not in", "not in": "in"}
BIN = {ast.Add: "+", ast.Sub: "-", ast.Mult: "*", ast.FloorDiv: "//", ast.Mod: "%", ast.BitAnd: "&", ast.BitOr: "|", ast.LShift: "<<", ast.RShift: ">>"}
BIN_SWAP = {"+": "-", "-": "+", "*": "+", "//": "*", "%": "//", "&": "|", "|": "&", "<<": ">>", ">>": "<<"}


def _offset(lines: list[str], lineno: int, col: int) -> int:
    return sum(len(l) for l in lines[: lineno - 1]) + len(lines[lineno - 1].encode()[:col].decode())


def mutants_of(path: Path) -> list[dict]:
    src = path.read_text()
    tree = ast.parse(src)
    lines = src.splitlines(keepends=True)
    out: list[dict] = []

    def span(node: ast.AST) -> tuple[int, int]:
        return _offset(lines, node.lineno, node.col_offset), _offset(lines, node.end_lineno, node.end_col_offset)

    def add(kind: str, node: ast.AST, start: int, end: int, new: str) -> None:
        if src[start:end] == new:
            return
        out.append({"file": str(path.relative_to(REPO)), "line": node.lineno, "op": kind, "old": src[start:end][:60], "new": new[:60], "start": start, "end": end, "text": new})

    in_docstring_or_annotation: set[int] = set()
    for node in ast.walk(tree):
        if isinstance(node, (ast.FunctionDef, ast.ClassDef, ast.Module)):
            body = node.body
            if body and isinstance(body[0], ast.Expr) and isinstance(body[0].value, ast.Constant) and isinstance(body[0].value.value, str):
                for sub in ast.walk(body[0]):
                    in_docstring_or_annotation.add(id(sub))
        if isinstance(node, ast.AnnAssign):
            for sub in ast.walk(node.annotation):
                in_docstring_or_annotation.add(id(sub))
        if isinstance(node, ast.arg) and node.annotation is not None:
            for sub in ast.walk(node.annotation):
                in_docstring_or_annotation.add(id(sub))
        if isinstance(node, ast.FunctionDef) and node.returns is not None:
            for sub in ast.walk(node.returns):
                in_docstring_or_annotation.add(id(sub))
    for node in ast.walk(tree):
        if id(node) in in_docstring_or_annotation:
            continue
        if isinstance(node, ast.Compare) and len(node.ops) == 1 and type(node.ops[0]) in CMP:
            a_end = span(node.left)[1]
            b_start = span(node.comparators[0])[0]
            between = src[a_end:b_start]
            op = CMP[type(node.ops[0])]
            if op in between:
                i = between.index(op)
                add("cmp", node, a_end + i, a_end + i + len(op), CMP_SWAP[op])
        elif isinstance(node, ast.BoolOp) and len(node.values) >= 2:
            a_end = span(node.values[0])[1]
            b_start = span(node.values[1])[0]
            between = src[a_end:b_start]
            op = "and" if isinstance(node.op, ast.And) else "or"
            if op in between:
                i = between.index(op)
                add("bool", node, a_end + i, a_end + i + len(op), "or" if op == "and" else "and")
        elif isinstance(node, ast.BinOp) and type(node.op) in BIN:
            a_end = span(node.left)[1]
            b_start = span(node.right)[0]
            between = src[a_end:b_start]
            op = BIN[type(node.op)]
            if op in between and not (isinstance(node.left, ast.Constant) and isinstance(node.left.value, str)):
                i = between.index(op)
                add("arith", node, a_end + i, a_end + i + len(op), BIN_SWAP[op])
        elif isinstance(node, ast.UnaryOp) and isinstance(node.op, ast.Not):
            s0, e0 = span(node)
            s1, _ = span(node.operand)
            add("not", node, s0, s1, "")
        elif isinstance(node, ast.Constant) and isinstance(node.value, bool):
            s0, e0 = span(node)
            add("const", node, s0, e0, "False" if node.value else "True")
        elif isinstance(node, ast.Constant) and isinstance(node.value, int) and not isinstance(node.value, bool) and abs(node.value) < 5000:
            s0, e0 = span(node)
            add("const", node, s0, e0, str(node.value + 1))
            if node.value > 0:
                add("const", node, s0, e0, str(node.value - 1))
        elif isinstance(node, ast.Return) and node.value is not None and not (isinstance(node.value, ast.Constant) and node.value.value is None):
            s0, e0 = span(node.value)
            add("return", node, s0, e0, "None")
        elif isinstance(node, ast.If) and not node.orelse:
            s0, e0 = span(node.test)
            add("if-true", node, s0, e0, "True")
            add("if-false", node, s0, e0, "False")
        elif isinstance(node, ast.Expr) and isinstance(node.value, ast.Call):
            s0, e0 = span(node)
            add("del-call", node, s0, e0, "pass")
        elif isinstance(node, (ast.Assign, ast.AugAssign)) and node.lineno == node.end_lineno:
            tgt = node.targets[0] if isinstance(node, ast.Assign) else node.target
            if isinstance(tgt, (ast.Attribute, ast.Subscript)):
                s0, e0 = span(node)
                add("del-assign", node, s0, e0, "pass")
        elif isinstance(node, ast.Call) and len(node.args) == 2 and not node.keywords and not any(isinstance(a, ast.Starred) for a in node.args):
            (s0, e0), (s1, e1) = span(node.args[0]), span(node.args[1])
            a_txt, b_txt = src[s0:e0], src[s1:e1]
            if a_txt != b_txt:
                add("swap-args", node, s0, e1, b_txt + src[e0:s1] + a_txt)
        elif isinstance(node, ast.Break):
            s0, e0 = span(node)
            add("break-continue", node, s0, e0, "continue")
    if os.environ.get("MUT_OPS") == "order":
        out = []  # second operator set only
        for node in ast.walk(tree):
            body_lists = []
            for attr in ("body", "orelse", "finalbody"):
                b = getattr(node, attr, None)
                if isinstance(b, list) and b and isinstance(b[0], ast.stmt):
                    body_lists.append(b)
            for b in body_lists:
                for x, y in zip(b, b[1:]):
                    simple = (ast.Assign, ast.AugAssign, ast.Expr, ast.AnnAssign)
                    if isinstance(x, simple) and isinstance(y, simple) and id(x) not in in_docstring_or_annotation and not (isinstance(x, ast.Expr) and isinstance(x.value, ast.Constant)):
                        (s0, e0), (s1, e1) = span(x), span(y)
                        add("swap-stmts", x, s0, e1, src[s1:e1] + src[e0:s1] + src[s0:e0])
            if isinstance(node, ast.FunctionDef):
                params = [a.arg for a in node.args.posonlyargs + node.args.args + node.args.kwonlyargs if a.arg not in ("self", "cls")]
                locals_ = list(dict.fromkeys(params + [t.id for n2 in ast.walk(node) if isinstance(n2, ast.Assign) for t in n2.targets if isinstance(t, ast.Name)]))
                for call in ast.walk(node):
                    if isinstance(call, ast.Call):
                        for a in call.args:
                            if isinstance(a, ast.Name) and a.id in locals_ and len(locals_) > 1:
                                alt = locals_[(locals_.index(a.id) + 1) % len(locals_)]
                                s0, e0 = span(a)
                                add("name-swap", a, s0, e0, alt)
    return out


def generate(out_path: Path) -> None:
    muts: list[dict] = []
    for p in sorted((REPO / "pyjelly").rglob("*.py")):
        if any(s in p.name for s in SKIP_FILES) or "_proto" in p.parts:
            continue
        try:
            ms = mutants_of(p)
        except SyntaxError:
            continue
        muts += ms
    for i, m in enumerate(muts):
        m["id"] = i
    out_path.write_text(json.dumps(muts, indent=0))
    by = {}
    for m in muts:
        by[m["op"]] = by.get(m["op"], 0) + 1
    print(len(muts), "mutants", by)


def sh(cmd: list[str], cwd: Path, env: dict | None = None, timeout: int = 1800) -> tuple[int, str]:
    try:
        r = subprocess.run(cmd, cwd=cwd, env=env, capture_output=True, text=True, timeout=timeout)
        return r.returncode, r.stdout + r.stderr
    except subprocess.TimeoutExpired:
        return 124, "timeout"


def run_one(m: dict, results: Path, checks: list[str]) -> dict:
    out_file = results / f"m{m['id']:04d}.json"
    if out_file.exists():
        return json.loads(out_file.read_text())
    tmp = Path(tempfile.mkdtemp(prefix="jstat-mut-"))
    wt = tmp / "wt"
    res = {k: m[k] for k in ("id", "file", "line", "op", "old", "new")}
    try:
        shutil.copytree(REPO, wt, symlinks=True, ignore=shutil.ignore_patterns(".git", "__pycache__", ".pytest_cache", ".mypy_cache", ".ruff_cache"))
        target = wt / m["file"]
        src = target.read_text()
        new_src = src[: m["start"]] + m["text"] + src[m["end"] :]
        try:
            compile(new_src, str(target), "exec")
        except SyntaxError:
            res["verdict"] = "does-not-compile"
            return res
        target.write_text(new_src)
        rc, out = sh([PY, "-m", "pytest", "-q", "-p", "no:cacheprovider", "--timeout=300", "-x"], wt, None, 900)
        summary = [l for l in out.splitlines() if " passed" in l or " failed" in l or "error" in l.lower()][-1:]
        res["suite"] = {"exit": rc, "summary": summary}
        if rc != 0:
            res["verdict"] = "killed-by-suite"
            return res
        env = dict(os.environ, JSTAT_REPO=str(wt), JSTAT_EVIDENCE_DIR=str(tmp / "_ev"), JSTAT_REPLAY_DIR=str(tmp / "_rp"))

        def chk(pid: str) -> tuple[str, int, list[str]]:
            rc2, out2 = sh([PY, "-m", "jstat", "check", pid, "--tier", "quick"], VERIF, env, 1200)
            return pid, rc2, [l.strip()[:300] for l in out2.splitlines() if " @ " in l or l.startswith("ANALYSIS-ERROR")][:2]

        with ThreadPoolExecutor(max_workers=int(os.environ.get("SEED_CHECK_PAR", "2"))) as ex:
            rs = list(ex.map(chk, checks))
        res["fired"] = [p for p, rc2, _ in rs if rc2 == 1]
        res["errors"] = [p for p, rc2, _ in rs if rc2 not in (0, 1)]
        res["first"] = {p: ls[:1] for p, rc2, ls in rs if rc2 != 0}
        res["verdict"] = "killed-by-checks" if res["fired"] else ("analysis-error-only" if res["errors"] else "survived")
        return res
    finally:
        shutil.rmtree(tmp, ignore_errors=True)
        if "verdict" in res:
            out_file.write_text(json.dumps(res, indent=1))


def run(muts_path: Path, results: Path, par: int) -> None:
    muts = json.loads(muts_path.read_text())
    results.mkdir(parents=True, exist_ok=True)
    sel = os.environ.get("MUT_SELECT")
    if sel:
        lo, hi = (int(x) for x in sel.split(":"))
        muts = [m for m in muts if lo <= m["id"] < hi]
    with ThreadPoolExecutor(max_workers=par) as ex:
        for r in ex.map(lambda m: run_one(m, results, ALL), muts):
            print(r["id"], r["file"], r["line"], r["op"], repr(r["old"]), "->", repr(r["new"]), r.get("verdict"), r.get("fired", ""), flush=True)


def report(results: Path) -> None:
    rs = [json.loads(p.read_text()) for p in sorted(results.glob("m*.json"))]
    tally: dict[str, int] = {}
    for r in rs:
        tally[r["verdict"]] = tally.get(r["verdict"], 0) + 1
    print(len(rs), "mutants evaluated:", tally)
    alive = [r for r in rs if r["verdict"] in ("killed-by-checks", "analysis-error-only", "survived")]
    print(f"passing the suite: {len(alive)}; caught by a check: {sum(1 for r in alive if r['verdict'] == 'killed-by-checks')}")
    for v in ("survived", "analysis-error-only"):
        print(f"\n{v}:")
        for r in rs:
            if r["verdict"] == v:
                print(f"  m{r['id']:04d} {r['file']}:{r['line']} [{r['op']}] {r['old']!r} -> {r['new']!r} {r.get('errors', '')}")


if __name__ == "__main__":
    cmd = sys.argv[1]
    if cmd == "generate":
        generate(Path(sys.argv[2]))
    elif cmd == "run":
        par = int(sys.argv[sys.argv.index("--par") + 1]) if "--par" in sys.argv else 3
        run(Path(sys.argv[2]), Path(sys.argv[3]), par)
    else:
        report(Path(sys.argv[2]))
