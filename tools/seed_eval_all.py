#!/usr/bin/env python3
"""Evaluate every seeded change under a root (default /tmp/seed/*/_seed/change*) -> <root>/results/*.json"""
import json
import os
import sys
from concurrent.futures import ThreadPoolExecutor
from pathlib import Path

sys.path.insert(0, str(Path(__file__).resolve().parent))
from seed_eval import ALL, evaluate  # noqa: E402

root = Path(sys.argv[1] if len(sys.argv) > 1 else "/tmp/seed")
out = root / "results"
out.mkdir(exist_ok=True)
pat = sys.argv[3] if len(sys.argv) > 3 else "change*"
dirs = sorted(root.glob(f"C*/_seed/{pat}")) if (root / "C01").exists() else sorted(root.glob("C*/*"))
only = set(sys.argv[2].split(",")) if len(sys.argv) > 2 and sys.argv[2] else None


RESUME_AFTER = float(os.environ.get("SEED_RESUME_AFTER", "0"))


def one(d: Path):
    pid = d.parts[-3] if d.parts[-2] == "_seed" else d.parts[-2]
    name = f"{pid}-{d.name}"
    if only and pid not in only and name not in only:
        return name, None
    done = out / f"{name}.json"
    if RESUME_AFTER and done.exists() and done.stat().st_mtime > RESUME_AFTER:
        return name, None
    checks = ALL
    if os.environ.get("SEED_CHECKS") == "smart":
        prior = None
        if done.exists():
            try:
                prior = json.loads(done.read_text())
            except ValueError:
                prior = None
        if prior and prior.get("fired"):
            checks = sorted(set(prior["fired"]) | {pid})
        elif prior is None:
            checks = sorted({pid, "C01", "C02", "C03", "C04", "C05", "C06", "C07", "C12", "C15", "C19"})
    try:
        r = evaluate(d, checks)
        r["checks_run"] = checks
    except Exception as e:  # noqa: BLE001
        r = {"error": repr(e)}
    r["target"] = pid
    (out / f"{name}.json").write_text(json.dumps(r, indent=1))
    return name, r


import os
with ThreadPoolExecutor(max_workers=int(os.environ.get("SEED_PAR", "3"))) as ex:
    for name, r in ex.map(one, dirs):
        if r is None:
            continue
        print(name, "suite", (r.get("suite") or {}).get("summary"), "demo", (r.get("demo_clean") or {}).get("exit"), (r.get("demo_patched") or {}).get("exit"), "fired", r.get("fired"), "errors", r.get("errors"), r.get("error", ""), flush=True)
