#!/usr/bin/env python3
"""Run every quick check against behaviour-preserving refactorings: all must stay exit 0.

usage: benign_eval.py <dir containing */patch.diff> [out.json]
"""
import json
import sys
from pathlib import Path

sys.path.insert(0, str(Path(__file__).resolve().parent))
from seed_eval import ALL, evaluate  # noqa: E402

import os
from concurrent.futures import ThreadPoolExecutor

root = Path(sys.argv[1]).resolve()
out = {}
PAR = int(os.environ.get("BENIGN_PAR", "1"))


def one(d: Path):
    r = evaluate(d, ALL, skip_suite=True)
    bad = {p: c for p, c in r.get("checks", {}).items() if c["exit"] != 0}
    rec = {"error": r.get("error"), "non_silent": {p: (c["exit"], c["lines"][:2]) for p, c in bad.items()}}
    try:
        (d / "result.json").write_text(json.dumps({"checks_run": sorted(r.get("checks", {})), "non_silent": rec["non_silent"], "error": r.get("error"), "how": "tools/benign_eval.py: patch applied in a fresh scratch worktree of /repo HEAD, every quick check run with JSTAT_REPO pointing at it"}, indent=1))
    except OSError:
        pass
    return d, rec, bad, r


with ThreadPoolExecutor(max_workers=PAR) as ex:
    for d, rec, bad, r in ex.map(one, sorted(p.parent for p in root.glob("**/patch.diff"))):
        out[str(d)] = rec
        print(d.name, d.parent.parent.name, "ALL SILENT" if not bad and not r.get("error") else json.dumps(rec)[:600], flush=True)
if len(sys.argv) > 2:
    Path(sys.argv[2]).write_text(json.dumps(out, indent=1))
