#!/usr/bin/env python3
"""Evaluate one seeded change: confirm it (suite passes, demo fails with / passes without),
then run every quick check against the patched scratch worktree.

usage: seed_eval.py <dir with patch.diff + demo.py> [--checks C01,C05] [--skip-suite]
Prints a JSON summary.  The scratch worktree lives under a mkdtemp directory and is removed.
"""
from __future__ import annotations

import json
import os
import shutil
import subprocess
import sys
import tempfile
from concurrent.futures import ThreadPoolExecutor
from pathlib import Path

VERIF = Path(__file__).resolve().parent.parent
REPO = Path("/repo")
PY = "/venv/bin/python"
ALL = [f"C{i:02d}" for i in range(1, 21)]


def sh(cmd: list[str], cwd: Path, env: dict | None = None, timeout: int = 1800) -> tuple[int, str]:
    r = subprocess.run(cmd, cwd=cwd, env=env, capture_output=True, text=True, timeout=timeout)
    return r.returncode, (r.stdout + r.stderr)


def run_check(pid: str, wt: Path, tier: str = "quick") -> dict:
    env = dict(os.environ, JSTAT_REPO=str(wt), JSTAT_EVIDENCE_DIR=str(wt / "_ev"), JSTAT_REPLAY_DIR=str(wt / "_rp"))
    rc, out = sh([PY, "-m", "jstat", "check", pid, "--tier", tier], VERIF, env)
    lines = [l.strip()[:400] for l in out.splitlines() if " @ " in l or l.startswith(("ANALYSIS-ERROR", "VIOLATION"))]
    return {"exit": rc, "lines": lines[:6]}


def evaluate(seed_dir: Path, checks: list[str], skip_suite: bool = False, tier: str = "quick") -> dict:
    patch = seed_dir / "patch.diff"
    demo = seed_dir / "demo.py"
    tmp = Path(tempfile.mkdtemp(prefix="jstat-seed-"))
    wt = tmp / "wt"
    res: dict = {"seed": str(seed_dir)}
    try:
        rc, out = sh(["git", "-C", str(REPO), "worktree", "add", "-q", "--detach", str(wt), "HEAD"], REPO)
        if rc:
            return {"error": "worktree: " + out}
        env = dict(os.environ, PYTHONPATH=str(wt))
        if demo.exists():
            shutil.copy(demo, wt / "_demo_script")
            rc0, out0 = sh([PY, "_demo_script"], wt, env, 600)
            res["demo_clean"] = {"exit": rc0, "tail": out0[-300:]}
        rc, out = sh(["git", "apply", "--whitespace=nowarn", str(patch)], wt)
        if rc:
            return {"error": "patch does not apply: " + out[-400:]}
        res["files"] = sh(["git", "diff", "--stat"], wt)[1].strip().splitlines()[-1:]
        if demo.exists():
            rc1, out1 = sh([PY, "_demo_script"], wt, env, 600)
            res["demo_patched"] = {"exit": rc1, "tail": out1[-400:]}
        if not skip_suite:
            rc, out = sh([PY, "-m", "pytest", "-q", "-p", "no:cacheprovider", "--timeout=900", "-x"], wt, None, 1800)
            res["suite"] = {"exit": rc, "summary": [l for l in out.splitlines() if " passed" in l or " failed" in l or "error" in l.lower()][-2:]}
            sh(["git", "checkout", "--", "tests"], wt)
        with ThreadPoolExecutor(max_workers=int(os.environ.get("SEED_CHECK_PAR", "4"))) as ex:
            results = list(ex.map(lambda p: (p, run_check(p, wt, tier)), checks))
        res["checks"] = {p: r for p, r in results}
        res["fired"] = [p for p, r in results if r["exit"] == 1]
        res["errors"] = [p for p, r in results if r["exit"] == 2]
        return res
    finally:
        sh(["git", "-C", str(REPO), "worktree", "remove", "--force", str(wt)], REPO)
        shutil.rmtree(tmp, ignore_errors=True)


if __name__ == "__main__":
    args = sys.argv[1:]
    d = Path(args[0])
    checks = ALL
    skip = "--skip-suite" in args
    tier = "thorough" if "--thorough" in args else "quick"
    for a in args[1:]:
        if a.startswith("--checks"):
            checks = a.split("=", 1)[1].split(",")
    print(json.dumps(evaluate(d, checks, skip, tier), indent=1))
