#!/usr/bin/env python3
"""Regression of the seeded corpus with the current machinery: for every /verif/seeded/<id> re-run (without the suite)
the checks recorded as firing in meta.json plus the targeted property's check, and report seeds that are no longer
caught.  usage: seed_regress.py [--par N]"""
import json
import os
import sys
from concurrent.futures import ThreadPoolExecutor
from pathlib import Path

sys.path.insert(0, str(Path(__file__).resolve().parent))
from seed_eval import evaluate  # noqa: E402

VERIF = Path(__file__).resolve().parent.parent
par = int(sys.argv[sys.argv.index("--par") + 1]) if "--par" in sys.argv else 4


def one(d: Path):
    meta = json.loads((d / "meta.json").read_text())
    checks = sorted(set(meta["checks_that_fire"]) | {meta["breaks_property"]})
    r = evaluate(d, checks, skip_suite=True)
    return meta["id"], meta["checks_that_fire"], r.get("fired", []), r.get("errors", []), r.get("error")


lost = []
with ThreadPoolExecutor(max_workers=par) as ex:
    for sid, before, now, errs, err in ex.map(one, sorted(p for p in (VERIF / "seeded").iterdir() if (p / "meta.json").exists())):
        status = "ok" if (now or not before) else "LOST"
        if status == "LOST" or err:
            lost.append(sid)
        print(sid, status, "before", before, "now", now, "errors", errs, err or "", flush=True)
print("no longer caught:", lost)
