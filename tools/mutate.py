#!/usr/bin/env python3
"""Apply one textual edit to a scratch copy of /repo/pyjelly and run checks against it.

usage: mutate.py <relfile> <old> <new> <pid> [<pid> ...]      (old must occur exactly once unless --all)
Scratch copies live under a mkdtemp directory and are removed on exit.
"""
from __future__ import annotations

import os
import shutil
import subprocess
import sys
import tempfile
from pathlib import Path

REPO = Path(os.environ.get("JSTAT_REPO", "/repo"))
VERIF = Path(__file__).resolve().parent.parent


def run_mutation(relfile: str, old: str, new: str, pids: list[str], count: int = 1, tier: str = "quick") -> dict:
    tmp = Path(tempfile.mkdtemp(prefix="jstat-mut-"))
    try:
        shutil.copytree(REPO / "pyjelly", tmp / "pyjelly", symlinks=True, ignore=shutil.ignore_patterns("__pycache__", "*.so", "_proto"))
        p = tmp / relfile
        src = p.read_text()
        if src.count(old) < 1 or (count and src.count(old) != count):
            return {"error": f"pattern occurs {src.count(old)} times in {relfile}, expected {count}"}
        p.write_text(src.replace(old, new))
        import ast

        ast.parse(p.read_text())
        res = {}
        for pid in pids:
            env = dict(os.environ, JSTAT_REPO=str(tmp), JSTAT_EVIDENCE_DIR=str(tmp / "evidence"), JSTAT_REPLAY_DIR=str(tmp / "replay"))
            r = subprocess.run(["/venv/bin/python", "-m", "jstat", "check", pid, "--tier", tier], cwd=VERIF, env=env, capture_output=True, text=True)
            lines = [l for l in r.stdout.splitlines() if l.startswith(("VIOLATION", "ANALYSIS-ERROR", "KNOWN-FINDING", "  C"))]
            res[pid] = {"exit": r.returncode, "lines": lines[:8], "stderr": r.stderr[-400:] if r.returncode == 2 else ""}
        return res
    finally:
        shutil.rmtree(tmp, ignore_errors=True)


if __name__ == "__main__":
    relfile, old, new, *pids = sys.argv[1:]
    out = run_mutation(relfile, old, new, pids, count=0)
    for pid, r in out.items() if "error" not in out else []:
        print(pid, "exit", r["exit"])
        for l in r["lines"]:
            print("   ", l[:300])
        if r["stderr"]:
            print(r["stderr"])
    if "error" in out:
        print(out["error"])
